"""C05 — tournament selection keeps the fittest and builds a well-formed generation.

D-order: a finite ordering algebra over argsort / argmax / [-1] / [0] / negation.
"""
from __future__ import annotations

import ast
from dataclasses import dataclass
from fractions import Fraction
from typing import Dict, List, Optional, Set, Tuple

from ..cfg import CFG, Node
from ..core import AnalysisError, Cls, Fn, Repo, call_name, calls_in, const_value, dotted, get_kw, last_attr, short, walk_no_nested
from ..report import Check
from ..terms import Poly

TOUR = "agilerl.hpo.tournament"


@dataclass(frozen=True)
class Ord:
    kind: str  # vals | perm | rank | idx | pos | unknown
    sign: int = 1  # +1: larger = fitter ; for perm: ascending in fitness when +1
    which: str = ""  # best | worst (idx/pos)
    over: str = ""  # what the values / positions range over
    why: str = ""

    def __str__(self) -> str:
        if self.kind in ("idx", "pos"):
            return f"{self.kind}({self.which} of {self.over})"
        if self.kind == "unknown":
            return f"unknown[{self.why}]"
        return f"{self.kind}({'+' if self.sign > 0 else '-'}, over {self.over})"


class OrdEval:
    def __init__(self, cfg: CFG, seeds: Dict[str, Ord]):
        self.cfg = cfg
        self.seeds = seeds

    def ev(self, e: ast.AST, at: Node, depth: int = 0) -> Ord:
        if depth > 12:
            return Ord("unknown", why="depth")
        if isinstance(e, ast.Name):
            if e.id in self.seeds:
                return self.seeds[e.id]
            defs = self.cfg.defs_reaching(at, e.id)
            vals = []
            for d in defs:
                v = self.cfg.value_of_def(d, e.id)
                if v is None:
                    return Ord("unknown", why=f"{e.id} not a plain binding")
                vals.append(self.ev(v, d, depth + 1))
            if vals and all(v == vals[0] for v in vals):
                return vals[0]
            return Ord("unknown", why=f"{e.id}: {len(vals)} definitions disagree")
        if isinstance(e, ast.UnaryOp) and isinstance(e.op, ast.USub):
            o = self.ev(e.operand, at, depth + 1)
            if o.kind in ("vals", "rank"):
                return Ord(o.kind, -o.sign, over=o.over)
            return Ord("unknown", why="negation of " + str(o))
        if isinstance(e, ast.Call):
            cn = call_name(e)
            la = last_attr(e)
            if cn in ("int", "np.asarray", "np.array", "list", "float") and e.args:
                return self.ev(e.args[0], at, depth + 1)
            if cn in ("np.argsort", "numpy.argsort") and e.args:
                o = self.ev(e.args[0], at, depth + 1)
                return self._argsort(o)
            if isinstance(e.func, ast.Attribute) and la == "argsort" and not cn.startswith(("np.", "numpy.")):
                o = self.ev(e.func.value, at, depth + 1)
                return self._argsort(o)
            if cn in ("np.argmax", "np.argmin", "numpy.argmax", "numpy.argmin") and e.args:
                o = self.ev(e.args[0], at, depth + 1)
                mx = cn.endswith("argmax")
                if o.kind in ("vals", "rank"):
                    best = (o.sign > 0) == mx
                    return Ord("pos", which="best" if best else "worst", over=o.over)
                return Ord("unknown", why=f"{cn} of {o}")
            if isinstance(e.func, ast.Attribute) and la in ("argmax", "argmin"):
                o = self.ev(e.func.value, at, depth + 1)
                if o.kind in ("vals", "rank"):
                    best = (o.sign > 0) == (la == "argmax")
                    return Ord("pos", which="best" if best else "worst", over=o.over)
            if cn in ("sorted",):
                return Ord("unknown", why="sorted() not modelled")
            return Ord("unknown", why=f"call {short(e, 50)}")
        if isinstance(e, ast.ListComp):
            # [f(x) for x in seq]: values over seq when the element is a fitness expression / lookup into values
            g = e.generators[0]
            if len(e.generators) == 1:
                elt = e.elt
                if isinstance(elt, ast.Subscript) and isinstance(elt.slice, ast.Name) and isinstance(g.target, ast.Name) and elt.slice.id == g.target.id:
                    base = self.ev(elt.value, at, depth + 1)
                    if base.kind in ("vals", "rank"):
                        return Ord(base.kind, base.sign, over=f"positions of {ast.unparse(g.iter)}")
                return Ord("unknown", why="list comprehension " + short(e, 60))
        if isinstance(e, ast.Subscript):
            base = self.ev(e.value, at, depth + 1)
            k = const_value(e.slice) if isinstance(e.slice, (ast.Constant, ast.UnaryOp)) else None
            if base.kind == "perm" and k in (-1, 0):
                last = k == -1
                best = (base.sign > 0) == last
                return Ord("idx", which="best" if best else "worst", over=base.over)
            if base.kind == "perm" and isinstance(e.slice, ast.Slice) and e.slice.step is not None and const_value(e.slice.step) == -1 and e.slice.lower is None and e.slice.upper is None:
                return Ord("perm", -base.sign, over=base.over)
            # seq[pos(best of positions of seq)] -> the best element's *value* in seq
            idx = self.ev(e.slice, at, depth + 1) if isinstance(e.slice, ast.expr) and not isinstance(e.slice, (ast.Slice, ast.Constant)) else None
            if idx is not None and idx.kind == "pos" and idx.over == f"positions of {ast.unparse(e.value)}":
                return Ord("idx", which=idx.which, over=f"elements drawn in {ast.unparse(e.value)}")
            return Ord("unknown", why=f"subscript {short(e, 50)} of {base}")
        return Ord("unknown", why=type(e).__name__)

    @staticmethod
    def _argsort(o: Ord) -> Ord:
        if o.kind == "vals":
            return Ord("perm", o.sign, over=o.over)
        if o.kind == "perm":
            return Ord("rank", o.sign, over=o.over)
        if o.kind == "rank":
            return Ord("perm", o.sign, over=o.over)
        return Ord("unknown", why=f"argsort of {o}")


def run(ck: Check, repo: Repo) -> None:
    # "every other member is a faithful copy": the structural conditions of a faithful copy are the C01 obligations; they are taken over here
    # (the nested Check is run first because it resets the per-run pattern environments; findings already recorded under C01 are reported there only)
    from dataclasses import replace
    from . import c01
    sub = Check("C01", ck.tier, ck.repo_root)
    # the shared obligations look at the same normal form of select() as the rules below (see _loop_form; the loaded method is put back afterwards)
    cls = repo.cls(TOUR, "TournamentSelection")
    loaded = cls.methods["select"]
    cls.methods["select"] = _loop_form(repo, cls, loaded)
    try:
        c01.run(sub, repo)
    finally:
        cls.methods["select"] = loaded
    ck.rule("C05.7", "the members of the new population are faithful copies: every structural condition of a faithful, independent clone holds "
                     "(all obligations of the C01 check, shared; open C01 findings are reported under C01 only)")
    taken = [replace(o, rule="C05.7") for o in sub.obs if o.status != "known"]
    if len(taken) < 60:
        raise AnalysisError(f"C05.7: only {len(taken)} obligations taken over from C01")
    ck.obs.extend(taken)
    ck.not_decided += ["equality of the copies' outputs as numbers (C01's not-decided list applies)", "behaviour under ties beyond 'one of the maxima'", "the random draws themselves"]
    ck.trusted += ["numpy: argsort is ascending; argsort of a permutation is its inverse (ranks); argmax returns the position of a maximum"]
    ck.rule("C05.1", "the elite is the arg-max of the mean of the last eval_loop scores (ordering algebra over argsort/argmax/[-1])")
    ck.rule("C05.2", "a tournament draws tournament_size indices from [0, population) and returns the best-ranked of the drawn indices")
    ck.rule("C05.3", "the new population has exactly population_size members on both arms of the elitism switch "
                     "(symbolic count: members added before the loop + iterations x appends per iteration)")
    ck.rule("C05.4", "every non-elite member gets a fresh index: in iteration k it is max_id + a*k + b with a, b >= 1 (a counter started at the maximum existing "
                     "index and stepped before each use, or the maximum plus a loop index that starts at 1)")
    ck.rule("C05.5", "with elitism the elite is the first member of the new population")
    ck.rule("C05.6", "the parent of each member is the tournament winner of that iteration, looked up in the old population")
    cls = repo.cls(TOUR, "TournamentSelection")
    eli, tour, sel = cls.methods["_elitism"], cls.methods["_tournament"], cls.methods["select"]
    # ---- C05.1
    ecfg = CFG(eli.node)
    # the fitness vector: mean of the last eval_loop scores per individual, in population order
    # the fitness vector: a list comprehension over the population, or an empty list filled by one append per member
    fit_name = None
    elt = None
    it_src = None
    tgt_name = None
    site = eli.node
    def _vector_comp(v: ast.AST):
        """(comprehension, truncating argument) of `[...]`, `list(<gen>)`, `np.array([...])`, `np.asarray(...)`, `np.fromiter(<gen>, dtype[, count])`."""
        if isinstance(v, ast.ListComp):
            return v, None
        if isinstance(v, ast.Call) and v.args and isinstance(v.args[0], (ast.ListComp, ast.GeneratorExp)) and \
                (call_name(v) in ("list", "tuple") or last_attr(v) in ("array", "asarray", "fromiter", "tensor", "as_tensor")):
            cut = get_kw(v, "count", 2) if last_attr(v) == "fromiter" else None
            if cut is not None and const_value(cut) == -1:
                cut = None
            return v.args[0], cut
        return None, None
    lf = [(n, _vector_comp(n.ast.value)) for n in ecfg.live_nodes() if n.kind == "stmt" and isinstance(n.ast, ast.Assign) and "fitness" in ast.unparse(n.ast.value)]
    lf = [(n, c) for n, c in lf if c[0] is not None]
    if len(lf) == 1:
        comp, cut = lf[0][1]
        g = comp.generators[0]
        fit_name, elt, it_src, tgt_name, site = dotted(lf[0][0].ast.targets[0]), comp.elt, g.iter, dotted(g.target), comp
        # one entry per member: no filter, one generator, and nothing that stops reading early (np.fromiter(..., count=k) reads only k members)
        plain = not g.ifs and len(comp.generators) == 1 and cut is None
    else:
        plain = False
        for L_ in [n for n in ecfg.live_nodes() if n.kind == "for" and dotted(n.ast.iter) == "population"]:
            apps_ = [c for c in calls_in(L_.ast) if last_attr(c) == "append" and "fitness" in ast.unparse(c)]
            if len(apps_) == 1 and isinstance(apps_[0].func.value, ast.Name):
                an = ecfg.node_of(apps_[0])
                first = ecfg.node_of(L_.ast.body[0])
                inits = [d for d in ecfg.defs_reaching(L_, apps_[0].func.value.id) if not any(x is d.stmt for x in ast.walk(L_.ast))]
                if len(inits) == 1 and isinstance(ecfg.value_of_def(inits[0], apps_[0].func.value.id), ast.List) and first is not None and ecfg.postdominates(an, first):
                    fit_name, it_src, tgt_name, site = apps_[0].func.value.id, L_.ast.iter, dotted(L_.ast.target), apps_[0]
                    plain = not ecfg.guards_at(an)
                    # inline single-use locals of the element expression
                    elt = apps_[0].args[0]
                    for _ in range(3):
                        for nm in [x for x in ast.walk(elt) if isinstance(x, ast.Name) and isinstance(x.ctx, ast.Load)]:
                            ds = [d for d in ecfg.defs_reaching(an, nm.id) if any(x is d.stmt for x in ast.walk(L_.ast)) and d.kind == "stmt"]
                            if len(ds) == 1 and ecfg.value_of_def(ds[0], nm.id) is not None and nm.id != tgt_name:
                                class _R(ast.NodeTransformer):
                                    def visit_Name(self, node, _id=nm.id, _v=ecfg.value_of_def(ds[0], nm.id)):
                                        return _v if node.id == _id and isinstance(node.ctx, ast.Load) else node
                                import copy as _c
                                elt = _R().visit(_c.deepcopy(elt))
    ck.ob("C05.1", eli, site, fit_name is not None, "one score per member is collected into a fitness vector", construct="fitness vector in _elitism")
    if fit_name is None:
        raise AnalysisError("_elitism: fitness vector not found")
    ok = dotted(it_src) == "population" and plain
    ck.ob("C05.1", eli, site, ok, "one score per member of the population, in population order")
    okm = isinstance(elt, ast.Call) and call_name(elt) in ("np.mean", "numpy.mean") and len(elt.args) == 1
    sl = elt.args[0] if okm else None
    oks = isinstance(sl, ast.Subscript) and dotted(sl.value) == f"{tgt_name}.fitness" and isinstance(sl.slice, ast.Slice) and sl.slice.upper is None \
        and sl.slice.step is None and _is_neg_window(ecfg, sl.slice.lower, ecfg.node_of(site))
    ck.ob("C05.1", eli, elt, okm and oks, "the score is the mean of the member's last eval_loop fitness entries (suffix slice [-eval_loop:])",
          detail=f"element: {short(elt, 100)} — a start index computed as len - eval_loop goes negative for histories shorter than the window and wraps around")
    ev = OrdEval(ecfg, {fit_name: Ord("vals", 1, over="population")})
    rets = [n for n in ecfg.live_nodes() if n.kind == "stmt" and isinstance(n.ast, ast.Return)]
    ck.ob("C05.1", eli, eli.node, len(rets) == 1 and isinstance(rets[0].ast.value, ast.Tuple) and len(rets[0].ast.value.elts) == 3, "_elitism returns (elite, rank, max_id)",
          construct="return of _elitism")
    r = rets[0]
    elite_e, rank_e, maxid_e = r.ast.value.elts
    # elite = <model>.clone() with model = population[Idx(best)]
    # (the clone call may be bound to a local first or be the returned element itself)
    src_model = None
    if isinstance(elite_e, ast.Call) and last_attr(elite_e) == "clone" and isinstance(elite_e.func, ast.Attribute):
        src_model = (elite_e.func.value, r)
    for d in ecfg.defs_reaching(r, dotted(elite_e)) if isinstance(elite_e, ast.Name) else []:
        v = ecfg.value_of_def(d, dotted(elite_e))
        if isinstance(v, ast.Call) and last_attr(v) == "clone":
            src_model = (v.func.value, d)
    ok = src_model is not None
    o = None
    if ok:
        m, dn = src_model
        sub = None
        if isinstance(m, ast.Name):
            for d in ecfg.defs_reaching(dn, m.id):
                sub = (ecfg.value_of_def(d, m.id), d)
        elif isinstance(m, ast.Subscript):
            sub = (m, dn)
        ok = sub is not None and isinstance(sub[0], ast.Subscript) and dotted(sub[0].value) == "population"
        if ok:
            o = ev.ev(sub[0].slice, sub[1])
            ok = o.kind in ("idx", "pos") and o.which == "best" and o.over == "population"
    ck.ob("C05.1", eli, elite_e, ok, "the elite is a clone of population[i] with i the index of the best score",
          detail=f"index evaluates to {o}" if o is not None else "elite is not `population[...] .clone()`")
    ro = ev.ev(rank_e, r)
    ck.ob("C05.2", eli, rank_e, ro.kind == "rank" and ro.sign > 0 and ro.over == "population",
          "the ranking handed to the tournaments is ascending in fitness (higher rank = fitter), one rank per member", detail=f"rank evaluates to {ro}")
    # ---- C05.2 tournament
    tcfg = CFG(tour.node)
    param = tour.named_params[1]
    tev = OrdEval(tcfg, {param: Ord("rank", ro.sign if ro.kind == "rank" else 1, over="population")})
    draws = [c for c in calls_in(tour.node) if call_name(c) in ("np.random.randint", "np.random.choice", "self.rng.integers", "np.random.default_rng().integers")]
    ck.ob("C05.2", tour, draws[0] if draws else tour.node, len(draws) == 1, "one draw of candidate indices per tournament", construct="draw in _tournament")
    if draws:
        c = draws[0]
        if call_name(c) == "np.random.randint":
            # randint(low, high, size): positionally or by keyword; the bounds may go through single-definition temporaries
            dn_ = tcfg.node_of(c)
            lo, hi, size = (_resolve(tcfg, a, dn_)[0] if a is not None else None for a in (get_kw(c, "low", 0), get_kw(c, "high", 1), get_kw(c, "size", 2)))
            ok = lo is not None and const_value(lo) == 0 and hi is not None and ast.unparse(hi) == f"len({param})" and size is not None and dotted(size) == "self.tournament_size" \
                and not any(isinstance(a, ast.Starred) for a in c.args) and not any(k.arg is None for k in c.keywords)
        else:
            ok = False
        ck.ob("C05.2", tour, c, ok, "tournament_size indices are drawn uniformly from [0, len(population))", detail=short(c, 100))
    trets = [n for n in tcfg.live_nodes() if n.kind == "stmt" and isinstance(n.ast, ast.Return)]
    for tr in trets:
        o = tev.ev(tr.ast.value, tr)
        ck.ob("C05.2", tour, tr.ast, o.kind == "idx" and o.which == "best" and "drawn" in o.over,
              "the winner is the drawn index with the best rank", detail=f"returns {o}")
    # the values compared are those at the drawn indices
    comps = [n for n in walk_no_nested(tour.node) if isinstance(n, ast.ListComp)]
    for cmp_ in comps:
        gg = cmp_.generators[0]
        ok = isinstance(cmp_.elt, ast.Subscript) and dotted(cmp_.elt.value) == param and dotted(cmp_.elt.slice) == dotted(gg.target) and not gg.ifs
        ck.ob("C05.2", tour, cmp_, ok, "the compared values are the ranks at the drawn indices, in draw order")
    # ---- C05.3 size / C05.5 elite first / C05.4 indices / C05.6 parents
    # The rules below do not look at how select() spells the construction of the new population: they work on its *members* (elements of the
    # list display(s) the list is bound to, arguments of append calls; c01.list_build), count them symbolically on each arm of the elitism switch
    # and evaluate the index of the k-th tournament member as a polynomial in k.
    sel = _loop_form(repo, cls, sel)
    scfg = CFG(sel.node)
    srets = [n for n in scfg.live_nodes() if n.kind == "stmt" and isinstance(n.ast, ast.Return)]
    returned = {dotted(n.ast.value.elts[1]) for n in srets if isinstance(n.ast.value, ast.Tuple) and len(n.ast.value.elts) == 2}
    # the new population: the local list returned as the second element (else the only local that receives appended members)
    recv = sorted({c.func.value.id for c in calls_in(sel.node) if last_attr(c) == "append" and isinstance(c.func, ast.Attribute)
                   and isinstance(c.func.value, ast.Name)})
    ret_names = sorted(x for x in returned if "?" not in x and "." not in x)
    newpop = ret_names[0] if len(ret_names) == 1 else (recv[0] if len(recv) == 1 and not ret_names else None)
    lb = c01.list_build(scfg, newpop)
    loops_of = {id(m): _enclosing_loops(scfg, m.node) for m in lb.members}
    tourn = [m for m in lb.members if loops_of[id(m)]]
    first_m = [m for m in lb.members if not loops_of[id(m)]]
    modelled = not lb.problems and not lb.not_lists and all(m.how in ("display", "append") for m in lb.members) and all(len(loops_of[id(m)]) == 1 for m in tourn)
    ck.ob("C05.3", sel, sel.node, modelled and len(tourn) == 1 and len(first_m) == 1, "the members come from one conditional elite contribution (a branch, or an arm of the defining display) and one tournament loop",
          detail="; ".join(lb.problems + [f"not a new list: {short(x, 50)}" for x in lb.not_lists]) or f"{len(first_m)} member(s) outside a loop, {len(tourn)} inside",
          construct="append sites in select")
    if modelled and len(tourn) == 1 and len(first_m) == 1:
        tm, em = tourn[0], first_m[0]
        L = loops_of[id(tm)][0]
        sym = _Sym(scfg, lb, L)
        rng = sym.rng
        # the loop is left only through its header: no break / return inside (each would change the number of members)
        jumps = [x for x in ast.walk(L.stmt) if isinstance(x, (ast.Break, ast.Return))]
        ck.ob("C05.3", sel, L.ast.iter if L.kind == "for" else L.ast, rng is not None and not jumps, "the tournament loop runs a number of times that is fixed on entry (range with unit step, never left early), with one append per iteration",
              detail="the loop is not `for .. in range(..)` with unit step" if rng is None else (f"`{short(jumps[0], 40)}` leaves the loop early" if jumps else ""))
        if rng is not None:
            it = L.ast.iter
            # the append inside the loop is unconditional within the body
            ck.ob("C05.3", sel, tm.site, sym.once_per_iteration(tm.node) and not scfg.guards_at(tm.node) and not tm.conds,
                  "the append inside the loop happens on every iteration")
            P = Poly.atom("attr:self.population_size")
            n_on, n_off = sym.times(em, True), sym.times(em, False)
            ck.ob("C05.5", sel, em.site, n_on == Poly.const(1) and n_off == Poly.const(0) and not sym.switch_stores, "the elite is added exactly when elitism is on",
                  detail=f"added {_show(n_on)} time(s) with elitism, {_show(n_off)} without")
            trips = {arm: sym.trips(arm) for arm in (True, False)}
            ck.ob("C05.3", sel, it, None not in trips.values() and not sym.switch_stores,
                  "the number of iterations is determined by the elitism switch alone (population_size - 1 with elitism, population_size without)",
                  detail="iterations: " + ", ".join(f"{_show(v)} {'with' if a else 'without'} elitism" for a, v in trips.items()))
            # symbolic count per arm: |members added before the loop| + iterations x appends per iteration = population_size
            for arm in (True, False):
                tot = sym.total(arm)
                ck.ob("C05.3", sel, it, tot == P, f"{'with' if arm else 'without'} elitism the members added before the loop plus one per iteration are exactly population_size",
                      detail=f"{_show(sym.times(em, arm))} before the loop + {_show(trips[arm])} iterations x 1 = {_show(tot)} members, wanted {_show(P)}",
                      construct=f"size of the new population {'with' if arm else 'without'} elitism")
            # elite first: it is in position 0 of the display that starts the list, or appended before the loop can add anything
            if em.how == "display":
                okf = em.pos == 0 and em.node in scfg.defs_reaching(tm.node, newpop)
            else:
                okf = L.id in scfg.reachable_from(em.node) and em.node.id not in scfg.reachable_from(tm.node)
            ck.ob("C05.5", sel, em.site, okf, "the elite is appended before any tournament winner (first position)")
            ea, ean = _resolve(scfg, em.elt, em.node)
            ok = isinstance(ea, ast.Call) and last_attr(ea) == "clone" and isinstance(ea.func, ast.Attribute) \
                and _from_elitism(scfg, ean, _resolve(scfg, ea.func.value, ean)[0]) == 0
            ck.ob("C05.5", sel, ea, ok, "the first member is a clone of the elite returned by _elitism")
            if ok:
                idx_arg = get_kw(ea, "index", 0)
                ck.ob("C05.5", sel, ea, idx_arg is None, "the elite's copy keeps the elite's index (carried unchanged)")
            # C05.4 fresh indices
            ca = tm.elt
            v, dn = _resolve(scfg, ca, tm.node)
            is_clone = isinstance(v, ast.Call) and last_attr(v) == "clone" and isinstance(v.func, ast.Attribute)
            ck.ob("C05.4", sel, ca, is_clone, "tournament members are clones", construct="member clone in select loop")
            if is_clone:
                ia = get_kw(v, "index", 0)
                # the index of the member made in iteration k (k = 0, 1, ..) as a polynomial: a counter stepped once per iteration contributes
                # start + step * (k + 1) when the step comes before the use and start + step * k when it comes after; the variable of range(lo, ..) is lo + k
                ip = sym.index(ia, dn) if ia is not None else None
                B = Poly.atom("elitism:2")
                rest = ip - B if ip is not None else None
                ck.ob("C05.4", sel, ia if ia is not None else v, rest is not None and "elitism:2" not in rest.atoms(), "the new indices are counted from the maximum index returned by _elitism",
                      detail=f"index in iteration k: {_show(ip)}")
                c1, c0 = _affine(rest, "k") if rest is not None else (None, None)
                ok = c1 is not None and c1 >= 1 and c0 >= 1
                ck.ob("C05.4", sel, v, ok, "the member made in iteration k gets index max_id + a*k + b with a >= 1 (no two members share one) and b >= 1 (above every existing "
                      "index): a counter stepped once per iteration before its use, or max_id plus a loop index starting at 1", detail=f"index in iteration k (k = 0, 1, ..): {_show(ip)}")
                # C05.6 parent
                pe, pn = _resolve(scfg, v.func.value, dn)
                tc, tn = _resolve(scfg, pe.slice, pn) if isinstance(pe, ast.Subscript) and isinstance(pe.slice, ast.expr) else (None, None)
                ok = isinstance(pe, ast.Subscript) and dotted(pe.value) == "population" and isinstance(tc, ast.Call) and call_name(tc) == "self._tournament" \
                    and tn is not None and sym.in_loop(tn)
                ck.ob("C05.6", sel, pe if pe is not None else v, ok, "the parent is population[winner of a tournament run in this iteration]")
                if ok:
                    a0 = tc.args[0] if tc.args else None
                    ck.ob("C05.6", sel, a0 if a0 is not None else tc, a0 is not None and _from_elitism(scfg, tn, _resolve(scfg, a0, tn)[0]) == 1,
                          "the tournament runs on the ranking computed by _elitism for this population")
    # max_id is the maximum existing index
    mx = [n for n in ecfg.live_nodes() if n.kind == "stmt" and isinstance(n.ast, ast.Assign) and dotted(n.ast.targets[0]) == dotted(maxid_e)] if isinstance(maxid_e, ast.Name) else [r]
    mxv = (mx[0].ast.value if isinstance(maxid_e, ast.Name) else maxid_e) if len(mx) == 1 else None
    ok = isinstance(mxv, ast.Call) and call_name(mxv) == "max" and len(mxv.args) == 1 and not mxv.keywords
    if ok:
        a = mxv.args[0]
        ok = isinstance(a, (ast.ListComp, ast.GeneratorExp)) and dotted(a.generators[0].iter) == "population" and isinstance(a.elt, ast.Attribute) and a.elt.attr == "index" and not a.generators[0].ifs
    ck.ob("C05.4", eli, mx[0].ast if mx else eli.node, ok, "max_id is the maximum index over the whole old population")
    ok = len(srets) == 1 and isinstance(srets[0].ast.value, ast.Tuple) and len(srets[0].ast.value.elts) == 2
    if ok:
        e0, e1 = srets[0].ast.value.elts
        ok = _from_elitism(scfg, srets[0], e0) == 0 and newpop is not None and dotted(e1) == newpop
    ck.ob("C05.3", sel, srets[0].ast if srets else sel.node, ok, "select returns (elite, new population)")
    # tournament_selection_and_mutation wires select -> mutation
    tsm = repo.fn("agilerl.utils.utils", "tournament_selection_and_mutation")
    tc = CFG(tsm.node)
    selc = [c for c in calls_in(tsm.node) if last_attr(c) == "select" and "tournament" in ast.unparse(c.func)]
    mutc = [c for c in calls_in(tsm.node) if last_attr(c) == "mutation" and isinstance(c.func, ast.Attribute)]
    ck.ob("C05.6", tsm, tsm.node, len(selc) >= 1 and len(selc) == len(mutc), "every selection is followed by a mutation of its result", construct="select/mutation pairs")
    for sc in selc:
        sn = tc.node_of(sc)
        names = [k for k, _ in tc.defs_at(sn)]
        partner = [m for m in mutc if tc.node_of(m) is not None and tc.dominates(sn, tc.node_of(m)) and tc.guards_at(tc.node_of(m)) == tc.guards_at(sn)]
        ok = len(names) == 2 and dotted(sc.args[0]) == "population" and len(partner) == 1 and dotted(partner[0].args[0]) == names[1] \
            and sn in tc.defs_reaching(tc.node_of(partner[0]), names[1])
        ck.ob("C05.6", tsm, sc, ok, "the training loops mutate the population returned by select (second element) for the current population")
        if ok:
            mn = tc.node_of(partner[0])
            outn = [k for k, _ in tc.defs_at(mn)]
            ck.ob("C05.6", tsm, partner[0], outn == ["population"], "the mutated population replaces the old one")
    rets = [n for n in tc.live_nodes() if n.kind == "stmt" and isinstance(n.ast, ast.Return)]
    ck.ob("C05.6", tsm, rets[0].ast if rets else tsm.node, bool(rets) and all(dotted(r.ast.value) == "population" for r in rets), "the new population is returned")
    _clone_applies_index(ck, repo)


def _clone_applies_index(ck: Check, repo: Repo) -> None:
    """select() hands the fresh index to clone(index=...): every clone implementation a population member can have applies it to the
    object it returns (the algorithm base class) or forwards it (the agent wrapper)."""
    base = repo.fn("agilerl.algorithms.core.base", "EvolvableAlgorithm.clone")
    ip = _index_param(base)
    cfg = CFG(base.node)
    rets = [n for n in cfg.live_nodes() if n.kind == "stmt" and isinstance(n.ast, ast.Return)]
    rname = dotted(rets[0].ast.value) if len(rets) == 1 and rets[0].ast.value is not None else None
    sets = [n for n in cfg.live_nodes() if n.kind == "stmt" and isinstance(n.ast, ast.Assign) and len(n.ast.targets) == 1
            and isinstance(n.ast.targets[0], ast.Attribute) and n.ast.targets[0].attr in ("index", "_index")]
    ok = ip is not None and rname is not None and len(sets) == 1
    detail = f"index parameter {ip}, returned {rname}, {len(sets)} index assignments"
    if ok:
        st = sets[0]
        gs = cfg.guards_at(st)
        # the only condition is `index is not None` (so a given index is always applied)
        okg = all(pol and isinstance(g, ast.Compare) and dotted(g.left) == ip and len(g.ops) == 1 and isinstance(g.ops[0], ast.IsNot)
                  and isinstance(g.comparators[0], ast.Constant) and g.comparators[0].value is None for g, pol, _ in gs) and len(gs) <= 1
        ok = dotted(st.ast.targets[0].value) == rname and dotted(st.ast.value) == ip and okg \
            and {d.id for d in cfg.defs_reaching(st, rname)} == {d.id for d in cfg.defs_reaching(rets[0], rname)}
        detail = f"`{short(st.ast, 60)}` under {[ast.unparse(g) for g, _, _ in gs]}"
        # ... and nothing copies the parent's index over it afterwards (copy_attributes carries _index)
        later = [c for c in calls_in(base.node) if last_attr(c) in ("copy_attributes", "__dict__.update") and cfg.node_of(c) is not None
                 and cfg.node_of(c).id in cfg.reachable_from(st) and cfg.node_of(c) is not st]
        ck.ob("C05.4", base, later[0] if later else st.ast, not later, "the index given to clone() is applied after the parent's attributes were copied (not overwritten by them)",
              construct="EvolvableAlgorithm.clone: order of copy_attributes and the index assignment")
    ck.ob("C05.4", base, sets[0].ast if sets else base.node, ok, "clone(index) returns an object that carries the given index whenever one is given", detail=detail,
          construct="EvolvableAlgorithm.clone: index applied")
    w = repo.fn("agilerl.wrappers.agent", "AgentWrapper.clone")
    wp = _index_param(w)
    inner = [c for c in calls_in(w.node) if call_name(c) == "self.agent.clone"]
    okw = wp is not None and len(inner) == 1
    if okw:
        a = get_kw(inner[0], "index", 0)
        okw = a is not None and dotted(a) == wp and not [n for n in CFG(w.node).live_nodes() if n.kind == "stmt" and wp in [k for k, _ in CFG(w.node).defs_at(n)]]
    ck.ob("C05.4", w, inner[0] if inner else w.node, okw, "a wrapped member forwards the index it is given to the wrapped agent's clone()",
          detail=short(inner[0], 80) if inner else "no self.agent.clone call", construct="AgentWrapper.clone: index forwarded")


def _index_param(fn: Fn) -> Optional[str]:
    """the parameter that select() fills: keyword `index`, else the first parameter after self."""
    ps = [p for p in fn.params if p != "self"]
    return "index" if "index" in ps else (ps[0] if ps else None)


def _show(p: Optional[Poly]) -> str:
    """a polynomial for a diagnosis: `population_size - 1`, `max_id + k + 1`; what could not be interpreted is shown as ?(text)."""
    if p is None:
        return "?"
    parts = []
    for m in sorted(p.t, key=lambda m: (m == (), m)):
        c = p.t[m]
        mon = "*".join((f"?({k[5:]})" if k.startswith("expr:") else k.replace("attr:self.", "").replace("elitism:2", "max_id")) + (f"^{e}" if e != 1 else "") for k, e in m)
        txt = (mon if abs(c) == 1 else f"{abs(c)}*{mon}") if mon else str(abs(c))
        parts.append(("- " if c < 0 else "+ ") + txt)
    out = " ".join(parts) if parts else "0"
    return out[2:] if out.startswith("+ ") else out


def _affine(p: Poly, var: str) -> Tuple[Optional[Fraction], Optional[Fraction]]:
    """(a, b) when p = a * var + b with constant a, b; (None, None) otherwise."""
    a, b = Fraction(0), Fraction(0)
    for m, c in p.t.items():
        if m == ():
            b = c
        elif m == ((var, 1),):
            a = c
        else:
            return None, None
    return a, b


def _resolve(cfg: CFG, e: ast.AST, at: Optional[Node], limit: int = 6) -> Tuple[ast.AST, Optional[Node]]:
    """Look through single-definition temporaries: the expression a local stands for, and the node that evaluates it."""
    while isinstance(e, ast.Name) and at is not None and limit > 0:
        ds = cfg.defs_reaching(at, e.id)
        if len(ds) != 1 or ds[0].kind != "stmt" or not isinstance(ds[0].ast, (ast.Assign, ast.AnnAssign)):
            break
        v = cfg.value_of_def(ds[0], e.id)
        if v is None or getattr(v, "_unpack_len", None) is not None:
            break
        e, at, limit = v, ds[0], limit - 1
    return e, at


def _mentions(node: ast.AST, name: str) -> int:
    return sum(1 for x in ast.walk(node) if isinstance(x, ast.Name) and x.id == name)


def _loop_form(repo: Repo, cls: Cls, fn: Fn) -> Fn:
    """A behaviour-preserving normal form of a method that builds and returns a list (applied to a copy; the loaded tree is not changed), so that
    the rules see ONE local list filled by displays / appends however the construction was written:
      (1) `x = [E for v in R]` (statement of the function body, one generator, v used nowhere else)   ->  `x = []; for v in R: x.append(E)`
      (2) `return (.., a + b)` where b is such a list — bound once to `[]`, then only appended to in the loop that follows, and `a` is not touched
          from b's binding to the return — ->  the appends go to `a`, and `a` is returned (the elements of a followed by those of b, either way)
      (3) a private single-definition helper called in an appended element is expanded by the front end's inliner (which hoists the call in
          front of the append; it leaves calls inside comprehensions alone, hence (1) first).
    When nothing applies the method is returned as it is."""
    import copy
    from ..inline import inline_helpers
    cnode = copy.deepcopy(cls.node)
    fd = next((x for x in cnode.body if isinstance(x, ast.FunctionDef) and x.name == fn.name), None)
    if fd is None:
        return fn
    changed = False
    # (0) a comprehension operand of the returned concatenation gets a name of its own (loading the other names has no effect, so nothing is re-ordered)
    last = fd.body[-1] if fd.body else None
    cat = last.value.elts[-1] if isinstance(last, ast.Return) and isinstance(last.value, ast.Tuple) and last.value.elts else None
    if isinstance(cat, ast.BinOp) and isinstance(cat.op, ast.Add) and isinstance(cat.left, ast.Name) and isinstance(cat.right, ast.ListComp):
        tmp = "tail__c05"
        if not _mentions(fd, tmp):
            fd.body.insert(len(fd.body) - 1, ast.copy_location(ast.Assign(targets=[ast.Name(id=tmp, ctx=ast.Store())], value=cat.right), cat.right))
            cat.right = ast.copy_location(ast.Name(id=tmp, ctx=ast.Load()), cat.right)
            changed = True
    # (1)
    body: List[ast.stmt] = []
    for st in fd.body:
        v = st.value if isinstance(st, ast.Assign) and len(st.targets) == 1 and isinstance(st.targets[0], ast.Name) else None
        if isinstance(v, ast.ListComp) and len(v.generators) == 1 and not v.generators[0].is_async and isinstance(v.generators[0].target, ast.Name) \
                and _mentions(fd, v.generators[0].target.id) == _mentions(v, v.generators[0].target.id) and not _mentions(v, st.targets[0].id) \
                and not any(isinstance(x, (ast.NamedExpr, ast.Yield, ast.YieldFrom, ast.Await, ast.Lambda, ast.ListComp, ast.SetComp, ast.DictComp, ast.GeneratorExp)) for x in ast.walk(v) if x is not v):
            g = v.generators[0]
            name = st.targets[0].id
            app = ast.Expr(value=ast.Call(func=ast.Attribute(value=ast.Name(id=name, ctx=ast.Load()), attr="append", ctx=ast.Load()), args=[v.elt], keywords=[]))
            inner: List[ast.stmt] = [ast.copy_location(app, v.elt)]
            for c in reversed(g.ifs):
                inner = [ast.copy_location(ast.If(test=c, body=inner, orelse=[]), c)]
            body.append(ast.copy_location(ast.Assign(targets=[st.targets[0]], value=ast.copy_location(ast.List(elts=[], ctx=ast.Load()), v)), st))
            body.append(ast.copy_location(ast.For(target=g.target, iter=g.iter, body=inner, orelse=[]), v))
            for x in ast.walk(g.target):
                if isinstance(x, ast.Name):
                    x.ctx = ast.Store()
            changed = True
        else:
            body.append(st)
    fd.body = body
    # (2)
    last = fd.body[-1] if fd.body else None
    cat = last.value.elts[-1] if isinstance(last, ast.Return) and isinstance(last.value, ast.Tuple) and last.value.elts else None
    if isinstance(cat, ast.BinOp) and isinstance(cat.op, ast.Add) and isinstance(cat.left, ast.Name) and isinstance(cat.right, ast.Name) and cat.left.id != cat.right.id:
        a, b = cat.left.id, cat.right.id
        binds = [i for i, st in enumerate(fd.body) if isinstance(st, ast.Assign) and len(st.targets) == 1 and isinstance(st.targets[0], ast.Name) and st.targets[0].id == b
                 and isinstance(st.value, ast.List) and not st.value.elts]
        if len(binds) == 1 and binds[0] + 1 < len(fd.body) and isinstance(fd.body[binds[0] + 1], ast.For):
            i = binds[0]
            loop = fd.body[i + 1]
            apps = [x for x in ast.walk(loop) if isinstance(x, ast.Expr) and isinstance(x.value, ast.Call) and isinstance(x.value.func, ast.Attribute) and x.value.func.attr == "append"
                    and isinstance(x.value.func.value, ast.Name) and x.value.func.value.id == b and len(x.value.args) == 1 and not x.value.keywords
                    and not _mentions(x.value.args[0], b)]
            # b: its binding, its appends in the loop, the concatenation — nothing else; a: not mentioned from b's binding on, except in the concatenation
            if _mentions(fd, b) == 2 + len(apps) and apps and sum(_mentions(st, a) for st in fd.body[i:]) == 1 and not loop.orelse:
                for x in apps:
                    x.value.func.value.id = a
                last.value.elts[-1] = cat.left
                del fd.body[i]
                changed = True
    if not changed:
        return fn
    # (3)
    ast.fix_missing_locations(cnode)
    inline_helpers(ast.Module(body=[cnode], type_ignores=[]), {k: 1 for k in repo.unique_defs})
    ast.fix_missing_locations(cnode)
    return Fn(fn.name, fn.qualname, fd, fn.mod, fn.cls)


def _is_neg_window(cfg: CFG, e: Optional[ast.AST], at: Optional[Node], depth: int = 0) -> bool:
    """e is -self.eval_loop: written out, or through single-definition temporaries (`w = self.eval_loop; x[-w:]`, `start = -self.eval_loop; x[start:]`);
    the attribute is read before or inside the collection of the scores, which does not assign it."""
    if e is None or depth > 4:
        return False
    if isinstance(e, ast.Name):
        v, vn = _resolve(cfg, e, at)
        return not isinstance(v, ast.Name) and _is_neg_window(cfg, v, vn, depth + 1)
    if isinstance(e, ast.UnaryOp) and isinstance(e.op, ast.USub):
        w, _ = _resolve(cfg, e.operand, at)
        stores = [n for n in cfg.live_nodes() if n.kind != "entry" and any(k in ("self.eval_loop", "self") for k, _ in cfg.defs_at(n))]
        return dotted(w) == "self.eval_loop" and not stores
    return False


def _enclosing_loops(cfg: CFG, n: Node) -> List[Node]:
    """Headers of the loops whose body contains node n, outermost first."""
    out = []
    for h in cfg.live_nodes():
        if (h.kind == "for" or (h.kind == "test" and isinstance(h.stmt, ast.While))) and h is not n and n.stmt is not None \
                and any(x is n.stmt for b in h.stmt.body for x in ast.walk(b)):
            out.append(h)
    out.sort(key=lambda h: sum(1 for _ in ast.walk(h.stmt)), reverse=True)
    return out


class _Sym:
    """Integer expressions of select() as polynomials: (a) evaluated on one arm of the elitism switch — the control-flow graph is cut at every test
    of the switch, so a definition reaches a use only along paths of that arm — and (b) evaluated in iteration k of the tournament loop.
    What cannot be interpreted becomes an opaque atom (and then equals nothing it is compared with)."""

    def __init__(self, cfg: CFG, lb, loop: Node):
        self.cfg, self.lb, self.L = cfg, lb, loop
        self._in = {id(x) for b in loop.stmt.body for x in ast.walk(b)}
        self._rd: Dict[bool, Dict[int, Dict[str, Set[int]]]] = {}
        self.switch_stores = [n for n in cfg.live_nodes() if any(k in ("self.elitism", "self") for k, _ in cfg.defs_at(n)) and n.kind != "entry"]
        # range(n) / range(lo, hi) / range(lo, hi, 1) of a for loop with a plain loop variable
        self.rng: Optional[Tuple[Optional[ast.AST], ast.AST]] = None
        it = loop.ast.iter if loop.kind == "for" else None
        if isinstance(it, ast.Call) and call_name(it) == "range" and not it.keywords and 1 <= len(it.args) <= 3 and isinstance(loop.ast.target, ast.Name) \
                and not any(isinstance(a, ast.Starred) for a in it.args) and (len(it.args) < 3 or const_value(it.args[2]) == 1) and not loop.ast.orelse:
            self.rng = (None, it.args[0]) if len(it.args) == 1 else (it.args[0], it.args[1])

    def in_loop(self, n: Node) -> bool:
        return n is not self.L and n.stmt is not None and id(n.stmt) in self._in

    def once_per_iteration(self, n: Node) -> bool:
        """n runs exactly once in every iteration: it is on every path through the body and under no test inside the loop."""
        first = min((x for x in self.cfg.live_nodes() if x.stmt is self.L.stmt.body[0]), key=lambda x: x.id, default=None)  # the node the body starts with
        return self.in_loop(n) and first is not None and self.cfg.postdominates(n, first) and not [t for _, _, t in self.cfg.guards_at(n) if self.in_loop(t)] \
            and _enclosing_loops(self.cfg, n) == [self.L]

    # ---- the elitism switch
    def is_switch(self, test: ast.AST, at: Optional[Node]) -> Optional[bool]:
        """test is the elitism switch (looked up through temporaries): the outcome of `test` that means elitism is on; None for any other test."""
        pol = True
        while isinstance(test, ast.UnaryOp) and isinstance(test.op, ast.Not):
            test, pol = test.operand, not pol
        test, _ = _resolve(self.cfg, test, at)
        while isinstance(test, ast.UnaryOp) and isinstance(test.op, ast.Not):
            test, pol = test.operand, not pol
        return pol if dotted(test) == "self.elitism" else None

    def _succ(self, n: Node, arm: bool) -> List[Node]:
        p = self.is_switch(n.ast, n) if n.kind == "test" and isinstance(n.stmt, ast.If) and n.true_succ is not None else None
        if p is None:
            return n.succ
        if arm == p:
            return [n.true_succ]
        return [n.false_succ] if n.false_succ is not None else [x for x in n.succ if x is not n.true_succ and x.id not in n.exc_succ]

    def reaching(self, arm: bool) -> Dict[int, Dict[str, Set[int]]]:
        """Reaching definitions (node id -> name -> ids of defining nodes) along the paths of one arm; nodes the arm does not reach have no entry."""
        if arm not in self._rd:
            IN: Dict[int, Dict[str, Set[int]]] = {self.cfg.entry.id: {}}
            work = [self.cfg.entry]
            while work:
                n = work.pop()
                out = {k: set(v) for k, v in IN[n.id].items()}
                for k, strong in self.cfg.defs_at(n):
                    if strong:
                        out[k] = {n.id}
                    else:
                        out.setdefault(k, set()).add(n.id)
                for x in self._succ(n, arm):
                    cur = IN.get(x.id)
                    if cur is None:
                        IN[x.id] = {k: set(v) for k, v in out.items()}
                        work.append(x)
                    else:
                        grew = False
                        for k, v in out.items():
                            if not v <= cur.get(k, set()):
                                cur.setdefault(k, set()).update(v)
                                grew = True
                        if grew:
                            work.append(x)
            self._rd[arm] = IN
        return self._rd[arm]

    # ---- (a) counting on one arm
    def times(self, m, arm: bool) -> Optional[Poly]:
        """How often member m is added on the arm (None: it depends on something else than the switch)."""
        if m.node.id not in self.reaching(arm):
            return Poly.const(0)
        for t, pol in m.conds:
            p = self.is_switch(t, m.node)
            if p is None:
                return None
            if (p == pol) != arm:
                return Poly.const(0)
        if [g for g, _, t in self.cfg.guards_at(m.node) if self.is_switch(g, t) is None]:
            return None
        if self.in_loop(m.node):
            return self.trips(arm)
        return Poly.const(1) if not _enclosing_loops(self.cfg, m.node) else None

    def trips(self, arm: bool) -> Optional[Poly]:
        if self.rng is None or self.L.id not in self.reaching(arm):
            return None
        lo = self.count(self.rng[0], self.L, arm) if self.rng[0] is not None else Poly.const(0)
        hi = self.count(self.rng[1], self.L, arm)
        return hi - lo if lo is not None and hi is not None else None

    def total(self, arm: bool) -> Optional[Poly]:
        tot = Poly.const(0)
        for m in self.lb.members:
            c = self.times(m, arm)
            if c is None:
                return None
            tot = tot + c
        return tot

    def length(self, at: Node, arm: bool) -> Optional[Poly]:
        """len(<the list>) at node `at` on the arm: the members added by the definitions / appends that reach it."""
        rd = self.reaching(arm).get(at.id, {}).get(self.lb.name, set())
        if at is self.L:
            rd = {i for i in rd if not self.in_loop(self.cfg.nodes[i])}
        if not any(d.id in rd for d in self.lb.defs):
            return None
        tot = Poly.const(0)
        for m in self.lb.members:
            if m.node.id in rd:
                c = self.times(m, arm) if not _enclosing_loops(self.cfg, m.node) else None
                if c is None:
                    return None
                tot = tot + c
        return tot

    def count(self, e: ast.AST, at: Node, arm: bool, depth: int = 0) -> Optional[Poly]:
        """The value of integer expression e at node `at` on the arm (at the loop header: on entry to the loop)."""
        if depth > 12:
            return None
        if isinstance(e, ast.Constant) and isinstance(e.value, int) and not isinstance(e.value, bool):
            return Poly.const(e.value)
        if isinstance(e, ast.Name):
            ids = self.reaching(arm).get(at.id, {}).get(e.id, set())
            ds = [self.cfg.nodes[i] for i in sorted(ids) if not (at is self.L and self.in_loop(self.cfg.nodes[i]))]
            vals: List[Optional[Poly]] = []
            for d in ds:
                v = self.cfg.value_of_def(d, e.id) if d.kind == "stmt" else None
                if v is not None and getattr(v, "_unpack_len", None) is None:
                    vals.append(self.count(v, d, arm, depth + 1))
                elif d.kind == "stmt" and isinstance(d.ast, ast.AugAssign) and isinstance(d.ast.target, ast.Name) and isinstance(d.ast.op, (ast.Add, ast.Sub)) and not self.in_loop(d):
                    prev, rhs = self.count(e, d, arm, depth + 1), self.count(d.ast.value, d, arm, depth + 1)
                    vals.append(None if prev is None or rhs is None else (prev + rhs if isinstance(d.ast.op, ast.Add) else prev - rhs))
                else:
                    vals.append(Poly.atom(f"expr:{e.id}@{d.lineno}"))
            if not vals or any(v is None or v != vals[0] for v in vals):
                return None
            return vals[0]
        if isinstance(e, ast.Attribute) and dotted(e).startswith("self.") and dotted(e).count(".") == 1 \
                and not [n for n in self.cfg.live_nodes() if n.kind != "entry" and any(k in (dotted(e), "self") for k, _ in self.cfg.defs_at(n))]:
            return Poly.atom("attr:" + dotted(e))  # a configuration attribute that select() does not assign
        if isinstance(e, ast.UnaryOp) and isinstance(e.op, (ast.USub, ast.UAdd)):
            o = self.count(e.operand, at, arm, depth + 1)
            return None if o is None else (-o if isinstance(e.op, ast.USub) else o)
        if isinstance(e, ast.BinOp) and isinstance(e.op, (ast.Add, ast.Sub, ast.Mult)):
            l, r = self.count(e.left, at, arm, depth + 1), self.count(e.right, at, arm, depth + 1)
            if l is None or r is None:
                return None
            return l + r if isinstance(e.op, ast.Add) else (l - r if isinstance(e.op, ast.Sub) else l * r)
        if isinstance(e, ast.IfExp):
            p = self.is_switch(e.test, at)
            if p is None:
                a, b = self.count(e.body, at, arm, depth + 1), self.count(e.orelse, at, arm, depth + 1)
                return a if a is not None and a == b else None
            return self.count(e.body if p == arm else e.orelse, at, arm, depth + 1)
        if isinstance(e, ast.Call) and call_name(e) == "int" and len(e.args) == 1 and not e.keywords:
            return self.count(e.args[0], at, arm, depth + 1)
        if isinstance(e, ast.Call) and call_name(e) == "len" and len(e.args) == 1 and isinstance(e.args[0], ast.Name) and e.args[0].id == self.lb.name:
            return self.length(at, arm)
        return Poly.atom("expr:" + " ".join(ast.unparse(e).split()))

    # ---- (b) the value in iteration k of the loop (k = 0, 1, ..)
    def _before_loop(self, name: str, outs: List[Node], depth: int) -> Poly:
        if outs and _elitism_pos(outs, name) == 2:
            return Poly.atom("elitism:2")  # the maximum existing index, third element of what _elitism returns
        vals = []
        for d in outs:
            v = self.cfg.value_of_def(d, name) if d.kind == "stmt" else None
            if v is None or getattr(v, "_unpack_len", None) is not None:
                return Poly.atom(f"expr:{name}@{d.lineno}")
            vals.append(self.index(v, d, depth + 1))
        if not vals or any(v != vals[0] for v in vals):
            return Poly.atom(f"expr:{name}")
        return vals[0]

    def _step(self, u: Node, name: str) -> Optional[Poly]:
        """constant c when node u is `name += c` / `name = name + c` / `name = c + name`."""
        s = u.ast
        if u.kind != "stmt":
            return None
        if isinstance(s, ast.AugAssign) and isinstance(s.target, ast.Name) and s.target.id == name and isinstance(s.op, (ast.Add, ast.Sub)) and isinstance(const_value(s.value), int):
            return Poly.const(const_value(s.value) if isinstance(s.op, ast.Add) else -const_value(s.value))
        if isinstance(s, ast.Assign) and len(s.targets) == 1 and isinstance(s.targets[0], ast.Name) and s.targets[0].id == name and isinstance(s.value, ast.BinOp) \
                and isinstance(s.value.op, (ast.Add, ast.Sub)):
            l, r = s.value.left, s.value.right
            if isinstance(l, ast.Name) and l.id == name and isinstance(const_value(r), int):
                return Poly.const(const_value(r) if isinstance(s.value.op, ast.Add) else -const_value(r))
            if isinstance(r, ast.Name) and r.id == name and isinstance(const_value(l), int) and isinstance(s.value.op, ast.Add):
                return Poly.const(const_value(l))
        return None

    def index(self, e: ast.AST, at: Node, depth: int = 0) -> Poly:
        opaque = Poly.atom("expr:" + " ".join(ast.unparse(e).split()))
        if depth > 12:
            return opaque
        if isinstance(e, ast.Constant) and isinstance(e.value, int) and not isinstance(e.value, bool):
            return Poly.const(e.value)
        if isinstance(e, ast.Name):
            ds = self.cfg.defs_reaching(at, e.id)
            if self.L in ds:
                # the loop variable of range(lo, ..): lo + k
                if ds == [self.L] and self.rng is not None and self.L.ast.target.id == e.id and self.in_loop(at):
                    lo = self.index(self.rng[0], self.L, depth + 1) if self.rng[0] is not None else Poly.const(0)
                    return lo + Poly.atom("k")
                return opaque
            ins = [d for d in ds if self.in_loop(d)] if at is not self.L else []
            outs = [d for d in ds if not self.in_loop(d)]
            if not ins:
                return self._before_loop(e.id, outs, depth)
            if len(ins) == 1:
                u = ins[0]
                c = self._step(u, e.id)
                if c is None:
                    v = self.cfg.value_of_def(u, e.id)
                    if not outs and v is not None and getattr(v, "_unpack_len", None) is None:
                        return self.index(v, u, depth + 1)  # a temporary of this iteration
                    return opaque
                if self.once_per_iteration(u):
                    start = self._before_loop(e.id, [d for d in self.cfg.defs_reaching(self.L, e.id) if not self.in_loop(d) and d is not self.L], depth)
                    # only the step reaches the use: it ran earlier in this iteration (k + 1 steps so far); the value from before the loop reaches it too: k steps so far
                    return start + c * (Poly.atom("k") + Poly.const(1)) if not outs else start + c * Poly.atom("k")
            return opaque
        if isinstance(e, ast.UnaryOp) and isinstance(e.op, (ast.USub, ast.UAdd)):
            o = self.index(e.operand, at, depth + 1)
            return -o if isinstance(e.op, ast.USub) else o
        if isinstance(e, ast.BinOp) and isinstance(e.op, (ast.Add, ast.Sub, ast.Mult)):
            l, r = self.index(e.left, at, depth + 1), self.index(e.right, at, depth + 1)
            return l + r if isinstance(e.op, ast.Add) else (l - r if isinstance(e.op, ast.Sub) else l * r)
        if isinstance(e, ast.Call) and call_name(e) == "int" and len(e.args) == 1 and not e.keywords:
            return self.index(e.args[0], at, depth + 1)
        return opaque


def _elitism_pos(defs: List[Node], name: str) -> Optional[int]:
    """Position in the tuple returned by self._elitism(population) that the definitions `defs` bind to `name` (None when one of them is anything else)."""
    pos = set()
    for d in defs:
        s = d.ast
        if not (d.kind == "stmt" and isinstance(s, ast.Assign) and len(s.targets) == 1 and isinstance(s.targets[0], ast.Tuple)
                and isinstance(s.value, ast.Call) and call_name(s.value) == "self._elitism"
                and [dotted(a) for a in s.value.args] == ["population"] and not s.value.keywords):
            return None
        hit = [i for i, t in enumerate(s.targets[0].elts) if dotted(t) == name]
        if len(hit) != 1:
            return None
        pos.add(hit[0])
    return pos.pop() if len(pos) == 1 else None


def _from_elitism(cfg: CFG, at: Node, e: ast.AST) -> Optional[int]:
    """Position in the tuple returned by self._elitism(population) that the local `e` holds at node `at`
    (None when e is not a local bound only by unpacking that call)."""
    if not isinstance(e, ast.Name) or at is None:
        return None
    return _elitism_pos(cfg.defs_reaching(at, e.id), e.id)


_TF = "agilerl/hpo/tournament.py"
# select() as written today: the bookkeeping before the loop, and the tournament loop
_HEAD = ("        new_population = []\n        if self.elitism:  # keep top agent in population\n            new_population.append(elite.clone(wrap=False))\n"
         "            selection_size = self.population_size - 1\n        else:\n            selection_size = self.population_size\n")
_LOOP = ("        for idx in range(selection_size):\n            max_id += 1\n            actor_parent = population[self._tournament(rank)]\n"
         "            new_individual = actor_parent.clone(max_id, wrap=False)\n            new_population.append(new_individual)\n")
VARIANTS = [
    ("fitness-vector-as-numpy-array-ok", _TF, "        last_fitness = [np.mean(indi.fitness[-self.eval_loop :]) for indi in population]", "        last_fitness = np.array([np.mean(indi.fitness[-self.eval_loop :]) for indi in population])", "silent", None),
    ("fitness-vector-fromiter-whole-ok", _TF, "        last_fitness = [np.mean(indi.fitness[-self.eval_loop :]) for indi in population]", "        last_fitness = np.fromiter((np.mean(indi.fitness[-self.eval_loop :]) for indi in population), dtype=np.float64)", "silent", None),
    ("fitness-vector-fromiter-count-prefix", _TF, "        last_fitness = [np.mean(indi.fitness[-self.eval_loop :]) for indi in population]", "        last_fitness = np.fromiter((np.mean(indi.fitness[-self.eval_loop :]) for indi in population), dtype=np.float64, count=self.population_size)", "fire", "C05.1"),

    ("elite-worst", _TF, "model = population[int(np.argsort(rank)[-1])]", "model = population[int(np.argsort(rank)[0])]", "fire", "C05.1"),
    ("wrapper-clone-drops-index", "agilerl/wrappers/agent.py", "agent_clone = self.agent.clone(index, wrap)", "agent_clone = self.agent.clone(wrap=wrap)", "fire", "C05.4"),
    ("wrapper-clone-index-by-keyword-ok", "agilerl/wrappers/agent.py", "agent_clone = self.agent.clone(index, wrap)", "agent_clone = self.agent.clone(wrap=wrap, index=index)", "silent", None),
    ("clone-index-before-copy-attributes", "agilerl/algorithms/core/base.py", "        clone = EvolvableAlgorithm.copy_attributes(self, clone)\n        if index is not None:\n            clone.index = index\n",
     "        if index is not None:\n            clone.index = index\n        clone = EvolvableAlgorithm.copy_attributes(self, clone)\n", "fire", "C05.4"),
    ("clone-index-only-when-truthy", "agilerl/algorithms/core/base.py", "        if index is not None:\n            clone.index = index\n", "        if index:\n            clone.index = index\n", "fire", "C05.4"),
    ("elite-argmax-ok", _TF, "model = population[int(np.argsort(rank)[-1])]", "model = population[int(np.argmax(last_fitness))]", "silent", None),
    ("elite-argmin", _TF, "model = population[int(np.argsort(rank)[-1])]", "model = population[int(np.argmin(last_fitness))]", "fire", "C05.1"),
    ("elite-neg-argsort-ok", _TF, "model = population[int(np.argsort(rank)[-1])]", "model = population[int(np.argsort(-rank)[0])]", "silent", None),
    ("mean-of-prefix", _TF, "np.mean(indi.fitness[-self.eval_loop :])", "np.mean(indi.fitness[: self.eval_loop])", "fire", "C05.1"),
    ("mean-of-all", _TF, "np.mean(indi.fitness[-self.eval_loop :])", "np.mean(indi.fitness)", "fire", "C05.1"),
    ("loop-form-ok", _TF, "        last_fitness = [np.mean(indi.fitness[-self.eval_loop :]) for indi in population]\n",
     "        last_fitness = []\n        for indi in population:\n            recent = indi.fitness[-self.eval_loop :]\n            last_fitness.append(np.mean(recent))\n", "silent", None),
    ("loop-form-len-minus", _TF, "        last_fitness = [np.mean(indi.fitness[-self.eval_loop :]) for indi in population]\n",
     "        last_fitness = []\n        for indi in population:\n            start = len(indi.fitness) - self.eval_loop\n            last_fitness.append(np.mean(indi.fitness[start:]))\n", "fire", "C05.1"),
    ("last-score-only", _TF, "np.mean(indi.fitness[-self.eval_loop :])", "indi.fitness[-1]", "fire", "C05.1"),
    ("rank-is-permutation", _TF, "rank = np.argsort(last_fitness).argsort()", "rank = np.argsort(last_fitness)", "fire", "C05"),
    ("tournament-argmin", _TF, "winner = selection[np.argmax(selection_values)]", "winner = selection[np.argmin(selection_values)]", "fire", "C05.2"),
    ("tournament-position-not-index", _TF, "winner = selection[np.argmax(selection_values)]", "winner = np.argmax(selection_values)", "fire", "C05.2"),
    ("tournament-range-short", _TF, "np.random.randint(0, len(fitness_values), size=self.tournament_size)", "np.random.randint(0, len(fitness_values) - 1, size=self.tournament_size)", "fire", "C05.2"),
    ("tournament-size-one", _TF, "np.random.randint(0, len(fitness_values), size=self.tournament_size)", "np.random.randint(0, len(fitness_values), size=1)", "fire", "C05.2"),
    ("size-no-elite-minus-one", _TF, "        else:\n            selection_size = self.population_size\n", "        else:\n            selection_size = self.population_size - 1\n", "fire", "C05.3"),
    ("size-elite-not-reduced", _TF, "            selection_size = self.population_size - 1\n", "            selection_size = self.population_size\n", "fire", "C05.3"),
    ("max-id-after-use", _TF, "            max_id += 1\n            actor_parent = population[self._tournament(rank)]\n            new_individual = actor_parent.clone(max_id, wrap=False)\n",
     "            actor_parent = population[self._tournament(rank)]\n            new_individual = actor_parent.clone(max_id, wrap=False)\n            max_id += 1\n", "fire", "C05.4"),
    ("max-id-from-first", _TF, "max_id = max([ind.index for ind in population])", "max_id = population[-1].index", "fire", "C05.4"),
    ("elite-appended-last", _TF, "        new_population = []\n        if self.elitism:  # keep top agent in population\n            new_population.append(elite.clone(wrap=False))\n            selection_size = self.population_size - 1\n        else:\n            selection_size = self.population_size\n",
     "        new_population = []\n        selection_size = self.population_size - 1 if self.elitism else self.population_size\n", "fire", "C05"),
    ("parent-from-new-pop", _TF, "actor_parent = population[self._tournament(rank)]", "actor_parent = population[self._tournament(rank) % len(population)]", "fire", "C05.6"),
    ("tournament-once", _TF, "        for idx in range(selection_size):\n            max_id += 1\n            actor_parent = population[self._tournament(rank)]\n",
     "        winner = self._tournament(rank)\n        for idx in range(selection_size):\n            max_id += 1\n            actor_parent = population[winner]\n", "fire", "C05.6"),
    # ---- one obligation, many spellings: the same construction of the new population written differently (silent) and its broken twins (fire)
    ("select-conditional-display-and-loop-index-ok", _TF, _HEAD + "\n        # select parents of next gen using tournament selection\n" + _LOOP,
     "        new_population = [elite.clone(wrap=False)] if self.elitism else []\n        selection_size = self.population_size - len(new_population)\n"
     "        for offset in range(1, selection_size + 1):\n            winner = self._tournament(rank)\n            child = population[winner].clone(max_id + offset, wrap=False)\n"
     "            new_population.append(child)\n", "silent", None),
    ("elite-in-conditional-display-ok", _TF, _HEAD, "        new_population = [elite.clone(wrap=False)] if self.elitism else []\n        selection_size = self.population_size - len(new_population)\n", "silent", None),
    ("elite-in-conditional-display-negated-ok", _TF, _HEAD, "        new_population = [] if not self.elitism else [elite.clone(wrap=False)]\n        selection_size = self.population_size - len(new_population)\n", "silent", None),
    ("elite-display-per-branch-ok", _TF, _HEAD, "        if self.elitism:\n            new_population = [elite.clone(wrap=False)]\n        else:\n            new_population = list()\n"
     "        selection_size = self.population_size - len(new_population)\n", "silent", None),
    ("size-len-after-append-ok", _TF, _HEAD, "        new_population = []\n        if self.elitism:\n            new_population.append(elite.clone(wrap=False))\n"
     "        selection_size = self.population_size - len(new_population)\n", "silent", None),
    ("size-decrement-ok", _TF, _HEAD, "        new_population = []\n        selection_size = self.population_size\n        if self.elitism:\n            new_population.append(elite.clone(wrap=False))\n"
     "            selection_size -= 1\n", "silent", None),
    ("size-conditional-expression-ok", _TF, _HEAD, "        new_population = []\n        if self.elitism:\n            new_population.append(elite.clone(wrap=False))\n"
     "        selection_size = self.population_size - (1 if self.elitism else 0)\n", "silent", None),
    ("elite-through-temporaries-ok", _TF, "            new_population.append(elite.clone(wrap=False))\n", "            best = elite\n            kept = best.clone(wrap=False)\n            new_population.append(kept)\n", "silent", None),
    ("switch-through-temporary-ok", _TF, "        if self.elitism:  # keep top agent in population\n", "        keep_best = self.elitism\n        if keep_best:\n", "silent", None),
    ("index-base-plus-loop-index-from-one-ok", _TF, _LOOP, "        for idx in range(1, selection_size + 1):\n            actor_parent = population[self._tournament(rank)]\n"
     "            new_individual = actor_parent.clone(max_id + idx, wrap=False)\n            new_population.append(new_individual)\n", "silent", None),
    ("index-base-plus-loop-index-plus-one-ok", _TF, _LOOP, "        for idx in range(selection_size):\n            actor_parent = population[self._tournament(rank)]\n"
     "            new_individual = actor_parent.clone(idx + 1 + max_id, wrap=False)\n            new_population.append(new_individual)\n", "silent", None),
    ("index-is-loop-variable-above-max-ok", _TF, _LOOP, "        for new_id in range(max_id + 1, max_id + 1 + selection_size):\n            actor_parent = population[self._tournament(rank)]\n"
     "            new_individual = actor_parent.clone(new_id, wrap=False)\n            new_population.append(new_individual)\n", "silent", None),
    ("index-counter-plain-assignment-ok", _TF, "            max_id += 1\n", "            max_id = max_id + 1\n", "silent", None),
    ("index-own-counter-ok", _TF, _LOOP, "        next_id = max_id\n        for idx in range(selection_size):\n            next_id = 1 + next_id\n            actor_parent = population[self._tournament(rank)]\n"
     "            new_individual = actor_parent.clone(index=next_id, wrap=False)\n            new_population.append(new_individual)\n", "silent", None),
    ("winner-through-temporary-ok", _TF, "            actor_parent = population[self._tournament(rank)]\n", "            winner = self._tournament(rank)\n            actor_parent = population[winner]\n", "silent", None),
    ("member-clone-inline-ok", _TF, "            new_individual = actor_parent.clone(max_id, wrap=False)\n            new_population.append(new_individual)\n",
     "            new_population.append(actor_parent.clone(max_id, wrap=False))\n", "silent", None),
    ("max-id-generator-ok", _TF, "max_id = max([ind.index for ind in population])", "max_id = max(ind.index for ind in population)", "silent", None),
    ("elite-position-temporary-ok", _TF, "        model = population[int(np.argsort(rank)[-1])]\n        elite = model.clone()\n",
     "        best_position = int(np.argsort(rank)[-1])\n        elite = population[best_position].clone()\n", "silent", None),
    ("index-base-plus-loop-index-from-zero", _TF, _LOOP, "        for idx in range(selection_size):\n            actor_parent = population[self._tournament(rank)]\n"
     "            new_individual = actor_parent.clone(max_id + idx, wrap=False)\n            new_population.append(new_individual)\n", "fire", "C05.4"),
    ("index-loop-from-one-count-short", _TF, _LOOP, "        for idx in range(1, selection_size):\n            actor_parent = population[self._tournament(rank)]\n"
     "            new_individual = actor_parent.clone(max_id + idx, wrap=False)\n            new_population.append(new_individual)\n", "fire", "C05.3"),
    ("index-same-for-all", _TF, "            max_id += 1\n            actor_parent = population[self._tournament(rank)]\n            new_individual = actor_parent.clone(max_id, wrap=False)\n",
     "            actor_parent = population[self._tournament(rank)]\n            new_individual = actor_parent.clone(max_id + 1, wrap=False)\n", "fire", "C05.4"),
    ("index-counter-stepped-in-branch", _TF, "            max_id += 1\n", "            if idx % 2 == 0:\n                max_id += 1\n", "fire", "C05.4"),
    ("index-counter-from-len-population", _TF, _LOOP, "        next_id = len(population)\n        for idx in range(selection_size):\n            next_id += 1\n            actor_parent = population[self._tournament(rank)]\n"
     "            new_individual = actor_parent.clone(next_id, wrap=False)\n            new_population.append(new_individual)\n", "fire", "C05.4"),
    ("index-counts-down", _TF, "            max_id += 1\n", "            max_id -= 1\n", "fire", "C05.4"),
    ("size-from-len-population", _TF, _HEAD, "        new_population = [elite.clone(wrap=False)] if self.elitism else []\n        selection_size = len(population) - len(new_population)\n", "fire", "C05.3"),
    ("size-display-not-subtracted", _TF, _HEAD, "        new_population = [elite.clone(wrap=False)] if self.elitism else []\n        selection_size = self.population_size\n", "fire", "C05.3"),
    ("size-decrement-on-wrong-arm", _TF, _HEAD, "        new_population = []\n        selection_size = self.population_size\n        if self.elitism:\n            new_population.append(elite.clone(wrap=False))\n"
     "        else:\n            selection_size -= 1\n", "fire", "C05.3"),
    ("size-len-before-append", _TF, _HEAD, "        new_population = []\n        selection_size = self.population_size - len(new_population)\n        if self.elitism:\n            new_population.append(elite.clone(wrap=False))\n",
     "fire", "C05.3"),
    ("loop-left-early", _TF, "            new_population.append(new_individual)\n", "            new_population.append(new_individual)\n            if len(new_population) >= len(population):\n                break\n", "fire", "C05.3"),
    ("elite-display-on-wrong-arm", _TF, _HEAD, "        new_population = [] if self.elitism else [elite.clone(wrap=False)]\n        selection_size = self.population_size - len(new_population)\n", "fire", "C05.5"),
    ("elite-display-second", _TF, _HEAD, "        new_population = [population[0].clone(wrap=False), elite.clone(wrap=False)] if self.elitism else []\n        selection_size = self.population_size - len(new_population)\n", "fire", "C05"),
    ("elite-appended-after-loop", _TF, _HEAD + "\n        # select parents of next gen using tournament selection\n" + _LOOP,
     "        new_population = []\n        selection_size = self.population_size - (1 if self.elitism else 0)\n" + _LOOP + "        if self.elitism:\n            new_population.append(elite.clone(wrap=False))\n", "fire", "C05.5"),
    ("elite-copy-gets-new-index", _TF, _HEAD, "        new_population = [elite.clone(max_id + 1, wrap=False)] if self.elitism else []\n        selection_size = self.population_size - len(new_population)\n", "fire", "C05.5"),
    ("elite-display-not-the-elite", _TF, _HEAD, "        new_population = [population[0].clone(wrap=False)] if self.elitism else []\n        selection_size = self.population_size - len(new_population)\n", "fire", "C05.5"),
    ("old-list-extended", _TF, "        new_population = []\n", "        new_population = population\n", "fire", "C05.3"),
    # ---- round 4: temporaries split / folded, keyword bounds, comprehension + helper + concatenation instead of loop + append
    ("window-through-local-ok", _TF, "        last_fitness = [np.mean(indi.fitness[-self.eval_loop :]) for indi in population]\n",
     "        window = self.eval_loop\n        last_fitness = [np.mean(indi.fitness[-window:]) for indi in population]\n", "silent", None),
    ("window-local-is-another-attribute", _TF, "        last_fitness = [np.mean(indi.fitness[-self.eval_loop :]) for indi in population]\n",
     "        window = self.tournament_size\n        last_fitness = [np.mean(indi.fitness[-window:]) for indi in population]\n", "fire", "C05.1"),
    ("window-local-not-negated", _TF, "        last_fitness = [np.mean(indi.fitness[-self.eval_loop :]) for indi in population]\n",
     "        window = self.eval_loop\n        last_fitness = [np.mean(indi.fitness[window:]) for indi in population]\n", "fire", "C05.1"),
    ("order-split-and-reused-elite-returned-directly-ok", _TF, "        rank = np.argsort(last_fitness).argsort()\n        max_id = max([ind.index for ind in population])\n"
     "        model = population[int(np.argsort(rank)[-1])]\n        elite = model.clone()\n        return elite, rank, max_id\n",
     "        order = np.argsort(last_fitness)\n        rank = order.argsort()\n        max_id = max(ind.index for ind in population)\n"
     "        fittest = population[int(order[-1])]\n        return fittest.clone(), rank, max_id\n", "silent", None),
    ("order-split-first-entry-reused", _TF, "        rank = np.argsort(last_fitness).argsort()\n        max_id = max([ind.index for ind in population])\n"
     "        model = population[int(np.argsort(rank)[-1])]\n        elite = model.clone()\n        return elite, rank, max_id\n",
     "        order = np.argsort(last_fitness)\n        rank = order.argsort()\n        max_id = max(ind.index for ind in population)\n"
     "        fittest = population[int(order[0])]\n        return fittest.clone(), rank, max_id\n", "fire", "C05.1"),
    ("order-split-rank-position-used-as-index", _TF, "        rank = np.argsort(last_fitness).argsort()\n        max_id = max([ind.index for ind in population])\n"
     "        model = population[int(np.argsort(rank)[-1])]\n        elite = model.clone()\n        return elite, rank, max_id\n",
     "        order = np.argsort(last_fitness)\n        rank = order.argsort()\n        max_id = max(ind.index for ind in population)\n"
     "        fittest = population[int(rank[-1])]\n        return fittest.clone(), rank, max_id\n", "fire", "C05.1"),
    ("max-id-folded-into-return-ok", _TF, "        max_id = max([ind.index for ind in population])\n        model = population[int(np.argsort(rank)[-1])]\n        elite = model.clone()\n        return elite, rank, max_id\n",
     "        model = population[int(np.argsort(rank)[-1])]\n        elite = model.clone()\n        return elite, rank, max(ind.index for ind in population)\n", "silent", None),
    ("draw-bounds-by-keyword-through-local-ok", _TF, "        selection = np.random.randint(0, len(fitness_values), size=self.tournament_size)\n",
     "        n_candidates = len(fitness_values)\n        selection = np.random.randint(size=self.tournament_size, high=n_candidates, low=0)\n", "silent", None),
    ("draw-keyword-high-short", _TF, "        selection = np.random.randint(0, len(fitness_values), size=self.tournament_size)\n",
     "        n_candidates = len(fitness_values) - 1\n        selection = np.random.randint(low=0, high=n_candidates, size=self.tournament_size)\n", "fire", "C05.2"),
    ("draw-keyword-low-one", _TF, "        selection = np.random.randint(0, len(fitness_values), size=self.tournament_size)\n",
     "        selection = np.random.randint(low=1, high=len(fitness_values), size=self.tournament_size)\n", "fire", "C05.2"),
    ("draw-only-upper-bound-keyword", _TF, "        selection = np.random.randint(0, len(fitness_values), size=self.tournament_size)\n",
     "        selection = np.random.randint(high=len(fitness_values), size=self.tournament_size)\n", "fire", "C05.2"),
    ("tournament-winner-folded-into-return-ok", _TF, "        selection_values = [fitness_values[i] for i in selection]\n        winner = selection[np.argmax(selection_values)]\n        return winner\n",
     "        return selection[np.argmax([fitness_values[i] for i in selection])]\n", "silent", None),
    ("tournament-winner-folded-argmin", _TF, "        selection_values = [fitness_values[i] for i in selection]\n        winner = selection[np.argmax(selection_values)]\n        return winner\n",
     "        return selection[np.argmin([fitness_values[i] for i in selection])]\n", "fire", "C05.2"),
    ("select-comprehension-helper-concatenation-range-short", _TF, _HEAD + "\n        # select parents of next gen using tournament selection\n" + _LOOP + "\n        return elite, new_population\n",
     # select() with a conditional display, a comprehension over a private per-child helper and a concatenation (same members, same order, same indices);
     # the text is bound HERE, inside VARIANTS, because the front end never inlines a helper whose name occurs in a rule module outside VARIANTS
     (_COMP := ("        survivors = [elite.clone(wrap=False)] if self.elitism else []\n        selection_size = self.population_size - len(survivors)\n"
               "        offspring = [\n            self._offspring(population, rank, index=max_id + offset)\n            for offset in range(1, selection_size + 1)\n        ]\n"
               "        return elite, survivors + offspring\n\n    def _offspring(self, population, rank, index):\n"
               "        parent = population[self._tournament(rank)]\n        return parent.clone(index=index, wrap=False)\n")).replace("range(1, selection_size + 1)", "range(1, selection_size)"), "fire", "C05.3"),
    ("select-comprehension-helper-concatenation-offset-from-zero", _TF, _HEAD + "\n        # select parents of next gen using tournament selection\n" + _LOOP + "\n        return elite, new_population\n",
     _COMP.replace("range(1, selection_size + 1)", "range(selection_size)"), "fire", "C05.4"),
    ("select-comprehension-helper-concatenation-ok", _TF, _HEAD + "\n        # select parents of next gen using tournament selection\n" + _LOOP + "\n        return elite, new_population\n",
     _COMP, "silent", None),
    ("select-comprehension-in-concatenation-ok", _TF, _HEAD + "\n        # select parents of next gen using tournament selection\n" + _LOOP + "\n        return elite, new_population\n",
     "        survivors = [elite.clone(wrap=False)] if self.elitism else []\n        selection_size = self.population_size - len(survivors)\n"
     "        return elite, survivors + [population[self._tournament(rank)].clone(max_id + 1 + k, wrap=False) for k in range(selection_size)]\n", "silent", None),
    ("select-comprehension-filtered", _TF, _HEAD + "\n        # select parents of next gen using tournament selection\n" + _LOOP + "\n        return elite, new_population\n",
     "        survivors = [elite.clone(wrap=False)] if self.elitism else []\n        selection_size = self.population_size - len(survivors)\n"
     "        return elite, survivors + [population[self._tournament(rank)].clone(max_id + 1 + k, wrap=False) for k in range(selection_size) if k % 2]\n", "fire", "C05.3"),
    ("select-concatenation-first-list-reused-after", _TF, _HEAD + "\n        # select parents of next gen using tournament selection\n" + _LOOP + "\n        return elite, new_population\n",
     "        survivors = [elite.clone(wrap=False)] if self.elitism else []\n        selection_size = self.population_size - len(survivors)\n"
     "        offspring = [population[self._tournament(rank)].clone(max_id + 1 + k, wrap=False) for k in range(selection_size)]\n"
     "        survivors = survivors[:0]\n        return elite, survivors + offspring\n", "fire", "C05"),
    ("select-comprehension-helper-same-index-for-all", _TF, _HEAD + "\n        # select parents of next gen using tournament selection\n" + _LOOP + "\n        return elite, new_population\n",
     _COMP.replace("index=max_id + offset", "index=max_id + 1"), "fire", "C05.4"),
    ("select-concatenation-elite-last", _TF, _HEAD + "\n        # select parents of next gen using tournament selection\n" + _LOOP + "\n        return elite, new_population\n",
     _COMP.replace("survivors + offspring", "offspring + survivors"), "fire", "C05"),
    ("select-helper-parent-not-a-winner", _TF, _HEAD + "\n        # select parents of next gen using tournament selection\n" + _LOOP + "\n        return elite, new_population\n",
     _COMP.replace("parent = population[self._tournament(rank)]", "parent = population[index % len(population)]"), "fire", "C05.6"),
    ("winner-rank-not-from-elitism", _TF, "            actor_parent = population[self._tournament(rank)]\n", "            winner = self._tournament(np.arange(len(population)))\n            actor_parent = population[winner]\n", "fire", "C05.6"),
]
