"""C07 — a saved checkpoint restores an equivalent agent."""
from __future__ import annotations

import ast
from typing import Dict, List, Optional, Set, Tuple

from ..cfg import CFG, Node
from ..core import AnalysisError, Cls, Fn, Repo, call_name, calls_in, const_value, dotted, get_kw, last_attr, short, walk_no_nested
from ..registry import ALGOS, extract
from ..report import Check
from ..util import self_attr_stores

BASE = "agilerl.algorithms.core.base"
WR = "agilerl.wrappers.agent"


def _fsuffix(e: ast.AST) -> Optional[str]:
    """suffix of an f-string key f"{x}_suffix" (None when not of that shape)."""
    if isinstance(e, ast.JoinedStr) and len(e.values) == 2 and isinstance(e.values[0], ast.FormattedValue) and isinstance(e.values[1], ast.Constant):
        return str(e.values[1].value)
    return None


def run(ck: Check, repo: Repo) -> None:
    ck.not_decided += ["equality of later learning trajectories of original and restored agent (runtime values)",
                       "that torch.save / dill round-trips every attribute value"]
    ck.trusted += ["nn.Module.state_dict() contains registered parameters and buffers only", "torch Optimizer.state_dict() contains param_groups (with lr) and per-parameter state"]
    ck.rule("C07.1", "writer / reader key agreement: every key either loader reads from a checkpoint is written by get_checkpoint_dict (or the wrapper's "
                     "save_checkpoint), and both loaders read the same per-module and per-optimizer keys")
    ck.rule("C07.2", "order in both loaders: modules are rebuilt from their saved class and init_dict, their state is loaded, optimizers are then built over "
                     "the loaded modules with the agent's learning rate and receive their saved state, and hooks that copy weights run after weights were loaded")
    ck.rule("C07.3", "completeness: every registered network contributes its weights to the checkpoint (no network is parameterless as a whole at save time)")
    ck.rule("C07.4", "alias attributes: an attribute that refers to a sub-module of a registered network is not restored from a pickled copy "
                     "(it is excluded from the saved attributes or re-derived after loading)")
    ck.rule("C07.5", "prefix selection of per-network entries is followed by exact-key reads only")
    ck.rule("C07.6", "what was restored stays restored: OptimizerWrapper.load_state_dict only delegates to the torch optimizers (nothing of the loaded "
                     "param_groups / state is rewritten afterwards), and no registered hook that assigns checkpointed plain attributes runs after the loaders restored them")
    ck.rule("C07.7", "training bookkeeping survives: every attribute an algorithm updates from its own previous value (self.x += ..., self.x[k] += ...) has a name "
                     "that inspect_attributes() does not filter out, so it is part of checkpoints (and of clones)")
    ck.rule("C07.8", "activation changes reach the constructor description: a module's change_activation that replaces or rebuilds its layers also stores the "
                     "new activation in the attributes init_dict reports (`activation`; `output_activation` when the output layer is changed), like its siblings do")
    _restored_stays(ck, repo)
    _bookkeeping(ck, repo)
    _activation_description(ck, repo)
    writer = repo.fn(BASE, "get_checkpoint_dict")
    load = repo.fn(BASE, "EvolvableAlgorithm.load")
    load_cp = repo.fn(BASE, "EvolvableAlgorithm.load_checkpoint")
    w_mod, w_opt, w_top = _written(writer)
    ck.note("keys_written", {"modules": sorted(w_mod), "optimizers": sorted(w_opt), "top": sorted(w_top)})
    ck.floor("C07.1", len(w_mod), 3, "per-module key templates written")
    ck.floor("C07.1", len(w_opt), 6, "per-optimizer key templates written")
    reads = {}
    for fn in (load, load_cp):
        r_mod, r_opt, r_top = _read(fn)
        reads[fn.name] = (r_mod, r_opt, r_top)
        for s in sorted(r_mod):
            ck.ob("C07.1", fn, fn.node, s in w_mod, f"{fn.name}: per-module key `<name>{s}` is written by get_checkpoint_dict", construct=f"{fn.name}: module key {s}")
        for s in sorted(r_opt):
            ck.ob("C07.1", fn, fn.node, s in w_opt, f"{fn.name}: per-optimizer key `<name>{s}` is written by get_checkpoint_dict", construct=f"{fn.name}: optimizer key {s}")
        for s in sorted(r_top):
            ck.ob("C07.1", fn, fn.node, s in w_top or s in ("registry", "wrapper_cls", "wrapper_init_dict", "wrapper_attrs"), f"{fn.name}: top-level key `{s}` is written",
                  construct=f"{fn.name}: top key {s}")
        ck.ob("C07.1", fn, fn.node, {"_cls", "_init_dict", "_state_dict"} <= r_mod, f"{fn.name}: class, init_dict and state dict of every network are read", construct=f"{fn.name}: module keys read")
        ck.ob("C07.1", fn, fn.node, {"_cls", "_state_dict", "_networks", "_lr", "_kwargs", "_multiagent"} <= r_opt, f"{fn.name}: every saved optimizer field is read back",
              construct=f"{fn.name}: optimizer keys read")
    ck.ob("C07.1", load_cp, load_cp.node, reads["load"][0] == reads["load_checkpoint"][0] and reads["load"][1] == reads["load_checkpoint"][1],
          "both loaders read the same per-module and per-optimizer keys", detail=str({k: (sorted(v[0]), sorted(v[1])) for k, v in reads.items()}), construct="loader agreement")
    # writer: covers every evolvable attribute, registry travels with the attributes
    covers, together, fields = _writer_shape(writer)
    ck.ob("C07.1", writer, writer.node, covers, "every evolvable attribute is saved as optimizer or as module (anything else is an error)",
          construct="writer covers evolvable attributes")
    ck.ob("C07.1", writer, writer.node, together,
          "plain attributes (hyper-parameters, counters, registry) and network info are saved together", construct="writer attribute dict")
    ck.ob("C07.1", writer, writer.node, fields,
          "the saved architecture is the module's current init_dict and the saved weights its current state dict", construct="writer module fields")
    _order(ck, repo, load, True)
    _order(ck, repo, load_cp, False)
    _completeness(ck, repo)
    _alias_attrs(ck, repo, writer)
    _prefix(ck, repo, (load, load_cp))
    _wrapper(ck, repo)


# ------------------------------------------------------------------------------------------------ C07.6
def _restored_stays(ck: Check, repo: Repo) -> None:
    ow = repo.fn("agilerl.algorithms.core.wrappers", "OptimizerWrapper.load_state_dict")
    delegated = [c for c in calls_in(ow.node, nested=True) if last_attr(c) == "load_state_dict"]
    ck.floor("C07.6", len(delegated), 2, "delegations to torch optimizers (single- and multi-agent form)", fn=ow)
    bad = []
    for n in ast.walk(ow.node):
        tgt = None
        if isinstance(n, (ast.Assign, ast.AugAssign)):
            t = n.targets[0] if isinstance(n, ast.Assign) else n.target
            if isinstance(t, (ast.Subscript, ast.Attribute)):
                tgt = t
        elif isinstance(n, ast.Call) and call_name(n) == "setattr":
            tgt = n
        elif isinstance(n, ast.Call) and isinstance(n.func, ast.Attribute) and n.func.attr in ("update", "clear", "pop", "setdefault", "add_param_group", "zero_", "fill_", "copy_"):
            tgt = n
        if tgt is not None and not (isinstance(tgt, ast.Attribute) and False):
            bad.append(n)
    for n in bad or [None]:
        ck.ob("C07.6", ow, n if n is not None else ow.node, n is None, "OptimizerWrapper.load_state_dict changes nothing after handing the saved state to the torch optimizer",
              detail=f"`{short(n, 80) if n is not None else ''}` writes into the optimizer after its state was loaded: the restored agent then steps with a value "
                     "(e.g. the learning rate the receiving agent was constructed with) that differs from the checkpoint",
              construct=f"OptimizerWrapper.load_state_dict: write {short(n, 60) if n is not None else 'none'}")
    # hooks that assign plain (checkpointed) attributes
    flt = _name_filter(repo)
    clobber: Dict[str, List[str]] = {}
    for modname, cname in ALGOS:
        reg = extract(repo, modname, cname)
        nets = set(reg.eval_attrs() + reg.shared_attrs()) | {o.name for o in getattr(reg, "opts", [])}
        for h in reg.hooks:
            m = reg.cls.methods.get(h.name)
            if m is None:
                continue
            plain = sorted(a for a in self_attr_stores(m) if not _filtered(a, flt) and a not in nets)
            if plain:
                clobber[f"{cname}.{h.name}"] = plain
    ck.note("hooks_assigning_plain_attributes", clobber)
    for q in ("EvolvableAlgorithm.load", "EvolvableAlgorithm.load_checkpoint"):
        fn = repo.fn(BASE, q)
        cfg = CFG(fn.node)
        # the restore loop: setattr(<agent>, <loop variable>, <checkpoint>[...] / .get(...)) inside a for loop
        restores = []
        for lp in [x for x in walk_no_nested(fn.node) if isinstance(x, ast.For) and isinstance(x.target, ast.Name)]:
            for c in calls_in(lp):
                if call_name(c) == "setattr" and len(c.args) == 3 and dotted(c.args[1]) == lp.target.id and ast.unparse(c.args[2]).endswith((f"[{lp.target.id}]", f".get({lp.target.id})")):
                    restores.append(cfg.node_of(c))
        restores = [r for r in restores if r is not None]
        ck.ob("C07.6", fn, fn.node, bool(restores), f"{fn.name}: plain attributes are restored by a setattr loop", construct=f"{fn.name}: restore loop")
        hook_calls = [c for c in calls_in(fn.node) if last_attr(c) in ("mutation_hook", "_mutation_hook") or (last_attr(c) or "").endswith("_hook")]
        for c in hook_calls:
            hn = cfg.node_of(c)
            after = hn is not None and any(hn.id in cfg.reachable_from(r) and not cfg.dominates(hn, r) for r in restores)
            ck.ob("C07.6", fn, c, not (after and clobber), f"{fn.name}: registered hooks do not run after the plain attributes were restored",
                  detail=f"`{short(c, 40)}` runs after the restore loop; hooks that assign checkpointed attributes: {clobber} — the restored values "
                         "(e.g. the bandits' sigma_inv / theta_0 history) are reset to their initial values",
                  construct=f"{fn.name}: hook call {short(c, 40)} relative to the restore loop")
        ck.floor("C07.6", len(hook_calls), 1, f"{fn.name}: hook calls")


def _name_filter(repo: Repo) -> Dict[str, List[str]]:
    """Prefixes / suffixes that inspect_attributes() filters out, read from its own filter expression."""
    ia = repo.fn(BASE, "EvolvableAlgorithm.inspect_attributes")
    out: Dict[str, List[str]] = {"startswith": [], "endswith": []}
    for c in calls_in(ia.node, nested=True):
        if last_attr(c) in out and c.args and isinstance(c.args[0], ast.Constant) and isinstance(c.args[0].value, str):
            out[last_attr(c)].append(c.args[0].value)
    if not out["startswith"] and not out["endswith"]:
        raise AnalysisError("inspect_attributes: name filter not found")
    return out


def _filtered(name: str, flt: Dict[str, List[str]]) -> bool:
    return any(name.startswith(p) for p in flt["startswith"]) or any(name.endswith(p) for p in flt["endswith"])


# ------------------------------------------------------------------------------------------------ C07.7
def _bookkeeping(ck: Check, repo: Repo) -> None:
    flt = _name_filter(repo)
    n = 0
    seen = set()
    for modname, cname in ALGOS:
        cls = repo.cls(modname, cname)
        for c in repo.mro(cls):
            if not c.mod.name.startswith("agilerl.algorithms"):
                continue
            for m in c.methods.values():
                if m.name == "__init__":
                    continue
                for x in walk_no_nested(m.node):
                    attr = None
                    if isinstance(x, ast.AugAssign):
                        t = x.target
                        while isinstance(t, ast.Subscript):
                            t = t.value
                        if isinstance(t, ast.Attribute) and dotted(t.value) == "self":
                            attr = t.attr
                    elif isinstance(x, ast.Assign) and len(x.targets) == 1 and isinstance(x.targets[0], ast.Attribute) and dotted(x.targets[0].value) == "self" \
                            and isinstance(x.value, ast.BinOp) and any(isinstance(y, ast.Attribute) and dotted(y) == f"self.{x.targets[0].attr}" for y in ast.walk(x.value)):
                        attr = x.targets[0].attr
                    if attr is None or (c.name, m.name, attr) in seen:
                        continue
                    seen.add((c.name, m.name, attr))
                    n += 1
                    ck.ob("C07.7", m, x, not _filtered(attr, flt), f"{c.name}.{m.name}: the running state `self.{attr}` is kept by inspect_attributes (checkpoint, clone)",
                          detail=f"`self.{attr}` is updated from its own previous value but its name is filtered out by inspect_attributes "
                                 f"(prefixes {flt['startswith']}, suffixes {flt['endswith']}): a restored agent starts again from the constructor value "
                                 "(e.g. TD3's delayed policy update happens on the opposite steps)",
                          construct=f"{c.name}.{m.name}: carried state self.{attr}")
    ck.floor("C07.7", n, 5, "attributes updated from their own previous value in algorithm methods")


# ------------------------------------------------------------------------------------------------ C07.8
def _activation_description(ck: Check, repo: Repo) -> None:
    n = 0
    for modname in ("agilerl.modules.mlp", "agilerl.modules.cnn", "agilerl.modules.lstm", "agilerl.modules.multi_input", "agilerl.modules.simba", "agilerl.modules.resnet"):
        mod = repo.mod(modname)
        for cls in mod.classes.values():
            ca = cls.methods.get("change_activation")
            init = cls.methods.get("__init__")
            if ca is None or init is None:
                continue
            body = [st for st in ca.node.body if not (isinstance(st, ast.Expr) and isinstance(st.value, ast.Constant)) and not isinstance(st, ast.Pass)
                    and not (isinstance(st, ast.Return) and st.value is None)]
            if not body:
                continue  # a module without activations of its own: nothing to describe
            params = set(init.named_params)
            act_p = ca.named_params[1] if len(ca.named_params) > 1 else "activation"
            stores = self_attr_stores(ca)
            n += 1
            if "activation" in params:
                ck.ob("C07.8", ca, ca.node, any(dotted(v) == act_p for v in stores.get("activation", [])),
                      f"{cls.name}.change_activation stores the new activation in self.activation (reported by init_dict)", construct=f"{cls.name}.change_activation: activation")
            if "output_activation" in params:
                changes_output = any(a not in ("activation", "output_activation") for a in stores) or any(last_attr(c) == "recreate_network" for c in calls_in(ca.node))
                ok = any(dotted(v) == act_p for v in stores.get("output_activation", []))
                ck.ob("C07.8", ca, ca.node, ok or not changes_output,
                      f"{cls.name}.change_activation stores the new output activation in self.output_activation when it changes the output layer",
                      detail=f"the method replaces / rebuilds layers ({sorted(a for a in stores if a not in ('activation', 'output_activation'))}) but init_dict keeps the "
                             "constructor's output_activation: a clone, a checkpoint or a re-created target built from init_dict ends in the old activation",
                      construct=f"{cls.name}.change_activation: output_activation")
    ck.floor("C07.8", n, 4, "change_activation implementations with a body")


def _written(writer: Fn) -> Tuple[Set[str], Set[str], Set[str]]:
    mod, opt, top = set(), set(), set()
    for c in calls_in(writer.node):
        if last_attr(c) == "update" and c.args and isinstance(c.args[0], ast.Dict):
            which = ast.unparse(c.func.value)
            for k in c.args[0].keys:
                s = _fsuffix(k)
                if s is None:
                    continue
                if "'optimizers'" in which:
                    opt.add(s)
                elif "'modules'" in which:
                    mod.add(s)
    for n in walk_no_nested(writer.node):
        if isinstance(n, ast.Assign) and isinstance(n.targets[0], ast.Subscript) and isinstance(n.targets[0].slice, ast.Constant):
            top.add(str(n.targets[0].slice.value))
        if isinstance(n, (ast.Assign, ast.AnnAssign)) and isinstance(getattr(n, "value", None), ast.Dict):
            for k in n.value.keys:
                if isinstance(k, ast.Constant):
                    top.add(str(k.value))
    return mod, opt, top


def _read(fn: Fn) -> Tuple[Set[str], Set[str], Set[str]]:
    mod, opt, top = set(), set(), set()
    for n in ast.walk(fn.node):
        key = None
        base = None
        if isinstance(n, ast.Subscript) and isinstance(n.ctx, ast.Load):
            key, base = n.slice, n.value
        elif isinstance(n, ast.Call) and last_attr(n) == "get" and n.args:
            key, base = n.args[0], n.func.value
        if key is None:
            continue
        s = _fsuffix(key)
        b = dotted(base)
        if s is not None:
            if b == "net_dict":
                mod.add(s)
            elif b == "opt_dict":
                opt.add(s)
        elif isinstance(key, ast.Constant) and isinstance(key.value, str) and b in ("checkpoint", "network_info"):
            top.add(key.value)
    return mod, opt, top


def _order(ck: Check, repo: Repo, fn: Fn, modules_var: Optional[str]) -> None:
    cfg = CFG(fn.node)
    label = fn.name
    # phases (first node of each)
    build = [cfg.node_of(c) for c in calls_in(fn.node) if (dotted(c.func) in ("module_cls", "mod_cls", "mod")) and any(isinstance(k, ast.keyword) and k.arg is None for k in c.keywords)]
    build = [b for b in build if b is not None]
    hooks = [cfg.node_of(c) for c in calls_in(fn.node) if call_name(c) == "self.mutation_hook"]
    loads = [cfg.node_of(c) for c in calls_in(fn.node) if last_attr(c) == "load_state_dict" and "optimizer" not in ast.unparse(c.func.value)]
    opts = [cfg.node_of(c) for c in calls_in(fn.node) if call_name(c) == "OptimizerWrapper"]
    oload = [cfg.node_of(c) for c in calls_in(fn.node) if last_attr(c) == "load_state_dict" and "optimizer" in ast.unparse(c.func.value)]
    ck.ob("C07.2", fn, fn.node, len(build) >= 2 and len(loads) >= 2 and len(opts) == 1 and len(oload) == 1, f"{label}: has the rebuild / load-state / optimizer / optimizer-state phases",
          detail=f"rebuild sites {len(build)}, module state loads {len(loads)}, optimizer builds {len(opts)}, optimizer state loads {len(oload)}", construct=f"{label}: phases")
    if not (build and loads and opts and oload):
        return

    def before(a: List[Node], b: List[Node]) -> bool:
        return all(y.id in cfg.reachable_from(x) and (x.id not in cfg.reachable_from(y) or cfg.dominates(x, y)) for x in a for y in b)

    ck.ob("C07.2", fn, loads[0].ast, before(build, loads), f"{label}: weights are loaded after the modules were rebuilt from their saved architecture")
    ck.ob("C07.2", fn, opts[0].ast, before(loads, opts), f"{label}: optimizers are created after the weights were loaded")
    ck.ob("C07.2", fn, oload[0].ast, before(opts, oload) and cfg.dominates(opts[0], oload[0]), f"{label}: each optimizer receives its saved state after it was created")
    # module class/init_dict pairing
    for c in calls_in(fn.node):
        if dotted(c.func) in ("module_cls",) and c.keywords and c.keywords[0].arg is None:
            ck.ob("C07.2", fn, c, dotted(c.keywords[0].value) == "init_dict", f"{label}: a network is rebuilt as saved_class(**saved_init_dict)")
    zips = [n for n in ast.walk(fn.node) if isinstance(n, ast.For) and isinstance(n.iter, ast.Call) and call_name(n.iter) == "zip" and "module_cls" in ast.unparse(n.iter)]
    ck.ob("C07.2", fn, zips[0] if zips else fn.node, bool(zips) and [dotted(a) for a in zips[0].iter.args] == ["module_cls", "init_dict"], f"{label}: for network lists class k is paired with init_dict k")
    # optimizer arguments
    oc = [c for c in calls_in(fn.node) if call_name(c) == "OptimizerWrapper"][0]
    n = cfg.node_of(oc)
    lr = get_kw(oc, "lr", 2)
    ok = isinstance(lr, ast.Call) and call_name(lr) == "getattr" and dotted(lr.args[0]) == "self"
    ck.ob("C07.2", fn, oc, ok, f"{label}: the optimizer's learning rate is read from the agent attribute named in the checkpoint", detail=short(lr, 60))
    nets = get_kw(oc, "networks", 1)
    vals = [cfg.value_of_def(d, dotted(nets)) for d in cfg.defs_reaching(n, dotted(nets))] if isinstance(nets, ast.Name) else []
    src = " ".join(ast.unparse(v) for v in vals if v is not None)
    want = f"{modules_var}[" if modules_var else "getattr(self, "
    alts = []
    for v in vals:
        alts += [v.body, v.orelse] if isinstance(v, ast.IfExp) else [v]
    ck.ob("C07.2", fn, oc, bool(alts) and all(a is not None and want in ast.unparse(a) and "opt_networks" in ast.unparse(a) for a in alts),
          f"{label}: the optimizer is built over the freshly loaded networks named in the checkpoint (single- and multi-agent form)", detail=src[:160])
    sd = [c for c in calls_in(fn.node) if last_attr(c) == "load_state_dict" and "optimizer" in ast.unparse(c.func.value)][0]
    ck.ob("C07.2", fn, sd, "_state_dict" in ast.unparse(sd.args[0]) or "state_dict" == dotted(sd.args[0]), f"{label}: the optimizer state loaded is the saved one")
    # attributes restored
    attr_sets = [cfg.node_of(c) for c in calls_in(fn.node) if call_name(c) == "setattr" and dotted(c.args[0]) == "self" and dotted(c.args[1]) == "attribute"]
    attr_sets = [a for a in attr_sets if a is not None]
    ck.ob("C07.2", fn, attr_sets[0].ast if attr_sets else fn.node, len(attr_sets) == 1 and before(oload, attr_sets), f"{label}: plain attributes are restored from the checkpoint (after networks and optimizers)")
    # hooks vs loads
    after = [h for h in hooks if h is not None and all(h.id in cfg.reachable_from(l) for l in loads)]
    weight_hooks = _weight_copying_hooks(repo)
    ck.note("weight_copying_hooks", weight_hooks)
    ck.ob("C07.2", fn, hooks[0].ast if hooks and hooks[0] is not None else fn.node, bool(after) or not weight_hooks,
          f"{label}: hooks that copy weights between networks (target re-sync, encoder tying) run after the saved weights were loaded",
          detail=f"mutation_hook() runs only before load_state_dict; weight-copying hooks registered by algorithms: {weight_hooks}: the copies are taken from the freshly "
                 "constructed (random) networks, so e.g. DQN's target and the tied encoders of DDPG/TD3/PPO critics differ from the restored online networks",
          construct=f"{label}: hook order relative to load_state_dict")


def _weight_copying_hooks(repo: Repo) -> List[str]:
    out = []
    for modname, cname in ALGOS:
        reg = extract(repo, modname, cname)
        for h in reg.hooks:
            m = reg.cls.methods.get(h.name)
            if m is None:
                continue
            src = ast.unparse(m.node)
            callee_src = ""
            for c in calls_in(m.node):
                f = repo.resolve(m.mod, call_name(c))
                if f is not None and hasattr(f, "node"):
                    callee_src += ast.unparse(f.node)
            if "to_module(" in src + callee_src or "load_state_dict(" in src + callee_src:
                out.append(f"{cname}.{h.name}")
    return out


def _completeness(ck: Check, repo: Repo) -> None:
    from .c08 import _paramless_modules
    n = 0
    for modname, cname in ALGOS:
        reg = extract(repo, modname, cname)
        pl = _paramless_modules(repo, reg.cls)
        for attr in reg.eval_attrs() + reg.shared_attrs():
            n += 1
            whole = attr in pl
            ck.ob("C07.3", reg.init, reg.init.node, not whole,
                  f"{cname}.{attr}: its weights are part of its state_dict() and hence of the checkpoint",
                  detail=f"`{attr}` receives a detached TensorDict via to_module() in a hook: it has no registered parameters, its state_dict() is empty, "
                         "so the checkpoint does not contain the target weights and the loaders skip it (`elif state_dict:`)",
                  construct=f"{cname}.{attr} saved")
    ck.floor("C07.3", n, 30, "registered networks over the 11 algorithms")


def _alias_attrs(ck: Check, repo: Repo, writer: Fn) -> None:
    wsrc = ast.unparse(writer.node)
    excludes_modules = "isinstance(value, torch.nn.Module)" in wsrc or "isinstance(value, nn.Module)" in wsrc
    n = 0
    for modname, cname in ALGOS:
        reg = extract(repo, modname, cname)
        nets = set(reg.eval_attrs() + reg.shared_attrs())
        for m in reg.cls.methods.values():
            for attr, vals in self_attr_stores(m).items():
                if attr.startswith("_") or attr.endswith("_"):
                    continue
                for v in vals:
                    if isinstance(v, ast.Call) and isinstance(v.func, ast.Attribute) and dotted(v.func.value).startswith("self.") and dotted(v.func.value)[5:] in nets \
                            and v.func.attr.startswith("get_"):
                        n += 1
                        ck.ob("C07.4", m, v, excludes_modules,
                              f"{cname}.{attr} (a layer of `{dotted(v.func.value)[5:]}`) is not saved as a pickled copy among the plain attributes",
                              detail=f"`{attr}` is a public attribute holding a sub-module; inspect_attributes() includes it, the loaders restore it with setattr after the "
                                     "hook re-derived it, so after loading it is a detached copy and no longer the network's own layer",
                              construct=f"{cname}.{attr} alias of a network layer")
    ck.floor("C07.4", n, 2, "alias attributes of network layers (bandit exp_layer)")


def _prefix(ck: Check, repo: Repo, fns) -> None:
    for fn in fns:
        comps = [n for n in ast.walk(fn.node) if isinstance(n, ast.DictComp) and any("startswith" in ast.unparse(i) for g in n.generators for i in g.ifs)]
        ck.floor("C07.5", len(comps), 3, f"{fn.name}: prefix selections")
        for n in ast.walk(fn.node):
            if isinstance(n, ast.Subscript) and dotted(n.value) in ("net_dict", "opt_dict") and isinstance(n.ctx, ast.Load):
                ck.ob("C07.5", fn, n, _fsuffix(n.slice) is not None and ast.unparse(n.slice.values[0].value) == "name",
                      f"{fn.name}: entries selected by prefix are read with the exact key f\"{{name}}_…\" (a longer name sharing the prefix cannot be picked up)")
        for n in ast.walk(fn.node):
            if isinstance(n, ast.Call) and isinstance(n.func, ast.Attribute) and n.func.attr in ("values", "items") and dotted(n.func.value) in ("net_dict", "opt_dict"):
                ck.ob("C07.5", fn, n, False, f"{fn.name}: the prefix-selected dictionary is never iterated as a whole")


def _wrapper(ck: Check, repo: Repo) -> None:
    sv = repo.fn(WR, "AgentWrapper.save_checkpoint")
    ld = repo.fn(WR, "AgentWrapper.load_checkpoint")
    s, l = ast.unparse(sv.node), ast.unparse(ld.node)
    ck.ob("C07.1", sv, sv.node, "checkpoint = get_checkpoint_dict(self.agent)" in s and all(f"checkpoint['{k}']" in s for k in ("wrapper_cls", "wrapper_init_dict", "wrapper_attrs")),
          "a wrapped agent's checkpoint contains the agent's checkpoint plus the wrapper's class, constructor arguments and attributes", construct="wrapper save")
    ck.ob("C07.1", ld, ld.node, "self.agent.load_checkpoint(path)" in l and "for key, value in checkpoint['wrapper_attrs'].items():\n        setattr(self, key, value)" in l,
          "loading into a wrapper restores the wrapped agent and then the wrapper's attributes", construct="wrapper load")
    load = repo.fn(BASE, "EvolvableAlgorithm.load")
    ls = ast.unparse(load.node)
    ck.ob("C07.1", load, load.node, "wrapper_cls(self, **init_dict)" in ls and "checkpoint.get('wrapper_init_dict')" in ls and "setattr(self, attr, wrapper_attributes[attr])" in ls,
          "load() re-creates the wrapper around the restored agent with its saved constructor arguments and attributes", construct="load re-wraps")


_BF = "agilerl/algorithms/core/base.py"
_WF = "agilerl/wrappers/agent.py"
VARIANTS = [
    ("multi-input-output-activation-not-described", "agilerl/modules/multi_input.py", "            self.output_activation = activation\n            self.output = get_activation(activation)", "            self.output = get_activation(activation)", "fire", "C07.8"),
    ("mlp-activation-not-described", "agilerl/modules/mlp.py", "        self.activation = activation\n        self.recreate_network()\n\n    @mutation(MutationType.LAYER)\n    def add_layer", "        self.recreate_network()\n\n    @mutation(MutationType.LAYER)\n    def add_layer", "fire", "C07.8"),
    ("optimizer-lr-overwritten-after-load", "agilerl/algorithms/core/wrappers.py", "            self.optimizer.load_state_dict(state_dict)\n\n    def state_dict(self)", "            self.optimizer.load_state_dict(state_dict)\n            for param_group in self.optimizer.param_groups:\n                param_group[\"lr\"] = self.lr\n\n    def state_dict(self)", "fire", "C07.6"),
    ("hook-after-attribute-restore", "agilerl/algorithms/core/base.py", "        for attribute in checkpoint.keys():\n            setattr(self, attribute, checkpoint[attribute])\n", "        for attribute in checkpoint.keys():\n            setattr(self, attribute, checkpoint[attribute])\n\n        self.mutation_hook()\n", "fire", "C07.6"),
    ("td3-private-learn-counter", "agilerl/algorithms/td3.py", "        self.learn_counter += 1", "        self._learn_counter += 1", "fire", "C07.7"),
    ("td3-counter-explicit-sum-ok", "agilerl/algorithms/td3.py", "        self.learn_counter += 1", "        self.learn_counter = self.learn_counter + 1", "silent", None),
    ("writer-drops-lr-key", _BF, "                    f\"{attr}_lr\": obj.lr_name,\n", "", "fire", "C07.1"),
    ("writer-renames-key", _BF, "                    f\"{attr}_init_dict\": init_dict,\n", "                    f\"{attr}_config\": init_dict,\n", "fire", "C07.1"),
    ("load-optimizer-before-weights", _BF, "        # Reconstruct optimizers in algorithm\n        optimizer_names = network_info[\"optimizer_names\"]\n        loaded_optimizers = {}\n", "        optimizer_names = network_info[\"optimizer_names\"]\n        loaded_optimizers = {}\n", "silent", None),
    ("load-cp-skip-opt-state", _BF, "            # Load optimizer state\n            optimizer.load_state_dict(opt_dict[f\"{name}_state_dict\"])\n", "", "fire", "C07.2"),
    ("load-opt-over-old-nets", _BF, "                else [loaded_modules[net] for net in opt_networks]\n", "                else [getattr(cls, net, None) for net in opt_networks]\n", "fire", "C07.2"),
    ("load-cp-lr-constant", _BF, "                lr=getattr(self, opt_lr),\n", "                lr=1e-3,\n", "fire", "C07.2"),
    ("load-cp-attrs-not-restored", _BF, "        checkpoint.pop(\"network_info\")\n        for attribute in checkpoint.keys():\n            setattr(self, attribute, checkpoint[attribute])\n", "        checkpoint.pop(\"network_info\")\n", "fire", "C07.2"),
    ("load-cp-iterate-prefix-dict", _BF, "            module_cls = net_dict[f\"{name}_cls\"]\n            init_dict = net_dict[f\"{name}_init_dict\"]\n            if isinstance(module_cls, list):\n                loaded_modules = []",
     "            module_cls = list(net_dict.values())[0]\n            init_dict = net_dict[f\"{name}_init_dict\"]\n            if isinstance(module_cls, list):\n                loaded_modules = []", "fire", "C07"),
    ("wrapper-attrs-not-restored", _WF, "        for key, value in checkpoint[\"wrapper_attrs\"].items():\n            setattr(self, key, value)\n", "", "fire", "C07.1"),
    ("state-before-rebuild", _BF, "                loaded_module: EvolvableModule = module_cls(**init_dict)\n                setattr(self, name, loaded_module)\n\n        # Apply mutation hooks", "                pass\n\n        # Apply mutation hooks", "fire", "C07.2"),
]
