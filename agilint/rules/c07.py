"""C07 — a saved checkpoint restores an equivalent agent."""
from __future__ import annotations

import ast
from typing import Dict, List, Optional, Set, Tuple

from ..cfg import CFG, Node
from ..core import AnalysisError, Cls, Fn, Repo, call_name, calls_in, const_value, dotted, get_kw, last_attr, short, walk_no_nested
from ..pat import has
from ..registry import ALGOS, extract
from ..report import Check
from ..util import self_attr_stores

BASE = "agilerl.algorithms.core.base"
WR = "agilerl.wrappers.agent"


def _fsuffix(e: ast.AST) -> Optional[str]:
    """suffix of an f-string key f"{x}_suffix" (None when not of that shape)."""
    if isinstance(e, ast.JoinedStr) and len(e.values) == 2 and isinstance(e.values[0], ast.FormattedValue) and isinstance(e.values[1], ast.Constant):
        return str(e.values[1].value)
    return None


def run(ck: Check, repo: Repo) -> None:
    ck.not_decided += ["equality of later learning trajectories of original and restored agent (runtime values)",
                       "that torch.save / dill round-trips every attribute value"]
    ck.trusted += ["nn.Module.state_dict() contains registered parameters and buffers only", "torch Optimizer.state_dict() contains param_groups (with lr) and per-parameter state"]
    ck.rule("C07.1", "writer / reader key agreement: every key either loader reads from a checkpoint is written by get_checkpoint_dict (or the wrapper's "
                     "save_checkpoint), and both loaders read the same per-module and per-optimizer keys")
    ck.rule("C07.2", "order in both loaders: modules are rebuilt from their saved class and init_dict, their state is loaded, optimizers are then built over "
                     "the loaded modules with the agent's learning rate and receive their saved state, and hooks that copy weights run after weights were loaded")
    ck.rule("C07.3", "completeness: every registered network contributes its weights to the checkpoint (no network is parameterless as a whole at save time)")
    ck.rule("C07.4", "alias attributes: an attribute that refers to a sub-module of a registered network is not restored from a pickled copy "
                     "(it is excluded from the saved attributes or re-derived after loading)")
    ck.rule("C07.5", "prefix selection of per-network entries is followed by exact-key reads only")
    ck.rule("C07.6", "what was restored stays restored: OptimizerWrapper.load_state_dict only delegates to the torch optimizers (nothing of the loaded "
                     "param_groups / state is rewritten afterwards), and no registered hook that assigns checkpointed plain attributes runs after the loaders restored them")
    ck.rule("C07.7", "training bookkeeping survives: every attribute an algorithm updates from its own previous value (self.x += ..., self.x[k] += ...) has a name "
                     "that inspect_attributes() does not filter out, so it is part of checkpoints (and of clones)")
    ck.rule("C07.8", "activation changes reach the constructor description: a module's change_activation that replaces or rebuilds its layers also stores the "
                     "new activation in the attributes init_dict reports (`activation`; `output_activation` when the output layer is changed), like its siblings do")
    ck.rule("C07.9", "checkpointed tensors carry no autograd history: a public tensor attribute computed from the parameters of a network is detached "
                     "(pickling drops the graph, so original and restored agent would otherwise back-propagate differently)")
    ck.rule("C07.10", "what a checkpoint stores is state_dict(): every buffer the repository's modules register is persistent (obligations of C01.12, shared)")
    from dataclasses import replace
    from ._c01_extra import _persistent_buffers
    sub_ck = Check("C01", ck.tier, ck.repo_root)
    sub_ck.known = []
    _persistent_buffers(sub_ck, repo)
    ck.obs.extend(replace(o, rule="C07.10") for o in sub_ck.obs if o.rule == "C01.12")
    ck.rule("C07.11", "hand-written checkpoint writers name what they store: an entry `<x>_state_dict` / `<x>_init_dict` is read from self.<x>, and the matching "
                      "hand-written loader puts `<x>_state_dict` into self.<x>")
    _handwritten_writers(ck, repo)
    from ._c07_r3 import run_r3
    run_r3(ck, repo)
    _restored_stays(ck, repo)
    _bookkeeping(ck, repo)
    _activation_description(ck, repo)
    from ._c07_autograd import autograd_free_snapshots
    _flt = _name_filter(repo)
    autograd_free_snapshots(ck, repo, lambda a: _filtered(a, _flt))
    writer = repo.fn(BASE, "get_checkpoint_dict")
    load = repo.fn(BASE, "EvolvableAlgorithm.load")
    load_cp = repo.fn(BASE, "EvolvableAlgorithm.load_checkpoint")
    w_mod, w_opt, w_top = _written(writer)
    ck.note("keys_written", {"modules": sorted(w_mod), "optimizers": sorted(w_opt), "top": sorted(w_top)})
    ck.floor("C07.1", len(w_mod), 3, "per-module key templates written")
    ck.floor("C07.1", len(w_opt), 6, "per-optimizer key templates written")
    reads = {}
    for fn in (load, load_cp):
        r_mod, r_opt, r_top = _read(fn)
        reads[fn.name] = (r_mod, r_opt, r_top)
        for s in sorted(r_mod):
            ck.ob("C07.1", fn, fn.node, s in w_mod, f"{fn.name}: per-module key `<name>{s}` is written by get_checkpoint_dict", construct=f"{fn.name}: module key {s}")
        for s in sorted(r_opt):
            ck.ob("C07.1", fn, fn.node, s in w_opt, f"{fn.name}: per-optimizer key `<name>{s}` is written by get_checkpoint_dict", construct=f"{fn.name}: optimizer key {s}")
        for s in sorted(r_top):
            ck.ob("C07.1", fn, fn.node, s in w_top or s in ("registry", "wrapper_cls", "wrapper_init_dict", "wrapper_attrs"), f"{fn.name}: top-level key `{s}` is written",
                  construct=f"{fn.name}: top key {s}")
        ck.ob("C07.1", fn, fn.node, {"_cls", "_init_dict", "_state_dict"} <= r_mod, f"{fn.name}: class, init_dict and state dict of every network are read", construct=f"{fn.name}: module keys read")
        ck.ob("C07.1", fn, fn.node, {"_cls", "_state_dict", "_networks", "_lr", "_kwargs", "_multiagent"} <= r_opt, f"{fn.name}: every saved optimizer field is read back",
              construct=f"{fn.name}: optimizer keys read")
    ck.ob("C07.1", load_cp, load_cp.node, reads["load"][0] == reads["load_checkpoint"][0] and reads["load"][1] == reads["load_checkpoint"][1],
          "both loaders read the same per-module and per-optimizer keys", detail=str({k: (sorted(v[0]), sorted(v[1])) for k, v in reads.items()}), construct="loader agreement")
    # writer: covers every evolvable attribute, registry travels with the attributes
    covers, together, fields = _writer_shape(writer, repo)
    ck.ob("C07.1", writer, writer.node, covers, "every evolvable attribute is saved as optimizer or as module (anything else is an error)",
          construct="writer covers evolvable attributes")
    ck.ob("C07.1", writer, writer.node, together,
          "plain attributes (hyper-parameters, counters, registry) and network info are saved together", construct="writer attribute dict")
    ck.ob("C07.1", writer, writer.node, fields,
          "the saved architecture is the module's current init_dict and the saved weights its current state dict", construct="writer module fields")
    _order(ck, repo, load, True)
    _order(ck, repo, load_cp, False)
    _completeness(ck, repo)
    _alias_attrs(ck, repo, writer)
    _prefix(ck, repo, (load, load_cp))
    _wrapper(ck, repo)
    from ._c07_r5 import run_r5
    run_r5(ck, repo)


# ------------------------------------------------------------------------------------------------ C07.6
def _restored_stays(ck: Check, repo: Repo) -> None:
    ow = repo.fn("agilerl.algorithms.core.wrappers", "OptimizerWrapper.load_state_dict")
    delegated = [c for c in calls_in(ow.node, nested=True) if last_attr(c) == "load_state_dict"]
    ck.floor("C07.6", len(delegated), 2, "delegations to torch optimizers (single- and multi-agent form)", fn=ow)
    bad = []
    for n in ast.walk(ow.node):
        tgt = None
        if isinstance(n, (ast.Assign, ast.AugAssign)):
            t = n.targets[0] if isinstance(n, ast.Assign) else n.target
            if isinstance(t, (ast.Subscript, ast.Attribute)):
                tgt = t
        elif isinstance(n, ast.Call) and call_name(n) == "setattr":
            tgt = n
        elif isinstance(n, ast.Call) and isinstance(n.func, ast.Attribute) and n.func.attr in ("update", "clear", "pop", "setdefault", "add_param_group", "zero_", "fill_", "copy_"):
            tgt = n
        if tgt is not None and not (isinstance(tgt, ast.Attribute) and False):
            bad.append(n)
    for n in bad or [None]:
        ck.ob("C07.6", ow, n if n is not None else ow.node, n is None, "OptimizerWrapper.load_state_dict changes nothing after handing the saved state to the torch optimizer",
              detail=f"`{short(n, 80) if n is not None else ''}` writes into the optimizer after its state was loaded: the restored agent then steps with a value "
                     "(e.g. the learning rate the receiving agent was constructed with) that differs from the checkpoint",
              construct=f"OptimizerWrapper.load_state_dict: write {short(n, 60) if n is not None else 'none'}")
    # hooks that assign plain (checkpointed) attributes
    flt = _name_filter(repo)
    clobber: Dict[str, List[str]] = {}
    for modname, cname in ALGOS:
        reg = extract(repo, modname, cname)
        nets = set(reg.eval_attrs() + reg.shared_attrs()) | {o.name for o in getattr(reg, "opts", [])}
        for h in reg.hooks:
            m = reg.cls.methods.get(h.name)
            if m is None:
                continue
            plain = sorted(a for a in self_attr_stores(m) if not _filtered(a, flt) and a not in nets)
            if plain:
                clobber[f"{cname}.{h.name}"] = plain
    ck.note("hooks_assigning_plain_attributes", clobber)
    for q in ("EvolvableAlgorithm.load", "EvolvableAlgorithm.load_checkpoint"):
        fn = repo.fn(BASE, q)
        cfg = CFG(fn.node)
        # the restore loop: setattr(<agent>, <loop variable>, <checkpoint>[...] / .get(...)) inside a for loop
        restores = []
        for lp in [x for x in walk_no_nested(fn.node) if isinstance(x, ast.For) and isinstance(x.target, ast.Name)]:
            for c in calls_in(lp):
                if call_name(c) == "setattr" and len(c.args) == 3 and dotted(c.args[1]) == lp.target.id and ast.unparse(c.args[2]).endswith((f"[{lp.target.id}]", f".get({lp.target.id})")):
                    restores.append(cfg.node_of(c))
        restores = [r for r in restores if r is not None]
        ck.ob("C07.6", fn, fn.node, bool(restores), f"{fn.name}: plain attributes are restored by a setattr loop", construct=f"{fn.name}: restore loop")
        hook_calls = [c for c in calls_in(fn.node) if last_attr(c) in ("mutation_hook", "_mutation_hook") or (last_attr(c) or "").endswith("_hook")]
        for c in hook_calls:
            hn = cfg.node_of(c)
            after = hn is not None and any(hn.id in cfg.reachable_from(r) and not cfg.dominates(hn, r) for r in restores)
            ck.ob("C07.6", fn, c, not (after and clobber), f"{fn.name}: registered hooks do not run after the plain attributes were restored",
                  detail=f"`{short(c, 40)}` runs after the restore loop; hooks that assign checkpointed attributes: {clobber} — the restored values "
                         "(e.g. the bandits' sigma_inv / theta_0 history) are reset to their initial values",
                  construct=f"{fn.name}: hook call {short(c, 40)} relative to the restore loop")
        ck.floor("C07.6", len(hook_calls), 1, f"{fn.name}: hook calls")


def _name_filter(repo: Repo) -> Dict[str, List[str]]:
    """Prefixes / suffixes that inspect_attributes() filters out, read from its own filter expression."""
    ia = repo.fn(BASE, "EvolvableAlgorithm.inspect_attributes")
    out: Dict[str, List[str]] = {"startswith": [], "endswith": []}
    for c in calls_in(ia.node, nested=True):
        if last_attr(c) in out and c.args and isinstance(c.args[0], ast.Constant) and isinstance(c.args[0].value, str):
            out[last_attr(c)].append(c.args[0].value)
    if not out["startswith"] and not out["endswith"]:
        raise AnalysisError("inspect_attributes: name filter not found")
    return out


def _filtered(name: str, flt: Dict[str, List[str]]) -> bool:
    return any(name.startswith(p) for p in flt["startswith"]) or any(name.endswith(p) for p in flt["endswith"])


# ------------------------------------------------------------------------------------------------ C07.7
def _bookkeeping(ck: Check, repo: Repo) -> None:
    flt = _name_filter(repo)
    n = 0
    seen = set()
    for modname, cname in ALGOS:
        cls = repo.cls(modname, cname)
        for c in repo.mro(cls):
            if not c.mod.name.startswith("agilerl.algorithms"):
                continue
            for m in c.methods.values():
                if m.name == "__init__":
                    continue
                for x in walk_no_nested(m.node):
                    attr = None
                    if isinstance(x, ast.AugAssign):
                        t = x.target
                        while isinstance(t, ast.Subscript):
                            t = t.value
                        if isinstance(t, ast.Attribute) and dotted(t.value) == "self":
                            attr = t.attr
                    elif isinstance(x, ast.Assign) and len(x.targets) == 1 and isinstance(x.targets[0], ast.Attribute) and dotted(x.targets[0].value) == "self" \
                            and isinstance(x.value, ast.BinOp) and any(isinstance(y, ast.Attribute) and dotted(y) == f"self.{x.targets[0].attr}" for y in ast.walk(x.value)):
                        attr = x.targets[0].attr
                    if attr is None or (c.name, m.name, attr) in seen:
                        continue
                    seen.add((c.name, m.name, attr))
                    n += 1
                    ck.ob("C07.7", m, x, not _filtered(attr, flt), f"{c.name}.{m.name}: the running state `self.{attr}` is kept by inspect_attributes (checkpoint, clone)",
                          detail=f"`self.{attr}` is updated from its own previous value but its name is filtered out by inspect_attributes "
                                 f"(prefixes {flt['startswith']}, suffixes {flt['endswith']}): a restored agent starts again from the constructor value "
                                 "(e.g. TD3's delayed policy update happens on the opposite steps)",
                          construct=f"{c.name}.{m.name}: carried state self.{attr}")
    ck.floor("C07.7", n, 5, "attributes updated from their own previous value in algorithm methods")


# ------------------------------------------------------------------------------------------------ C07.11
def _handwritten_writers(ck: Check, repo: Repo) -> None:
    n = 0
    for m in repo.mods.values():
        if not m.name.startswith("agilerl.algorithms"):
            continue
        for cls in m.classes.values():
            for meth_name in ("save_checkpoint",):
                w = cls.methods.get(meth_name)
                if w is None:
                    continue
                for d in [x for x in ast.walk(w.node) if isinstance(x, ast.Dict)]:
                    for k, v in zip(d.keys, d.values):
                        key = const_value(k) if k is not None else None
                        if not isinstance(key, str):
                            continue
                        for suf, attr_of in (("_state_dict", "state_dict"), ("_init_dict", "init_dict")):
                            if not key.endswith(suf):
                                continue
                            name = key[: -len(suf)]
                            srcs = [x for x in ast.walk(v) if (isinstance(x, ast.Call) and last_attr(x) == attr_of and dotted(x.func.value).startswith("self."))
                                    or (isinstance(x, ast.Attribute) and x.attr == attr_of and dotted(x.value).startswith("self.") and attr_of == "init_dict")]
                            if not srcs:
                                continue
                            n += 1
                            owners = {dotted(x.func.value if isinstance(x, ast.Call) else x.value)[5:] for x in srcs}
                            ck.ob("C07.11", w, v, owners == {name}, f"{cls.name}.save_checkpoint: `{key}` stores self.{name}.{attr_of}",
                                  detail=f"`{key}` is read from {sorted(owners)}: after loading, self.{name} holds another network's values",
                                  construct=f"{cls.name}.save_checkpoint: {key}")
                ld = cls.methods.get("load_checkpoint")
                if ld is not None:
                    for c in calls_in(ld.node, nested=True):
                        if last_attr(c) == "load_state_dict" and c.args and isinstance(c.args[0], ast.Subscript) and isinstance(const_value(c.args[0].slice), str) \
                                and const_value(c.args[0].slice).endswith("_state_dict") and dotted(c.func.value).startswith("self."):
                            n += 1
                            key = const_value(c.args[0].slice)
                            ck.ob("C07.11", ld, c, dotted(c.func.value)[5:] == key[: -len("_state_dict")], f"{cls.name}.load_checkpoint: `{key}` is loaded into self.{key[:-11]}",
                                  construct=f"{cls.name}.load_checkpoint: {key}")
    ck.floor("C07.11", n, 8, "named entries of hand-written checkpoint writers / loaders")


# ------------------------------------------------------------------------------------------------ C07.8
def _activation_description(ck: Check, repo: Repo) -> None:
    n = 0
    for modname in ("agilerl.modules.mlp", "agilerl.modules.cnn", "agilerl.modules.lstm", "agilerl.modules.multi_input", "agilerl.modules.simba", "agilerl.modules.resnet"):
        mod = repo.mod(modname)
        for cls in mod.classes.values():
            ca = cls.methods.get("change_activation")
            init = cls.methods.get("__init__")
            if ca is None or init is None:
                continue
            body = [st for st in ca.node.body if not (isinstance(st, ast.Expr) and isinstance(st.value, ast.Constant)) and not isinstance(st, ast.Pass)
                    and not (isinstance(st, ast.Return) and st.value is None)]
            if not body:
                continue  # a module without activations of its own: nothing to describe
            params = set(init.named_params)
            act_p = ca.named_params[1] if len(ca.named_params) > 1 else "activation"
            stores = self_attr_stores(ca)
            n += 1
            if "activation" in params:
                ck.ob("C07.8", ca, ca.node, any(dotted(v) == act_p for v in stores.get("activation", [])),
                      f"{cls.name}.change_activation stores the new activation in self.activation (reported by init_dict)", construct=f"{cls.name}.change_activation: activation")
            if "output_activation" in params:
                changes_output = any(a not in ("activation", "output_activation") for a in stores) or any(last_attr(c) == "recreate_network" for c in calls_in(ca.node))
                ok = any(dotted(v) == act_p for v in stores.get("output_activation", []))
                ck.ob("C07.8", ca, ca.node, ok or not changes_output,
                      f"{cls.name}.change_activation stores the new output activation in self.output_activation when it changes the output layer",
                      detail=f"the method replaces / rebuilds layers ({sorted(a for a in stores if a not in ('activation', 'output_activation'))}) but init_dict keeps the "
                             "constructor's output_activation: a clone, a checkpoint or a re-created target built from init_dict ends in the old activation",
                      construct=f"{cls.name}.change_activation: output_activation")
    ck.floor("C07.8", n, 4, "change_activation implementations with a body")


# ------------------------------------------------------------------------------------------------ roles of locals
# Nothing below recognises a local of the library by its spelling: every local is found by what is bound to it.
def _bindings(root: ast.AST) -> List[Tuple[str, ast.AST]]:
    """(local, rhs) of every plain / annotated / walrus binding of a bare name in the function."""
    out: List[Tuple[str, ast.AST]] = []
    for n in ast.walk(root):
        if isinstance(n, ast.Assign):
            out += [(t.id, n.value) for t in n.targets if isinstance(t, ast.Name)]
        elif isinstance(n, (ast.AnnAssign, ast.NamedExpr)) and n.value is not None and isinstance(n.target, ast.Name):
            out.append((n.target.id, n.value))
    return out


def _key_read(e: ast.AST, bases: Set[str]) -> Optional[ast.AST]:
    """The key when e is `<base>[key]` / `<base>.get(key, ...)` and base is one of the given locals."""
    if isinstance(e, ast.Subscript) and isinstance(e.value, ast.Name) and e.value.id in bases:
        return e.slice
    if isinstance(e, ast.Call) and isinstance(e.func, ast.Attribute) and e.func.attr == "get" and e.args and isinstance(e.func.value, ast.Name) and e.func.value.id in bases:
        return e.args[0]
    return None


def _bound_to_key(root: ast.AST, bases: Set[str], key: str) -> Set[str]:
    """Locals bound to `<base>["key"]` / `<base>.get("key")`."""
    return {name for name, v in _bindings(root) if const_value(_key_read(v, bases)) == key}


def _agent_name(fn: Fn) -> str:
    """The agent being restored: `self`, or in a classmethod the local bound to `cls(...)` (first parameter called)."""
    if "self" in fn.params:
        return "self"
    first = fn.named_params[0] if fn.named_params else None
    made = {name for name, v in _bindings(fn.node) if isinstance(v, ast.Call) and isinstance(v.func, ast.Name) and v.func.id == first}
    if len(made) != 1:
        raise AnalysisError(f"{fn.qualname}: the local holding the constructed agent ({first}(...)) not found")
    return made.pop()


class _Roles:
    """Locals of a loader by role: checkpoint (bound to torch.load), network info (bound to <checkpoint>["network_info"]),
    per-network / per-optimizer selections (dict comprehension over <info>["modules"/"optimizers"].items() filtered with
    .startswith(<loop variable>)), and the fields read out of a selection."""

    def __init__(self, fn: Fn):
        self.fn = fn
        self.binds = _bindings(fn.node)
        self.agent = _agent_name(fn)
        self.ckpt: Set[str] = {n for n, v in self.binds if isinstance(v, ast.Call) and call_name(v) == "torch.load"}
        self.info: Set[str] = _bound_to_key(fn.node, self.ckpt, "network_info")
        self.sel: Dict[str, Dict[str, Set[str]]] = {"modules": {}, "optimizers": {}}  # kind -> selection local -> prefix variables
        # locals that hold the WHOLE <info>["modules"] / <info>["optimizers"] dictionary: every binding of the local in the function is that read
        # (a hoisted common sub-expression; the local of an inlined helper)
        stores: Dict[str, int] = {}
        for x in ast.walk(fn.node):
            if isinstance(x, ast.Name) and not isinstance(x.ctx, ast.Load):
                stores[x.id] = stores.get(x.id, 0) + 1
        self.whole: Dict[str, Set[str]] = {"modules": set(), "optimizers": set()}
        for _ in range(4):
            for n in {b[0] for b in self.binds}:
                kinds = [self.kind(v) for m, v in self.binds if m == n]
                if kinds[0] in self.whole and len(set(kinds)) == 1 and stores.get(n, 0) == len(kinds) and n not in fn.params:
                    self.whole[kinds[0]].add(n)
        for n, v in self.binds:
            hit = self.selection(v)
            if hit is not None:
                self.sel[hit[0]].setdefault(n, set()).add(hit[1])

    def kind(self, e: ast.AST) -> Optional[str]:
        """"modules" / "optimizers" when e is the whole dictionary of that name of the network info (read directly or held in a local)."""
        if isinstance(e, ast.Name):
            return next((k for k, names in self.whole.items() if e.id in names), None)
        k = const_value(_key_read(e, self.info))
        return k if k in self.whole else None

    def entry_key(self, e: ast.AST, kind: str) -> Optional[ast.AST]:
        """The key when e reads one entry of a network / optimizer: out of a prefix selection of that kind, or out of the whole dictionary."""
        k = _key_read(e, set(self.sel[kind]))
        if k is not None:
            return k
        if isinstance(e, ast.Subscript) and self.kind(e.value) == kind:
            return e.slice
        if isinstance(e, ast.Call) and isinstance(e.func, ast.Attribute) and e.func.attr == "get" and e.args and self.kind(e.func.value) == kind:
            return e.args[0]
        return None

    def selection(self, v: ast.AST) -> Optional[Tuple[str, str]]:
        if not (isinstance(v, ast.DictComp) and len(v.generators) == 1):
            return None
        g = v.generators[0]
        it = g.iter
        if not (isinstance(it, ast.Call) and isinstance(it.func, ast.Attribute) and it.func.attr == "items"):
            return None
        kind = self.kind(it.func.value)
        if kind not in self.sel:
            return None
        for cond in g.ifs:
            for c in ast.walk(cond):
                if isinstance(c, ast.Call) and isinstance(c.func, ast.Attribute) and c.func.attr == "startswith" and len(c.args) == 1 and isinstance(c.args[0], ast.Name):
                    return kind, c.args[0].id
        return None

    def reads(self, e: ast.AST, kind: str, suffix: str) -> bool:
        """e contains a read of the entry f"{<x>}<suffix>" of a network ("modules") / an optimizer ("optimizers")."""
        return any(_fsuffix(self.entry_key(x, kind)) == suffix for x in ast.walk(e))

    def field(self, kind: str, suffix: str) -> Set[str]:
        """Locals holding the `<name><suffix>` entry of a network / an optimizer (directly, copied, or moved to a device)."""
        out: Set[str] = set()
        grew = True
        while grew:
            grew = False
            for n, v in self.binds:
                src = v.args[0] if isinstance(v, ast.Call) and call_name(v) == "chkpt_attribute_to_device" and v.args else v
                if n not in out and (_fsuffix(self.entry_key(src, kind)) == suffix or (isinstance(src, ast.Name) and src.id in out)):
                    out.add(n)
                    grew = True
        return out


def _single(cfg: CFG, at: Node, e: ast.AST) -> Tuple[ast.AST, Node]:
    """e looked through locals that have exactly one (plain) definition reaching `at`; with the node at which the result is evaluated."""
    for _ in range(8):
        if not isinstance(e, ast.Name):
            break
        defs = cfg.defs_reaching(at, e.id)
        v = cfg.value_of_def(defs[0], e.id) if len(defs) == 1 else None
        if v is None:
            break
        e, at = v, defs[0]
    return e, at


def _values_are_attributes(repo: Repo) -> bool:
    """evolvable_attributes() maps every name it returns to getattr(<agent>, name): its result is a dictionary that is only filled by
    `<result>[k] = v` with v = getattr(self, k) (or is a dictionary comprehension of that form)."""
    fn = repo.fn(BASE, "EvolvableAlgorithm.evolvable_attributes")
    me = fn.named_params[0] if fn.named_params else "self"
    cfg = CFG(fn.node)

    def own(k: ast.AST, v: ast.AST, at: Optional[Node]) -> bool:
        v = _single(cfg, at, v)[0] if at is not None else v
        return isinstance(k, ast.Name) and isinstance(v, ast.Call) and call_name(v) == "getattr" and [dotted(a) for a in v.args] == [me, k.id] and not v.keywords

    rets = [n for n in cfg.live_nodes() if n.kind == "stmt" and isinstance(n.ast, ast.Return)]
    if not rets:
        return False
    for r in rets:
        e = r.ast.value
        if isinstance(e, ast.DictComp):
            if not own(e.key, e.value, None):
                return False
            continue
        if not isinstance(e, ast.Name):
            return False
        stores = 0
        for d in cfg.defs_reaching(r, e.id):
            v = cfg.value_of_def(d, e.id)
            if v is not None:  # the container itself: starts empty (or as a comprehension of the same form)
                if not ((isinstance(v, ast.Dict) and not v.keys) or (isinstance(v, ast.Call) and call_name(v) == "dict" and not v.args and not v.keywords)
                        or (isinstance(v, ast.DictComp) and own(v.key, v.value, None))):
                    return False
                continue
            t = d.ast.targets[0] if d.kind == "stmt" and isinstance(d.ast, ast.Assign) and len(d.ast.targets) == 1 else None
            if not (isinstance(t, ast.Subscript) and isinstance(t.value, ast.Name) and t.value.id == e.id and own(t.slice, d.ast.value, d)):
                return False
            stores += 1
        if not stores and not any(isinstance(cfg.value_of_def(d, e.id), ast.DictComp) for d in cfg.defs_reaching(r, e.id)):
            return False
    return True


class _AttrLoop:
    """A loop of the writer over ALL evolvable attributes of the agent: `for k in <A>`, `for k in <A>.keys()`, `for k, v in <A>.items()` where <A> is
    `<agent>.evolvable_attributes()` (no filter argument), directly or through a local that holds it.  `obj(e, at)` says whether expression e, evaluated
    at CFG node `at`, is the attribute named by the loop key (getattr(<agent>, k), <A>[k], the value variable of an items() loop, or a local that
    holds one of these on every path); `elem` whether it is an element of that attribute (variable of a loop / comprehension over it)."""

    def __init__(self, cfg: CFG, head: Node, agent: str, key: str, val: Optional[str]):
        self.cfg, self.head, self.lp, self.agent, self.key, self.val = cfg, head, head.ast, agent, key, val
        inside = {id(x) for st in self.lp.body for x in ast.walk(st)}
        self.body = {n.id for n in cfg.live_nodes() if n.stmt is not None and id(n.stmt) in inside}

    @staticmethod
    def all_attributes(cfg: CFG, at: Node, e: ast.AST, agent: str) -> bool:
        e = _single(cfg, at, e)[0]
        return isinstance(e, ast.Call) and dotted(e.func) == f"{agent}.evolvable_attributes" and not e.args and not e.keywords

    @classmethod
    def find(cls, cfg: CFG, agent: str, items_ok: bool) -> List["_AttrLoop"]:
        out = []
        for n in cfg.live_nodes():
            if n.kind != "for" or not isinstance(n.ast, ast.For):
                continue
            it, at = _single(cfg, n, n.ast.iter)
            view = None
            if isinstance(it, ast.Call) and isinstance(it.func, ast.Attribute) and it.func.attr in ("items", "keys") and not it.args and not it.keywords:
                view, it = it.func.attr, it.func.value
            if not cls.all_attributes(cfg, at, it, agent):
                continue
            t = n.ast.target
            if view == "items":
                if isinstance(t, ast.Tuple) and len(t.elts) == 2 and all(isinstance(x, ast.Name) for x in t.elts) and t.elts[0].id != t.elts[1].id:
                    out.append(cls(cfg, n, agent, t.elts[0].id, t.elts[1].id if items_ok else None))
            elif isinstance(t, ast.Name):
                out.append(cls(cfg, n, agent, t.id, None))
        return out

    def key_at(self, e: ast.AST, at: Node) -> bool:
        """e is the loop key of the current iteration."""
        return isinstance(e, ast.Name) and e.id == self.key and [d.id for d in self.cfg.defs_reaching(at, e.id)] == [self.head.id]

    def obj(self, e: ast.AST, at: Node, depth: int = 0) -> bool:
        if depth > 8:
            return False
        if isinstance(e, ast.Call) and call_name(e) == "getattr" and len(e.args) == 2 and not e.keywords and dotted(e.args[0]) == self.agent and self.key_at(e.args[1], at):
            return True
        if isinstance(e, ast.Subscript) and self.key_at(e.slice, at) and self.all_attributes(self.cfg, at, e.value, self.agent):
            return True
        if isinstance(e, ast.Name):
            defs = self.cfg.defs_reaching(at, e.id)
            for d in defs:
                if d is self.head and e.id == self.val:
                    continue
                v = self.cfg.value_of_def(d, e.id)
                if v is None or not self.obj(v, d, depth + 1):
                    return False
            return bool(defs)
        return False

    def elem(self, e: ast.AST, at: Node, env: Set[str]) -> bool:
        if not isinstance(e, ast.Name):
            return False
        if e.id in env:
            return True
        defs = self.cfg.defs_reaching(at, e.id)
        return bool(defs) and all(d.kind == "for" and isinstance(d.ast.target, ast.Name) and d.ast.target.id == e.id and self.obj(d.ast.iter, d) for d in defs)

    def owners(self, v: ast.AST, at: Node, what: str, env: Set[str], seen: Set[Tuple[int, str]]) -> List[bool]:
        """For every read of `.state_dict()` / `.init_dict` that flows into expression v (through locals, comprehensions, lists filled by append in a loop):
        is it taken from the attribute itself / from one of its elements?"""
        out: List[bool] = []
        if isinstance(v, ast.Name):
            if v.id in env or not isinstance(v.ctx, ast.Load):
                return out
            for d in self.cfg.defs_reaching(at, v.id):
                if (d.id, v.id) in seen:
                    continue
                seen.add((d.id, v.id))
                val = self.cfg.value_of_def(d, v.id)
                if val is not None:
                    out += self.owners(val, d, what, set(), seen)
                elif d.kind == "stmt" and isinstance(d.ast, ast.Expr) and isinstance(d.ast.value, ast.Call):  # weak update: <v>.append(x) / .extend(xs) / .update(...)
                    for a in list(d.ast.value.args) + [k.value for k in d.ast.value.keywords]:
                        out += self.owners(a, d, what, set(), seen)
            return out
        if isinstance(v, (ast.ListComp, ast.SetComp, ast.GeneratorExp, ast.DictComp)):
            env = set(env)
            for g in v.generators:
                out += self.owners(g.iter, at, what, env, seen)
                bound = {x.id for x in ast.walk(g.target) if isinstance(x, ast.Name)}
                env = (env | bound) if isinstance(g.target, ast.Name) and self.obj(g.iter, at) else (env - bound)
                for c in g.ifs:
                    out += self.owners(c, at, what, env, seen)
            for e in ([v.key, v.value] if isinstance(v, ast.DictComp) else [v.elt]):
                out += self.owners(e, at, what, env, seen)
            return out
        recv = None
        if what == "state_dict" and isinstance(v, ast.Call) and isinstance(v.func, ast.Attribute) and v.func.attr == what:
            recv, rest = v.func.value, list(v.args) + [k.value for k in v.keywords]
        elif what == "init_dict" and isinstance(v, ast.Attribute) and v.attr == what:
            recv, rest = v.value, []
        if recv is not None:
            out.append(self.elem(recv, at, env) or self.obj(recv, at))
            for a in rest:
                out += self.owners(a, at, what, env, seen)
            return out
        for c in ast.iter_child_nodes(v):
            out += self.owners(c, at, what, env, seen)
        return out

    def entries(self) -> List[Tuple[str, ast.AST, Node]]:
        """(suffix, value, node) of the dictionary entries f"{<key>}<suffix>": value written inside the loop."""
        out = []
        for d in ast.walk(self.lp):
            if not isinstance(d, ast.Dict):
                continue
            at = self.cfg.node_of(d)
            for k, v in zip(d.keys, d.values):
                if at is not None and k is not None and _fsuffix(k) is not None and self.key_at(k.values[0].value, at):
                    out.append((_fsuffix(k), v, at))
        return out

    def saves(self, n: Node) -> bool:
        """node n stores entries named after the loop key under "modules" / "optimizers" of some dictionary."""
        def kind(e: ast.AST) -> bool:
            return isinstance(e, ast.Subscript) and const_value(e.slice) in ("modules", "optimizers")
        for x in n.walk():
            if isinstance(x, ast.Call) and isinstance(x.func, ast.Attribute) and x.func.attr == "update" and kind(x.func.value) and x.args and isinstance(x.args[0], ast.Dict) \
                    and any(k is not None and _fsuffix(k) is not None and self.key_at(k.values[0].value, n) for k in x.args[0].keys):
                return True
            if isinstance(x, ast.Assign) and any(isinstance(t, ast.Subscript) and kind(t.value) and _fsuffix(t.slice) is not None and self.key_at(t.slice.values[0].value, n)
                                                 for t in x.targets):
                return True
        return False

    def unsaved_path(self) -> Optional[List[Node]]:
        """a path through the loop body (one iteration, from the loop head back to it) on which nothing is saved; leaving by an exception does not count."""
        cfg = self.cfg
        avoid = {n.id for n in cfg.live_nodes() if n is not self.head and (n.id not in self.body or self.saves(n))}
        return cfg.path_avoiding(self.head, {self.head.id}, avoid)


def _writer_shape(writer: Fn, repo: Repo) -> Tuple[bool, bool, bool]:
    """get_checkpoint_dict: (every evolvable attribute handled or TypeError, attributes + network info in one dict,
    module entries are the module's own init_dict / state_dict())."""
    node = writer.node
    agent = writer.named_params[0] if writer.named_params else "agent"
    binds = _bindings(node)
    cfg = CFG(node)
    loops = _AttrLoop.find(cfg, agent, _values_are_attributes(repo))

    def raises_type_error(lp: ast.For) -> bool:
        return any(isinstance(x, ast.Raise) and x.exc is not None and dotted(x.exc.func if isinstance(x.exc, ast.Call) else x.exc) == "TypeError" for x in ast.walk(lp))

    # every iteration saves the attribute (as optimizer or as module) or ends in the TypeError
    covers = any(raises_type_error(L.lp) and L.unsaved_path() is None for L in loops)
    # the dictionary of plain attributes and the network-info dictionary that is filled with .update()
    plain = {n for n, v in binds if isinstance(v, ast.Call) and call_name(v) == "EvolvableAlgorithm.inspect_attributes" and [dotted(a) for a in v.args] == [agent] and not v.keywords}
    info = {c.func.value.value.id for c in calls_in(node) if last_attr(c) == "update" and isinstance(c.func, ast.Attribute) and isinstance(c.func.value, ast.Subscript)
            and isinstance(c.func.value.value, ast.Name) and const_value(c.func.value.slice) in ("modules", "optimizers")}
    together = any(isinstance(n, ast.Assign) and isinstance(n.value, ast.Name) and n.value.id in info and const_value(_key_read(n.targets[0], plain)) == "network_info"
                   for n in walk_no_nested(node))
    # entries f"{<loop key>}_state_dict" / f"{<loop key>}_init_dict": whatever state_dict() / init_dict flows into the stored value is read from the
    # attribute named by the key (or, for a list of modules, from its elements) and from nothing else
    fields = False
    for L in loops:
        ok = {}
        for suffix, what in (("_state_dict", "state_dict"), ("_init_dict", "init_dict")):
            srcs = [L.owners(v, at, what, set(), set()) for s, v, at in L.entries() if s == suffix]
            ok[what] = bool(srcs) and all(o and all(o) for o in srcs)
        fields = fields or (ok["state_dict"] and ok["init_dict"])
    return covers, together, fields


def _written(writer: Fn) -> Tuple[Set[str], Set[str], Set[str]]:
    mod, opt, top = set(), set(), set()
    for c in calls_in(writer.node):
        if last_attr(c) == "update" and c.args and isinstance(c.args[0], ast.Dict):
            which = ast.unparse(c.func.value)
            for k in c.args[0].keys:
                s = _fsuffix(k)
                if s is None:
                    continue
                if "'optimizers'" in which:
                    opt.add(s)
                elif "'modules'" in which:
                    mod.add(s)
    for n in walk_no_nested(writer.node):
        if isinstance(n, ast.Assign) and isinstance(n.targets[0], ast.Subscript) and isinstance(n.targets[0].slice, ast.Constant):
            top.add(str(n.targets[0].slice.value))
        if isinstance(n, (ast.Assign, ast.AnnAssign)) and isinstance(getattr(n, "value", None), ast.Dict):
            for k in n.value.keys:
                if isinstance(k, ast.Constant):
                    top.add(str(k.value))
    return mod, opt, top


def _read(fn: Fn) -> Tuple[Set[str], Set[str], Set[str]]:
    mod, opt, top = set(), set(), set()
    roles = _Roles(fn)
    for n in ast.walk(fn.node):
        if isinstance(n, ast.Subscript) and not isinstance(n.ctx, ast.Load):
            continue
        s = _fsuffix(roles.entry_key(n, "modules"))
        if s is not None:
            mod.add(s)
        s = _fsuffix(roles.entry_key(n, "optimizers"))
        if s is not None:
            opt.add(s)
        k = const_value(_key_read(n, roles.ckpt | roles.info))
        if isinstance(k, str):
            top.add(k)
    return mod, opt, top


def _receiver_forms(cfg: CFG, at: Node, e: ast.AST, member: bool = False, depth: int = 0) -> Set[str]:
    """What expression e (evaluated at `at`) stands for, relative to the values it is derived from: "object" — such a value itself, "element" — a member
    of such a value.  With member=True e is a container whose members are asked for.  Locals are followed through all definitions that reach, loop
    variables to the iterable (argument k of zip for position k of the target), a list display `[x, ...]` to its items (a member of `[x]` is x)."""
    if depth > 10:
        return set()
    if isinstance(e, ast.IfExp):
        return _receiver_forms(cfg, at, e.body, member, depth + 1) | _receiver_forms(cfg, at, e.orelse, member, depth + 1)
    if member and isinstance(e, (ast.List, ast.Tuple)) and not any(isinstance(x, ast.Starred) for x in e.elts):
        out: Set[str] = set()
        for x in e.elts:
            out |= _receiver_forms(cfg, at, x, False, depth + 1)
        return out
    if isinstance(e, ast.Name):
        out = set()
        for d in cfg.defs_reaching(at, e.id):
            v = cfg.value_of_def(d, e.id)
            if v is not None:
                out |= _receiver_forms(cfg, d, v, member, depth + 1)
            elif d.kind == "for" and isinstance(d.ast, ast.For):
                it, t = d.ast.iter, d.ast.target
                src = None
                if isinstance(t, ast.Name):
                    src = it
                elif isinstance(t, ast.Tuple) and isinstance(it, ast.Call) and call_name(it) == "zip" and len(it.args) == len(t.elts) and not it.keywords:
                    src = next((a for a, x in zip(it.args, t.elts) if isinstance(x, ast.Name) and x.id == e.id), None)
                if src is None or member:
                    return set()
                out |= _receiver_forms(cfg, d, src, True, depth + 1)
            else:
                return set()
        return out
    return {"element"} if member else {"object"}


def _order(ck: Check, repo: Repo, fn: Fn, collected: bool) -> None:
    """collected: the loader gathers the rebuilt networks in a local dictionary (load) instead of reading them back from the agent."""
    cfg = CFG(fn.node)
    label = fn.name
    roles = _Roles(fn)
    agent = roles.agent
    # the saved class(es) / constructor arguments of a network, and their elements when both are lists walked with zip
    cls_names = roles.field("modules", "_cls")
    init_names = roles.field("modules", "_init_dict")
    # (a `for` statement or the generator of a comprehension: both have .target / .iter)
    pair_loops = [n for n in ast.walk(fn.node) if isinstance(n, (ast.For, ast.comprehension)) and isinstance(n.iter, ast.Call) and call_name(n.iter) == "zip"
                  and any(isinstance(a, ast.Name) and a.id in cls_names for a in n.iter.args)]
    elem_cls = {lp.target.elts[0].id for lp in pair_loops if isinstance(lp.target, ast.Tuple) and lp.target.elts and isinstance(lp.target.elts[0], ast.Name)}

    def rebuilds(c: ast.Call) -> bool:
        return isinstance(c.func, ast.Name) and c.func.id in cls_names | elem_cls and any(isinstance(k, ast.keyword) and k.arg is None for k in c.keywords)

    # the optimizer under construction: the local bound to OptimizerWrapper(...)
    opt_names = {n for n, v in roles.binds if isinstance(v, ast.Call) and call_name(v) == "OptimizerWrapper"}

    def on_optimizer(c: ast.Call) -> bool:
        recv = c.func.value
        return (isinstance(recv, ast.Name) and recv.id in opt_names) or (isinstance(recv, ast.Attribute) and "optimizer" in recv.attr)

    state_loads = [c for c in calls_in(fn.node) if last_attr(c) == "load_state_dict" and isinstance(c.func, ast.Attribute)]
    # phases (first node of each)
    build = [cfg.node_of(c) for c in calls_in(fn.node) if rebuilds(c)]
    build = [b for b in build if b is not None]
    hooks = [cfg.node_of(c) for c in calls_in(fn.node) if call_name(c) == f"{agent}.mutation_hook"]
    loads = [cfg.node_of(c) for c in state_loads if not on_optimizer(c)]
    opts = [cfg.node_of(c) for c in calls_in(fn.node) if call_name(c) == "OptimizerWrapper"]
    oload = [cfg.node_of(c) for c in state_loads if on_optimizer(c)]
    # the saved weights reach a network held directly by the agent AND the members of a list of networks: the receivers of the module state loads,
    # followed back through locals, loop variables and one-element lists, cover both forms (two load sites, or one site fed by both)
    forms: Set[str] = set()
    for c in state_loads:
        at = cfg.node_of(c)
        if not on_optimizer(c) and at is not None:
            forms |= _receiver_forms(cfg, at, c.func.value)
    ck.ob("C07.2", fn, fn.node, len(build) >= 2 and forms >= {"object", "element"} and len(opts) == 1 and len(oload) == 1, f"{label}: has the rebuild / load-state / optimizer / optimizer-state phases",
          detail=f"rebuild sites {len(build)}, module state loads {len(loads)} into {sorted(forms)}, optimizer builds {len(opts)}, optimizer state loads {len(oload)}", construct=f"{label}: phases")
    if not (build and loads and opts and oload):
        return

    def before(a: List[Node], b: List[Node]) -> bool:
        return all(y.id in cfg.reachable_from(x) and (x.id not in cfg.reachable_from(y) or cfg.dominates(x, y)) for x in a for y in b)

    ck.ob("C07.2", fn, loads[0].ast, before(build, loads), f"{label}: weights are loaded after the modules were rebuilt from their saved architecture")
    ck.ob("C07.2", fn, opts[0].ast, before(loads, opts), f"{label}: optimizers are created after the weights were loaded")
    ck.ob("C07.2", fn, oload[0].ast, before(opts, oload) and cfg.dominates(opts[0], oload[0]), f"{label}: each optimizer receives its saved state after it was created")
    # module class/init_dict pairing
    for c in calls_in(fn.node):
        if isinstance(c.func, ast.Name) and c.func.id in cls_names and c.keywords and c.keywords[0].arg is None:
            ck.ob("C07.2", fn, c, isinstance(c.keywords[0].value, ast.Name) and c.keywords[0].value.id in init_names, f"{label}: a network is rebuilt as saved_class(**saved_init_dict)")
    zips = pair_loops
    ck.ob("C07.2", fn, (zips[0] if isinstance(zips[0], ast.For) else zips[0].iter) if zips else fn.node, bool(zips) and len(zips[0].iter.args) == 2 and dotted(zips[0].iter.args[0]) in cls_names and dotted(zips[0].iter.args[1]) in init_names,
          f"{label}: for network lists class k is paired with init_dict k")
    # optimizer arguments
    oc = [c for c in calls_in(fn.node) if call_name(c) == "OptimizerWrapper"][0]
    n = cfg.node_of(oc)
    lr = get_kw(oc, "lr", 2)
    ok = isinstance(lr, ast.Call) and call_name(lr) == "getattr" and dotted(lr.args[0]) == agent
    ck.ob("C07.2", fn, oc, ok, f"{label}: the optimizer's learning rate is read from the agent attribute named in the checkpoint", detail=short(lr, 60))
    nets = get_kw(oc, "networks", 1)
    vals = [cfg.value_of_def(d, dotted(nets)) for d in cfg.defs_reaching(n, dotted(nets))] if isinstance(nets, ast.Name) else []
    src = " ".join(ast.unparse(v) for v in vals if v is not None)
    alts = []
    for v in vals:
        alts += [v.body, v.orelse] if isinstance(v, ast.IfExp) else [v]
    # the names of the optimizer's networks as saved, and where the freshly loaded networks are taken from
    named = roles.field("optimizers", "_networks")
    store: Set[str] = set()
    if collected:
        built = {nm for nm, v in roles.binds if isinstance(v, ast.Call) and rebuilds(v)}
        for x in ast.walk(fn.node):
            if isinstance(x, ast.Assign) and isinstance(x.targets[0], ast.Subscript) and isinstance(x.targets[0].value, ast.Name) \
                    and ((isinstance(x.value, ast.Name) and x.value.id in built) or (isinstance(x.value, ast.Call) and rebuilds(x.value))):
                store.add(x.targets[0].value.id)

    def over_loaded(a: Optional[ast.AST]) -> bool:
        if a is None or not any(isinstance(x, ast.Name) and x.id in named for x in ast.walk(a)):
            return False
        if collected:
            return any(isinstance(x, ast.Subscript) and isinstance(x.value, ast.Name) and x.value.id in store for x in ast.walk(a))
        return any(isinstance(x, ast.Call) and call_name(x) == "getattr" and len(x.args) >= 2 and dotted(x.args[0]) == agent for x in ast.walk(a))

    ck.ob("C07.2", fn, oc, bool(alts) and all(over_loaded(a) for a in alts),
          f"{label}: the optimizer is built over the freshly loaded networks named in the checkpoint (single- and multi-agent form)", detail=src[:160])
    sd = [c for c in state_loads if on_optimizer(c)][0]
    arg = sd.args[0] if sd.args else None
    saved = arg is not None and roles.reads(arg, "optimizers", "_state_dict")
    if not saved and isinstance(arg, ast.Name):
        sn = cfg.node_of(sd)
        dv = [cfg.value_of_def(d, arg.id) for d in cfg.defs_reaching(sn, arg.id)] if sn is not None else []
        held = roles.field("optimizers", "_state_dict")
        saved = bool(dv) and all(v is not None and (roles.reads(v, "optimizers", "_state_dict") or any(isinstance(x, ast.Name) and x.id in held for x in ast.walk(v))) for v in dv)
    ck.ob("C07.2", fn, sd, saved, f"{label}: the optimizer state loaded is the saved one")
    # attributes restored: setattr(<agent>, <loop variable>, <checkpoint>[<loop variable>] / .get(<loop variable>))
    attr_sets = []
    for lp in [x for x in walk_no_nested(fn.node) if isinstance(x, ast.For) and isinstance(x.target, ast.Name)]:
        for c in calls_in(lp):
            key = _key_read(c.args[2], roles.ckpt) if call_name(c) == "setattr" and len(c.args) == 3 else None
            if key is not None and dotted(c.args[0]) == agent and dotted(c.args[1]) == lp.target.id and dotted(key) == lp.target.id:
                attr_sets.append(cfg.node_of(c))
    attr_sets = [a for a in attr_sets if a is not None]
    ck.ob("C07.2", fn, attr_sets[0].ast if attr_sets else fn.node, len(attr_sets) == 1 and before(oload, attr_sets), f"{label}: plain attributes are restored from the checkpoint (after networks and optimizers)")
    # ... on the algorithm instance itself: where the agent name is re-bound (load() wraps the agent in its saved wrapper), the restore happens before
    for a in attr_sets:
        defs = cfg.defs_reaching(a, agent) if agent != "self" or "self" not in fn.params else []
        vals = [cfg.value_of_def(d, agent) for d in defs]
        first = fn.named_params[0] if fn.named_params else None
        foreign = [v for v in vals if not (isinstance(v, ast.Call) and isinstance(v.func, ast.Name) and v.func.id == first)]
        ck.ob("C07.2", fn, a.ast, not foreign, f"{label}: the plain attributes are restored on the algorithm instance (not on an object the agent name was re-bound to)",
              detail=f"at the restore loop `{agent}` may also be `{short(foreign[0], 60)}`: for a wrapped agent the loop then runs over the wrapper's attributes and the inner "
                     "algorithm's steps / scores / counters keep their constructor values" if foreign else "",
              construct=f"{label}: restore loop target")
    # the loaders leave the train / eval mode of the rebuilt networks alone (the mode is not part of a checkpoint; a switch applied by one loader only
    # leaves targets and critics in evaluation mode for good)
    mode_calls = [c for c in calls_in(fn.node, nested=True) if last_attr(c) in ("eval", "train", "requires_grad_") and isinstance(c.func, ast.Attribute)]
    ck.ob("C07.2", fn, mode_calls[0] if mode_calls else fn.node, not mode_calls, f"{label}: the loader does not switch the mode of the networks it restores",
          detail=f"`{short(mode_calls[0], 60)}`: networks that the algorithm never switches back (targets, critics) stay in that mode, so BatchNorm / noisy layers behave differently "
                 "from the original agent's during continued learning" if mode_calls else "", construct=f"{label}: mode switches")
    # hooks vs loads
    after = [h for h in hooks if h is not None and all(h.id in cfg.reachable_from(l) for l in loads)]
    weight_hooks = _weight_copying_hooks(repo)
    ck.note("weight_copying_hooks", weight_hooks)
    ck.ob("C07.2", fn, hooks[0].ast if hooks and hooks[0] is not None else fn.node, bool(after) or not weight_hooks,
          f"{label}: hooks that copy weights between networks (target re-sync, encoder tying) run after the saved weights were loaded",
          detail=f"mutation_hook() runs only before load_state_dict; weight-copying hooks registered by algorithms: {weight_hooks}: the copies are taken from the freshly "
                 "constructed (random) networks, so e.g. DQN's target and the tied encoders of DDPG/TD3/PPO critics differ from the restored online networks",
          construct=f"{label}: hook order relative to load_state_dict")


def _weight_copying_hooks(repo: Repo) -> List[str]:
    out = []
    for modname, cname in ALGOS:
        reg = extract(repo, modname, cname)
        for h in reg.hooks:
            m = reg.cls.methods.get(h.name)
            if m is None:
                continue
            src = ast.unparse(m.node)
            callee_src = ""
            for c in calls_in(m.node):
                f = repo.resolve(m.mod, call_name(c))
                if f is not None and hasattr(f, "node"):
                    callee_src += ast.unparse(f.node)
            if "to_module(" in src + callee_src or "load_state_dict(" in src + callee_src:
                out.append(f"{cname}.{h.name}")
    return out


def _completeness(ck: Check, repo: Repo) -> None:
    from .c08 import _paramless_modules
    n = 0
    for modname, cname in ALGOS:
        reg = extract(repo, modname, cname)
        pl = _paramless_modules(repo, reg.cls)
        for attr in reg.eval_attrs() + reg.shared_attrs():
            n += 1
            whole = attr in pl
            ck.ob("C07.3", reg.init, reg.init.node, not whole,
                  f"{cname}.{attr}: its weights are part of its state_dict() and hence of the checkpoint",
                  detail=f"`{attr}` receives a detached TensorDict via to_module() in a hook: it has no registered parameters, its state_dict() is empty, "
                         "so the checkpoint does not contain the target weights and the loaders skip it (`elif state_dict:`)",
                  construct=f"{cname}.{attr} saved")
    ck.floor("C07.3", n, 30, "registered networks over the 11 algorithms")


def _alias_attrs(ck: Check, repo: Repo, writer: Fn) -> None:
    # the writer drops values that are torch modules: some filter tests isinstance(<value>, torch.nn.Module)
    excludes_modules = has(writer, "isinstance($value, torch.nn.Module)") or has(writer, "isinstance($value, nn.Module)")
    n = 0
    for modname, cname in ALGOS:
        reg = extract(repo, modname, cname)
        nets = set(reg.eval_attrs() + reg.shared_attrs())
        for m in reg.cls.methods.values():
            for attr, vals in self_attr_stores(m).items():
                if attr.startswith("_") or attr.endswith("_"):
                    continue
                for v in vals:
                    if isinstance(v, ast.Call) and isinstance(v.func, ast.Attribute) and dotted(v.func.value).startswith("self.") and dotted(v.func.value)[5:] in nets \
                            and v.func.attr.startswith("get_"):
                        n += 1
                        ck.ob("C07.4", m, v, excludes_modules,
                              f"{cname}.{attr} (a layer of `{dotted(v.func.value)[5:]}`) is not saved as a pickled copy among the plain attributes",
                              detail=f"`{attr}` is a public attribute holding a sub-module; inspect_attributes() includes it, the loaders restore it with setattr after the "
                                     "hook re-derived it, so after loading it is a detached copy and no longer the network's own layer",
                              construct=f"{cname}.{attr} alias of a network layer")
    ck.floor("C07.4", n, 2, "alias attributes of network layers (bandit exp_layer)")


def _prefix(ck: Check, repo: Repo, fns) -> None:
    for fn in fns:
        roles = _Roles(fn)
        cfg = CFG(fn.node)
        prefix_of = {**roles.sel["modules"], **roles.sel["optimizers"]}  # selection local -> variables it was filtered with
        comps = [n for n in ast.walk(fn.node) if isinstance(n, ast.DictComp) and any("startswith" in ast.unparse(i) for g in n.generators for i in g.ifs)]
        # an entry read out of the WHOLE modules / optimizers dictionary needs no selection: there the exact key is the only way in
        direct = [(n, k) for n in ast.walk(fn.node) if not (isinstance(n, ast.Subscript) and not isinstance(n.ctx, ast.Load)) for kind in ("modules", "optimizers")
                  for k in [roles.entry_key(n, kind)] if k is not None and _key_read(n, set(roles.sel[kind])) is None]
        ck.floor("C07.5", len(comps) + len(direct), 3, f"{fn.name}: prefix selections")
        for n, k in direct:
            ck.ob("C07.5", fn, n, _fsuffix(k) is not None, f"{fn.name}: an entry taken from the whole dictionary is read with the exact key f\"{{name}}_…\"")
        for n in ast.walk(fn.node):
            if isinstance(n, ast.Subscript) and isinstance(n.value, ast.Name) and n.value.id in prefix_of and isinstance(n.ctx, ast.Load):
                # the selection(s) that reach this read, and the variable each was filtered with
                at = cfg.node_of(n)
                sels = [roles.selection(v) for v in (cfg.value_of_def(d, n.value.id) for d in (cfg.defs_reaching(at, n.value.id) if at is not None else []))]
                want = {s[1] for s in sels if s is not None} if sels and all(s is not None for s in sels) else set()
                ck.ob("C07.5", fn, n, _fsuffix(n.slice) is not None and len(want) == 1 and dotted(n.slice.values[0].value) in want,
                      f"{fn.name}: entries selected by prefix are read with the exact key f\"{{name}}_…\" (a longer name sharing the prefix cannot be picked up)")
        for n in ast.walk(fn.node):
            if isinstance(n, ast.Call) and isinstance(n.func, ast.Attribute) and n.func.attr in ("values", "items") and isinstance(n.func.value, ast.Name) and n.func.value.id in prefix_of:
                ck.ob("C07.5", fn, n, False, f"{fn.name}: the prefix-selected dictionary is never iterated as a whole")


def _wrapper(ck: Check, repo: Repo) -> None:
    sv = repo.fn(WR, "AgentWrapper.save_checkpoint")
    ld = repo.fn(WR, "AgentWrapper.load_checkpoint")
    # save: <checkpoint> = get_checkpoint_dict(self.agent); <checkpoint>["wrapper_..."] appear
    saved = {n for n, v in _bindings(sv.node) if isinstance(v, ast.Call) and call_name(v) == "get_checkpoint_dict" and [dotted(a) for a in v.args] == ["self.agent"]}
    keys = {const_value(_key_read(x, saved)) for x in ast.walk(sv.node) if isinstance(x, ast.Subscript)}
    ck.ob("C07.1", sv, sv.node, bool(saved) and {"wrapper_cls", "wrapper_init_dict", "wrapper_attrs"} <= keys,
          "a wrapped agent's checkpoint contains the agent's checkpoint plus the wrapper's class, constructor arguments and attributes", construct="wrapper save")
    # load: the wrapped agent loads the same file, then every saved wrapper attribute is set on the wrapper
    inner = any(call_name(c) == "self.agent.load_checkpoint" and [dotted(a) for a in c.args] == ["path"] and not c.keywords for c in calls_in(ld.node))
    ck.ob("C07.1", ld, ld.node, inner and has(ld, "for $key, $value in $checkpoint['wrapper_attrs'].items():\n    setattr(self, $key, $value)"),
          "loading into a wrapper restores the wrapped agent and then the wrapper's attributes", construct="wrapper load")
    # load(): <cls> / <init> / <attrs> = <checkpoint>.get("wrapper_..."); <agent> = <cls>(<agent>, **<init>); setattr(<agent>, a, <attrs>[a]) for every a
    load = repo.fn(BASE, "EvolvableAlgorithm.load")
    roles = _Roles(load)
    agent = roles.agent
    w_cls = _bound_to_key(load.node, roles.ckpt, "wrapper_cls")
    w_init = _bound_to_key(load.node, roles.ckpt, "wrapper_init_dict")
    w_attrs = _bound_to_key(load.node, roles.ckpt, "wrapper_attrs")
    rewrapped = any(isinstance(c.func, ast.Name) and c.func.id in w_cls and [dotted(a) for a in c.args] == [agent] and len(c.keywords) == 1 and c.keywords[0].arg is None
                    and dotted(c.keywords[0].value) in w_init for c in calls_in(load.node))
    attrs_set = any(call_name(c) == "setattr" and len(c.args) == 3 and dotted(c.args[0]) == agent and isinstance(c.args[1], ast.Name) and isinstance(c.args[2], ast.Subscript)
                    and isinstance(_key_read(c.args[2], w_attrs), ast.Name) and _key_read(c.args[2], w_attrs).id == c.args[1].id for c in calls_in(load.node))
    ck.ob("C07.1", load, load.node, rewrapped and bool(w_init) and attrs_set,
          "load() re-creates the wrapper around the restored agent with its saved constructor arguments and attributes", construct="load re-wraps")


_BF = "agilerl/algorithms/core/base.py"
_WF = "agilerl/wrappers/agent.py"
# get_checkpoint_dict: the loop header and the module branch as written today, and the same loop in one-pass form (items() loop, early `continue`
# for optimizers, flat if / elif / else) — the second is what a tidy-up of the function produces
_W_HEAD = "    for attr in agent.evolvable_attributes():\n        obj: EvolvableAttributeType = getattr(agent, attr)\n"
_W_TAIL = ("                    f\"{attr}_multiagent\": obj.multiagent,\n                }\n            )\n"
           "        elif isinstance(obj, (OptimizedModule, EvolvableModule)) or is_module_list(obj):\n            if is_module_list(obj):\n                obj_list = obj\n"
           "                obj_cls = [\n                    (\n                        m._orig_mod.__class__\n                        if isinstance(m, OptimizedModule)\n"
           "                        else m.__class__\n                    )\n                    for m in obj_list\n                ]\n"
           "                init_dict = [m.init_dict for m in obj_list]\n                state_dict = [remove_compile_prefix(m.state_dict()) for m in obj_list]\n"
           "            else:\n                obj_list = [obj]\n                obj_cls = (\n                    obj._orig_mod.__class__\n"
           "                    if isinstance(obj, OptimizedModule)\n                    else obj.__class__\n                )\n"
           "                init_dict = obj.init_dict\n                state_dict = remove_compile_prefix(obj.state_dict())\n\n"
           "            network_info[\"modules\"].update(\n                {\n                    f\"{attr}_cls\": obj_cls,\n                    f\"{attr}_init_dict\": init_dict,\n"
           "                    f\"{attr}_state_dict\": state_dict,\n                }\n            )\n        else:\n            raise TypeError(\n                f\"Something went wrong. Identified '{attr}' as an evolvable module \"\n                f\"when it is of type {type(obj)}.\"\n            )\n")
_W_FLAT = ("                    f\"{attr}_multiagent\": obj.multiagent,\n                }\n            )\n            continue\n\n"
           "        if is_module_list(obj):\n            obj_cls = [m._orig_mod.__class__ if isinstance(m, OptimizedModule) else m.__class__ for m in obj]\n"
           "            init_dict = [m.init_dict for m in obj]\n            state_dict = [remove_compile_prefix(m.state_dict()) for m in obj]\n"
           "        elif isinstance(obj, (OptimizedModule, EvolvableModule)):\n"
           "            obj_cls = obj._orig_mod.__class__ if isinstance(obj, OptimizedModule) else obj.__class__\n"
           "            init_dict = obj.init_dict\n            state_dict = remove_compile_prefix(obj.state_dict())\n%s"
           "        else:\n            raise TypeError(\n                f\"Something went wrong. Identified '{attr}' as an evolvable module \"\n                f\"when it is of type {type(obj)}.\"\n            )\n\n"
           "        network_info[\"modules\"].update(\n            {\n                f\"{attr}_cls\": obj_cls,\n                f\"{attr}_init_dict\": init_dict,\n"
           "                f\"{attr}_state_dict\": state_dict,\n            }\n        )\n")
_W_UPDATE = ("            network_info[\"modules\"].update(\n                {\n                    f\"{attr}_cls\": obj_cls,\n                    f\"{attr}_init_dict\": init_dict,\n"
             "                    f\"{attr}_state_dict\": state_dict,\n                }\n            )\n")
# the two loaders in other, equivalent forms (C07.1 key agreement, C07.2 phases / pairing, C07.5)
_L_HEAD = ("        network_names = network_info[\"network_names\"]\n        for name in network_names:\n            net_dict = {\n"
           "                k: v for k, v in network_info[\"modules\"].items() if k.startswith(name)\n            }\n\n            module_cls = net_dict[f\"{name}_cls\"]\n")
_L_HEAD_HOISTED = ("        network_names = network_info[\"network_names\"]\n        saved = network_info[\"modules\"]\n        for name in network_names:\n"
                   "            net_dict = {k: v for k, v in saved.items() if k.startswith(name)}\n\n            module_cls = net_dict[f\"{name}%s\"]\n")
_L_REBUILD = ("            if isinstance(module_cls, list):\n                loaded_modules = []\n                for mod, d in zip(module_cls, init_dict):\n"
              "                    loaded_mod: EvolvableModule = mod(**d)\n                    loaded_modules.append(loaded_mod)\n\n"
              "                setattr(self, name, loaded_modules)\n            else:\n                loaded_module: EvolvableModule = module_cls(**init_dict)\n"
              "                setattr(self, name, loaded_module)\n")
_L_REBUILD_EXPR = ("            rebuilt = (\n                [m(**kw) for m, kw in zip(module_cls, %s)]\n                if isinstance(module_cls, list)\n"
                   "                else module_cls(**init_dict)\n            )\n            setattr(self, name, rebuilt)\n")
_L_STATE = ("            state_dict = net_dict[f\"{name}_state_dict\"]\n            if isinstance(loaded_module, list):\n"
            "                for loaded_mod, state in zip(loaded_module, state_dict):\n                    if state:\n                        loaded_mod.load_state_dict(state)\n"
            "            elif state_dict:\n                loaded_module.load_state_dict(state_dict)\n\n        # Reconstruct optimizers in algorithm")
_L_STATE_MERGED = ("            state_dict = net_dict[f\"{name}_state_dict\"]\n%s"
                   "            for loaded_mod, state in zip(loaded_module, state_dict):\n                if state:\n                    loaded_mod.load_state_dict(state)\n\n"
                   "        # Reconstruct optimizers in algorithm")
VARIANTS = [
    ("loader-keeps-networks-that-fit", "agilerl/algorithms/core/base.py", "        network_names = network_info[\"network_names\"]\n        for name in network_names:\n            net_dict = {\n                k: v for k, v in network_info[\"modules\"].items() if k.startswith(name)\n            }\n\n            module_cls = net_dict[f\"{name}_cls\"]",
     "        network_names = network_info[\"network_names\"]\n        rebuild = not all(hasattr(self, name) for name in network_names)\n        for name in network_names if rebuild else []:\n            net_dict = {\n                k: v for k, v in network_info[\"modules\"].items() if k.startswith(name)\n            }\n\n            module_cls = net_dict[f\"{name}_cls\"]", "fire", "C07.12"),
    ("registry-eq-compares-hp-config", "agilerl/algorithms/core/registry.py", "        return self.groups == other.groups and self.optimizers == other.optimizers", "        return self.groups == other.groups and self.optimizers == other.optimizers and self.hp_config.config == other.hp_config.config", "fire", "C07.13"),
    ("registry-eq-compares-hooks-ok", "agilerl/algorithms/core/registry.py", "        return self.groups == other.groups and self.optimizers == other.optimizers", "        return self.groups == other.groups and self.optimizers == other.optimizers and self.hooks == other.hooks", "silent", None),

    ("ilql-q2-entry-stores-q", "agilerl/algorithms/ilql.py", "                \"q2_state_dict\": self.q2.state_dict() if self.double_q else None,", "                \"q2_state_dict\": self.q.state_dict() if self.double_q else None,", "fire", "C07.11"),
    ("load-puts-networks-in-eval-mode", _BF, "            elif state_dict:\n                loaded_module.load_state_dict(state_dict)\n\n        # Reconstruct optimizers in algorithm", "            elif state_dict:\n                loaded_module.load_state_dict(state_dict)\n                loaded_module.eval()\n\n        # Reconstruct optimizers in algorithm", "fire", "C07.2"),
    ("noisy-buffers-non-persistent", "agilerl/modules/custom_components.py", "        self.register_buffer(\"bias_epsilon\", torch.empty(out_features, device=device))", "        self.register_buffer(\"bias_epsilon\", torch.empty(out_features, device=device), persistent=False)", "fire", "C07.10"),
    ("bandit-theta0-in-graph", "agilerl/algorithms/neural_ucb_bandit.py", "            [w.flatten() for w in self.exp_layer.parameters() if w.requires_grad]\n        ).detach()", "            [w.flatten() for w in self.exp_layer.parameters() if w.requires_grad]\n        )", "fire", "C07.9"),
    ("bandit-theta0-no-grad-block-ok", "agilerl/algorithms/neural_ucb_bandit.py", "        self.theta_0 = torch.cat(\n            [w.flatten() for w in self.exp_layer.parameters() if w.requires_grad]\n        ).detach()", "        with torch.no_grad():\n            self.theta_0 = torch.cat(\n                [w.flatten() for w in self.exp_layer.parameters() if w.requires_grad]\n            )", "silent", None),
    ("multi-input-output-activation-not-described", "agilerl/modules/multi_input.py", "            self.output_activation = activation\n            self.output = get_activation(activation)", "            self.output = get_activation(activation)", "fire", "C07.8"),
    ("mlp-activation-not-described", "agilerl/modules/mlp.py", "        self.activation = activation\n        self.recreate_network()\n\n    @mutation(MutationType.LAYER)\n    def add_layer", "        self.recreate_network()\n\n    @mutation(MutationType.LAYER)\n    def add_layer", "fire", "C07.8"),
    ("optimizer-lr-overwritten-after-load", "agilerl/algorithms/core/wrappers.py", "            self.optimizer.load_state_dict(state_dict)\n\n    def state_dict(self)", "            self.optimizer.load_state_dict(state_dict)\n            for param_group in self.optimizer.param_groups:\n                param_group[\"lr\"] = self.lr\n\n    def state_dict(self)", "fire", "C07.6"),
    ("hook-after-attribute-restore", "agilerl/algorithms/core/base.py", "        for attribute in checkpoint.keys():\n            setattr(self, attribute, checkpoint[attribute])\n", "        for attribute in checkpoint.keys():\n            setattr(self, attribute, checkpoint[attribute])\n\n        self.mutation_hook()\n", "fire", "C07.6"),
    ("td3-private-learn-counter", "agilerl/algorithms/td3.py", "        self.learn_counter += 1", "        self._learn_counter += 1", "fire", "C07.7"),
    ("td3-counter-explicit-sum-ok", "agilerl/algorithms/td3.py", "        self.learn_counter += 1", "        self.learn_counter = self.learn_counter + 1", "silent", None),
    ("writer-drops-lr-key", _BF, "                    f\"{attr}_lr\": obj.lr_name,\n", "", "fire", "C07.1"),
    ("writer-renames-key", _BF, "                    f\"{attr}_init_dict\": init_dict,\n", "                    f\"{attr}_config\": init_dict,\n", "fire", "C07.1"),
    ("load-optimizer-before-weights", _BF, "        # Reconstruct optimizers in algorithm\n        optimizer_names = network_info[\"optimizer_names\"]\n        loaded_optimizers = {}\n", "        optimizer_names = network_info[\"optimizer_names\"]\n        loaded_optimizers = {}\n", "silent", None),
    ("load-cp-skip-opt-state", _BF, "            # Load optimizer state\n            optimizer.load_state_dict(opt_dict[f\"{name}_state_dict\"])\n", "", "fire", "C07.2"),
    ("load-opt-over-old-nets", _BF, "                else [loaded_modules[net] for net in opt_networks]\n", "                else [getattr(cls, net, None) for net in opt_networks]\n", "fire", "C07.2"),
    ("load-cp-lr-constant", _BF, "                lr=getattr(self, opt_lr),\n", "                lr=1e-3,\n", "fire", "C07.2"),
    ("load-cp-attrs-not-restored", _BF, "        checkpoint.pop(\"network_info\")\n        for attribute in checkpoint.keys():\n            setattr(self, attribute, checkpoint[attribute])\n", "        checkpoint.pop(\"network_info\")\n", "fire", "C07.2"),
    ("load-cp-iterate-prefix-dict", _BF, "            module_cls = net_dict[f\"{name}_cls\"]\n            init_dict = net_dict[f\"{name}_init_dict\"]\n            if isinstance(module_cls, list):\n                loaded_modules = []",
     "            module_cls = list(net_dict.values())[0]\n            init_dict = net_dict[f\"{name}_init_dict\"]\n            if isinstance(module_cls, list):\n                loaded_modules = []", "fire", "C07"),
    ("wrapper-attrs-not-restored", _WF, "        for key, value in checkpoint[\"wrapper_attrs\"].items():\n            setattr(self, key, value)\n", "", "fire", "C07.1"),
    ("state-before-rebuild", _BF, "                loaded_module: EvolvableModule = module_cls(**init_dict)\n                setattr(self, name, loaded_module)\n\n        # Apply mutation hooks", "                pass\n\n        # Apply mutation hooks", "fire", "C07.2"),
    # get_checkpoint_dict in other, equivalent forms (C07.1 "writer covers evolvable attributes" / "writer module fields")
    ("writer-items-loop-ok", _BF, _W_HEAD, "    for attr, obj in agent.evolvable_attributes().items():\n", "silent", None),
    ("writer-items-loop-networks-only", _BF, _W_HEAD, "    for attr, obj in agent.evolvable_attributes(networks_only=True).items():\n", "fire", "C07.1"),
    ("writer-attributes-held-in-a-local-ok", _BF, _W_HEAD, "    found = agent.evolvable_attributes()\n    for attr in found.keys():\n        obj = found[attr]\n", "silent", None),
    ("writer-one-pass-guard-clauses-ok", _BF, _W_TAIL, _W_FLAT % "", "silent", None),
    ("writer-one-pass-single-modules-skipped", _BF, _W_TAIL, _W_FLAT % "            continue\n", "fire", "C07.1"),
    ("writer-saves-module-lists-only", _BF, _W_UPDATE, "            if is_module_list(obj):\n" + _W_UPDATE.replace("\n    ", "\n        ").replace("            network_info", "                network_info", 1), "fire", "C07.1"),
    ("writer-init-dicts-collected-by-loop-ok", _BF, "                init_dict = [m.init_dict for m in obj_list]\n",
     "                init_dict = []\n                for m in obj_list:\n                    init_dict.append(m.init_dict)\n", "silent", None),
    ("writer-init-dict-of-first-element", _BF, "                init_dict = [m.init_dict for m in obj_list]\n", "                init_dict = [obj_list[0].init_dict for m in obj_list]\n", "fire", "C07.1"),
    ("writer-module-weights-of-another-network", _BF, "                state_dict = remove_compile_prefix(obj.state_dict())\n",
     "                state_dict = remove_compile_prefix(agent.actor.state_dict())\n", "fire", "C07.1"),
    ("writer-state-dict-through-temporary-ok", _BF, "                state_dict = remove_compile_prefix(obj.state_dict())\n",
     "                module = obj\n                raw = module.state_dict()\n                state_dict = remove_compile_prefix(raw)\n", "silent", None),
    ("load-cp-modules-dictionary-in-a-local-ok", _BF, _L_HEAD, _L_HEAD_HOISTED % "_cls", "silent", None),
    ("load-cp-modules-dictionary-in-a-local-unwritten-key", _BF, _L_HEAD, _L_HEAD_HOISTED % "_class", "fire", "C07.1"),
    ("load-cp-rebuild-as-conditional-expression-ok", _BF, _L_REBUILD, _L_REBUILD_EXPR % "init_dict", "silent", None),
    ("load-cp-rebuild-expression-pairs-reversed", _BF, _L_REBUILD, _L_REBUILD_EXPR % "reversed(init_dict)", "fire", "C07.2"),
    ("load-state-single-network-wrapped-in-a-list-ok", _BF, _L_STATE,
     _L_STATE_MERGED % "            if not isinstance(loaded_module, list):\n                loaded_module, state_dict = [loaded_module], [state_dict]\n", "silent", None),
    ("load-state-lists-only", _BF, _L_STATE, _L_STATE_MERGED % "            if not isinstance(loaded_module, list):\n                continue\n", "fire", "C07.2"),
    ("load-state-read-from-the-whole-dictionary-ok", _BF, _L_STATE, _L_STATE.replace("net_dict[f\"{name}_state_dict\"]", "network_info[\"modules\"][f\"{name}_state_dict\"]"), "silent", None),
    ("load-state-read-from-the-whole-dictionary-by-bare-name", _BF, _L_STATE, _L_STATE.replace("net_dict[f\"{name}_state_dict\"]", "network_info[\"modules\"][name]"), "fire", "C07"),
]
