"""C10.6 (helper module of c10), added after the fifth round of seeded changes.

* C10.6  `MultiStepReplayBuffer.clear` starts a new stream: on every path through it the n-step window is EMPTIED — `.clear()` on the window, or
         the window attribute re-bound to a freshly constructed deque that is not filled from anything — and the 1-step storage of the base
         class is reset as well (base `clear` called, or every attribute the base `clear` resets is re-assigned).  `deque(old, maxlen=n)`
         resizes a deque but KEEPS its contents: the first fused row after `clear()` then starts from an (observation, action) observed
         before the clear and sums rewards across it ("nothing that happened after a terminal step / in another stream is mixed in"), and
         the k-th n-step row no longer describes the k-th 1-step row stored alongside.
"""
from __future__ import annotations

import ast
from typing import List, Optional, Set

from ..cfg import CFG, Node
from ..core import Cls, Repo, call_name, dotted, short
from ..report import Check
from ..util import self_attr_stores

RB = "agilerl.components.replay_buffer"


def _window_attr(cls: Cls) -> Optional[str]:
    """the attribute the constructor binds to a deque (the n-step window)."""
    init = cls.methods.get("__init__")
    if init is None:
        return None
    for attr, vals in self_attr_stores(init).items():
        if any(isinstance(v, ast.Call) and call_name(v).split(".")[-1] == "deque" for v in vals):
            return attr
    return None


def _resolve(cfg: CFG, at: Node, e: ast.AST, depth: int = 0) -> List[ast.AST]:
    """the expressions a local name may stand for at `at` (conditional expressions / several reaching definitions: all alternatives)."""
    if isinstance(e, ast.IfExp):
        return _resolve(cfg, at, e.body, depth + 1) + _resolve(cfg, at, e.orelse, depth + 1)
    if isinstance(e, ast.Name) and depth < 4:
        out: List[ast.AST] = []
        for d in cfg.defs_reaching(at, e.id):
            v = cfg.value_of_def(d, e.id)
            out += _resolve(cfg, d, v, depth + 1) if v is not None else [e]
        return out or [e]
    return [e]


def _is_window(cfg: CFG, at: Node, e: ast.AST, window: str) -> bool:
    alts = _resolve(cfg, at, e)
    return bool(alts) and all(dotted(a) == f"self.{window}" for a in alts)


def _empty_literal(e: ast.AST) -> bool:
    if isinstance(e, (ast.List, ast.Tuple, ast.Set)):
        return not e.elts
    if isinstance(e, ast.Dict):
        return not e.keys
    if isinstance(e, ast.Constant):
        return e.value in ("", b"")
    if isinstance(e, ast.Call) and call_name(e) in ("list", "tuple", "iter") and not e.keywords:
        return not e.args or (len(e.args) == 1 and _empty_literal(e.args[0]))
    return False


def _fresh_empty(cfg: CFG, at: Node, e: ast.AST) -> Optional[str]:
    """None when every alternative of e is a newly constructed deque that is filled from nothing; otherwise the reason."""
    for a in _resolve(cfg, at, e):
        if not (isinstance(a, ast.Call) and call_name(a).split(".")[-1] == "deque"):
            return f"`{short(a, 70)}` is not a newly constructed deque"
        if any(isinstance(x, ast.Starred) for x in a.args) or any(k.arg is None for k in a.keywords):
            return f"`{short(a, 70)}` is constructed from splatted arguments"
        fill = a.args[0] if a.args else next((k.value for k in a.keywords if k.arg == "iterable"), None)
        if fill is not None and not all(_empty_literal(f) for f in _resolve(cfg, at, fill)):
            return f"`{short(a, 70)}` is filled from `{short(fill, 50)}` — a deque built from the old window keeps its transitions"
    return None


def _base_clear_call(x: ast.AST, bases: Set[str], mname: str) -> bool:
    """super().<m>() / super(C, self).<m>() / <Base>.<m>(self)"""
    if not (isinstance(x, ast.Call) and isinstance(x.func, ast.Attribute) and x.func.attr == mname):
        return False
    r = x.func.value
    if isinstance(r, ast.Call) and call_name(r) == "super":
        return True
    return dotted(r).split(".")[-1] in bases and bool(x.args) and dotted(x.args[0]) == "self"


def _clear_resets_window(ck: Check, repo: Repo) -> None:
    ck.rule("C10.6", "MultiStepReplayBuffer.clear starts a new stream: on every path the n-step window is emptied (.clear() on it, or re-bound to a newly "
                     "constructed deque that is filled from nothing) and the 1-step storage of the base class is reset — transitions kept across a clear "
                     "would be fused with rewards of the next stream and shift the n-step rows against the 1-step rows")
    cls = repo.cls(RB, "MultiStepReplayBuffer")
    window = _window_attr(cls)
    ck.floor("C10.6", 1 if window else 0, 1, "n-step window attribute (a deque bound by the constructor)")
    if not window:
        return
    mod = cls.mod
    base_names = {dotted(b).split(".")[-1] for b in cls.base_exprs if dotted(b)}
    base_clear = next((mod.classes[b].methods["clear"] for b in sorted(base_names) if b in mod.classes and "clear" in mod.classes[b].methods), None)
    ck.floor("C10.6", 1 if base_clear is not None else 0, 1, "clear() of the 1-step base buffer")
    clr = cls.methods.get("clear")
    # the inherited clear() knows nothing about the window: the n-step buffer must override it
    ck.ob("C10.6", clr, cls.node if clr is None else clr.node, clr is not None, "the n-step buffer overrides clear() (the inherited one leaves the window filled)",
          construct="MultiStepReplayBuffer.clear", file=mod.rel, qualname="MultiStepReplayBuffer.clear")
    if clr is None or base_clear is None:
        return
    cfg = CFG(clr.node)
    emptied: Set[int] = set()
    rebinds = 0
    for n in cfg.live_nodes():
        for x in n.walk():
            # <window>.clear()
            if isinstance(x, ast.Call) and isinstance(x.func, ast.Attribute) and x.func.attr == "clear" and not x.args and _is_window(cfg, n, x.func.value, window):
                emptied.add(n.id)
        if n.kind == "stmt" and isinstance(n.ast, (ast.Assign, ast.AnnAssign)):
            v = cfg.value_of_def(n, f"self.{window}")
            if v is not None:
                rebinds += 1
                why = _fresh_empty(cfg, n, v)
                if ck.ob("C10.6", clr, n.ast, why is None, "a window re-bound by clear() is a newly constructed deque filled from nothing", detail=why or "",
                         construct=f"clear: self.{window} = {short(v, 80)}"):
                    emptied.add(n.id)
    leak = cfg.path_avoiding(cfg.entry, {cfg.exit.id}, emptied)
    ck.ob("C10.6", clr, clr.node, leak is None, "every path through clear() empties the n-step window",
          detail="" if leak is None else f"a path returns with the window still holding pre-clear transitions (via lines {[p.lineno for p in leak if p.lineno][:6]}); "
                                         f"emptying statements found: {len(emptied)}, re-bindings: {rebinds}",
          construct=f"clear: self.{window} emptied on every path")
    # 1-step storage: base clear called on every path, or every attribute it resets re-assigned on every path
    calls = {n.id for n in cfg.live_nodes() if any(_base_clear_call(x, base_names, "clear") for x in n.walk())}
    reset_attrs = sorted(self_attr_stores(base_clear))
    ck.floor("C10.6", len(reset_attrs), 2, "attributes reset by the base clear()", fn=base_clear)
    missing = []
    for a in reset_attrs:
        stores = {n.id for n in cfg.live_nodes() if n.kind == "stmt" and cfg.value_of_def(n, f"self.{a}") is not None}
        if cfg.path_avoiding(cfg.entry, {cfg.exit.id}, calls | stores) is not None:
            missing.append(a)
    ck.ob("C10.6", clr, clr.node, not missing, "every path through clear() also resets the 1-step storage (base clear(), or each attribute it resets)",
          detail="" if not missing else f"a path leaves {missing} of the 1-step buffer untouched: the two buffers are no longer filled alongside each other",
          construct="clear: 1-step storage reset on every path")


def run_r5(ck: Check, repo: Repo) -> None:
    _clear_resets_window(ck, repo)
