"""C13.6 – C13.7 (helper module of c13), added after the third round of seeded changes.

Both serve the last clause of the property: "... a timeout is reported as a timeout, and in every case close() returns promptly and leaves no
worker process alive".

* C13.6  `close()` is the only public way to `close_extras()`: every shutdown option the asynchronous environment's close_extras takes (`timeout`,
          `terminate`) can be given to `PettingZooVecEnv.close` and reaches the `self.close_extras(...)` call there — inside `**kwargs` that are
          passed on, or as an explicit argument whose value depends on close()'s own parameter of that name.  An option that is accepted and then
          not handed on is silently replaced by close_extras' default: `close(timeout=t)` with a call pending on a hung worker then waits without
          limit instead of terminating the workers after t seconds.
* C13.7  inside close_extras, reaping a worker (`<process>.terminate()` / `<process>.join()`, <process> an element of `self.processes`) is conditional
          at most on that worker's own state.  A test on anything else on the way from the loop header to the call — in particular on the worker's
          pipe, whose slot is None exactly for the workers that failed — leaves those workers out: close() returns while they are alive.
"""
from __future__ import annotations

import ast
from typing import List, Optional, Set

from ..cfg import CFG, Node
from ..core import Fn, Repo, call_name, calls_in, const_value, get_kw, short
from ..report import Check
from .c13 import AV, PV, _elem_vars, _loops_over, _method_calls_on


# ------------------------------------------------------------------------------------------------------------------- data dependence on a parameter
def _depends_on_param(cfg: CFG, n: Optional[Node], e: Optional[ast.AST], param: str, seen: Optional[Set] = None) -> bool:
    """The value of e at node n is computed from parameter `param` of the function (through any number of local copies / expressions)."""
    seen = set() if seen is None else seen
    if n is None or e is None:
        return False
    for x in ast.walk(e):
        if not (isinstance(x, ast.Name) and isinstance(x.ctx, ast.Load)) or (n.id, x.id) in seen:
            continue
        seen.add((n.id, x.id))
        for d in cfg.defs_reaching(n, x.id):
            if d.kind == "entry":
                if x.id == param:
                    return True
                continue
            v = cfg.value_of_def(d, x.id)
            if v is not None and _depends_on_param(cfg, d, v, param, seen):
                return True
            if v is None and d.kind == "stmt" and isinstance(d.ast, ast.AugAssign) and _depends_on_param(cfg, d, d.ast.value, param, seen):
                return True
    return False


def _mapping_entry(cfg: CFG, n: Optional[Node], e: ast.AST, key: str, depth: int = 0) -> Optional[tuple]:
    """(node, value) of entry `key` of the mapping unpacked by `**e`, when e is a dict display, a dict(...) call with keywords or a local bound once to
    one of these."""
    if n is None or depth > 4:
        return None
    if isinstance(e, ast.Dict):
        for k, v in zip(e.keys, e.values):
            if k is not None and const_value(k) == key:
                return n, v
            if k is None:
                r = _mapping_entry(cfg, n, v, key, depth + 1)
                if r is not None:
                    return r
        return None
    if isinstance(e, ast.Call) and call_name(e) == "dict":
        for k in e.keywords:
            if k.arg == key:
                return n, k.value
            if k.arg is None:
                r = _mapping_entry(cfg, n, k.value, key, depth + 1)
                if r is not None:
                    return r
        return None
    if isinstance(e, ast.Name):
        ds = cfg.defs_reaching(n, e.id)
        if len(ds) == 1 and cfg.value_of_def(ds[0], e.id) is not None:
            return _mapping_entry(cfg, ds[0], cfg.value_of_def(ds[0], e.id), key, depth + 1)
    return None


def _options_reach_close_extras(ck: Check, repo: Repo) -> None:
    ck.rule("C13.6", "every shutdown option of AsyncPettingZooVecEnv.close_extras (timeout, terminate) is accepted by PettingZooVecEnv.close and handed on to "
                     "self.close_extras(...): within **kwargs that are passed on, or as an argument computed from close()'s own parameter of that name "
                     "(a dropped `timeout` makes close() wait without limit for a pending call on a hung worker)")
    impl = repo.fn(AV, "AsyncPettingZooVecEnv.close_extras")
    base = repo.fn(PV, "PettingZooVecEnv.close")
    options = impl.named_params[1:]
    ck.floor("C13.6", len(options), 2, "shutdown options of AsyncPettingZooVecEnv.close_extras (timeout, terminate)")
    cfg = CFG(base.node)
    calls = [c for c in calls_in(base.node) if call_name(c) == "self.close_extras"]
    ck.floor("C13.6", len(calls), 1, "call of self.close_extras(...)", fn=base)
    own = base.named_params[1:]
    star = base.node.args.kwarg.arg if base.node.args.kwarg is not None else None
    for c in calls:
        n = cfg.node_of(c)
        for pos, p in enumerate(options):
            given = get_kw(c, p, pos)
            at = n
            if given is None:
                for k in c.keywords:
                    r = _mapping_entry(cfg, n, k.value, p) if k.arg is None else None
                    if r is not None:
                        at, given = r
            source = p if p in own else star
            if source is None:
                ok, why = False, f"close() has neither a parameter `{p}` nor **kwargs: the option cannot be given"
            elif given is not None:
                ok = _depends_on_param(cfg, at, given, source)
                why = f"`{p}` is given as `{short(given, 40)}`, which does not depend on close()'s `{source}`"
            else:
                # not named in the call: it travels inside a mapping computed from close()'s **kwargs (a named parameter of close() is not in there)
                ok = p not in own and any(k.arg is None and _depends_on_param(cfg, n, k.value, star) for k in c.keywords)
                why = (f"close() accepts `{p}` but the call does not pass it on" if p in own else f"close()'s **{star} are not passed on") + \
                    f": close_extras runs with its default for `{p}`"
            ck.ob("C13.6", base, c, ok, f"close(): the caller's `{p}` reaches close_extras", detail="" if ok else why, construct=f"close: option `{p}` handed to close_extras")


# ------------------------------------------------------------------------------------------------------------------- reaping is unconditional per worker
def _about_worker(cfg: CFG, n: Node, e: ast.AST, workers: Set[str], seen: Optional[Set] = None) -> bool:
    """Expression e (at node n) talks about the worker process only: every name in it is the loop's process variable, a global used as a callee, or a
    local all of whose reaching definitions are such expressions."""
    seen = set() if seen is None else seen
    callees = {id(x.func) for x in ast.walk(e) if isinstance(x, ast.Call)}
    for x in ast.walk(e):
        if not isinstance(x, ast.Name) or x.id in workers:
            continue
        ds = cfg.defs_reaching(n, x.id)
        if not ds:
            if id(x) in callees:
                continue  # isinstance(...), len(...)
            return False
        if (n.id, x.id) in seen:
            continue
        seen.add((n.id, x.id))
        for d in ds:
            v = None if d.kind == "entry" else cfg.value_of_def(d, x.id)
            if v is None or not _about_worker(cfg, d, v, workers, seen):
                return False
    return True


def _reaping_unconditional(ck: Check, repo: Repo) -> None:
    ck.rule("C13.7", "close_extras leaves no worker out: inside its loops over self.processes, `<process>.terminate()` and `<process>.join()` are conditional at most "
                     "on that worker's own state — no test between the loop header and the call looks at anything else (the worker's pipe is None exactly when "
                     "the worker failed; such a worker must still be terminated / joined before close() returns)")
    fn = repo.fn(AV, "AsyncPettingZooVecEnv.close_extras")
    cfg = CFG(fn.node)
    pipes = _elem_vars(fn.node, "parent_pipes")
    sites = {"terminate": 0, "join": 0}
    for loop, workers in _loops_over(fn.node, "processes"):
        inside = {id(x) for x in ast.walk(loop)}
        for meth in ("terminate", "join"):
            for c in _method_calls_on(loop, workers, meth):
                n = cfg.node_of(c)
                if n is None:
                    continue
                sites[meth] += 1
                foreign: List[str] = []
                for test, pol, tn in cfg.guards_at(n):
                    if id(tn.stmt) in inside and not _about_worker(cfg, tn, test, workers):
                        on_pipe = any(isinstance(x, ast.Name) and x.id in pipes for x in ast.walk(test)) or "parent_pipes" in ast.unparse(test)
                        foreign.append(f"`{short(test, 50)}` is {'true' if pol else 'false'}" + (" (the worker's pipe: None after the worker failed)" if on_pipe else ""))
                ck.ob("C13.7", fn, c, not foreign, f"close_extras: every worker is {'joined' if meth == 'join' else 'terminated'}, whatever the state of its pipe",
                      detail="" if not foreign else f"`{short(c, 40)}` only runs when " + " and ".join(foreign) + ": the other workers are still alive when close() returns",
                      construct=f"close_extras: {short(c, 60)} for every element of self.processes")
    ck.floor("C13.7", sites["join"], 1, "`<process>.join()` in a loop over self.processes", fn=fn)
    ck.floor("C13.7", sites["terminate"], 1, "`<process>.terminate()` in a loop over self.processes", fn=fn)


def run_r3b(ck: Check, repo: Repo) -> None:
    _options_reach_close_extras(ck, repo)
    _reaping_unconditional(ck, repo)
