"""C11.8 – C11.9 (helper module of c11), added after the third round of seeded changes.

* C11.8  `update_priorities` hands EVERY (index, priority) pair of the call to `_update_priority`, one after the other: the call is evaluated
         in every iteration of the loop over the pairs (no path through the loop body goes round it, it is not the guarded half of a
         conditional expression), the loop is never left early (no break / return in its body), the index written is the pair's index and the
         priority written is computed from the pair's priority.  Only then does the LAST priority given for a repeated index end up in both trees
         (sampling proportional to priority_i^alpha "after priorities are updated ... including repeated indices") and does every priority of
         the call count for `max_priority` ("highest priority seen so far").  A loop that skips an index it has already seen keeps the FIRST
         priority and drops a larger later one.
* C11.9  the importance weights are materialised and returned in a FIXED floating type at least as wide as float32: every tensor constructor and
         every cast on the def-use chain from the per-index weights to what `_calculate_weights` returns, and from there to `batch["weights"]` in
         `sample`, either names no dtype (the default, float32) or names float32 / float64 as a constant.  A dtype read from the buffer's
         configuration (`self.dtype`, the storage type the constructor accepts), a half-precision type or an integer type rounds
         (N P(i))^-beta / max_j (N P(j))^-beta away from the formula and lets small weights underflow to exactly 0, outside (0, 1].
"""
from __future__ import annotations

import ast
from typing import List, Optional, Tuple

from ..cfg import CFG, Node
from ..core import Repo, call_name, calls_in, const_value, dotted, get_kw, last_attr, short, walk_no_nested
from ..report import Check
from ..terms import ADAPTER_FUNCS, ADAPTER_METHODS, Poly, TermBuilder, mentions, single_atom

RB = "agilerl.components.replay_buffer"


# ---------------------------------------------------------------------------------------------------------------- C11.8
def _in_body(loop: ast.AST, s: Optional[ast.AST]) -> bool:
    return s is not None and any(x is s for b in loop.body for x in ast.walk(b))


def _enclosing_loop(cfg: CFG, n: Node) -> Optional[Node]:
    """the innermost loop (its head node) whose body contains the statement of `n`."""
    best: Optional[Node] = None
    for l in cfg.live_nodes():
        if (l.kind == "for" or (l.kind == "test" and isinstance(l.stmt, ast.While))) and _in_body(l.stmt, n.stmt):
            if best is None or _in_body(best.stmt, l.stmt):
                best = l
    return best


def _conditional_within(root: ast.AST, target: ast.AST) -> Optional[ast.AST]:
    """the construct of `root` under which `target` is evaluated only sometimes (conditional expression arm, short-circuit operand,
    filtered comprehension); None when `target` is evaluated whenever `root` is."""
    def inside(x: ast.AST) -> bool:
        return x is target or any(y is target for y in ast.walk(x))

    cur = root
    while cur is not target:
        if isinstance(cur, ast.IfExp) and not inside(cur.test):
            return cur
        if isinstance(cur, ast.BoolOp) and not inside(cur.values[0]):
            return cur
        if isinstance(cur, (ast.ListComp, ast.SetComp, ast.GeneratorExp, ast.DictComp)):
            if any(g.ifs for g in cur.generators) and not inside(cur.generators[0].iter):
                return cur
        nxt = [c for c in ast.iter_child_nodes(cur) if inside(c)]
        if not nxt:
            return None
        cur = nxt[0]
    return None


_ORDER_KEEPING = {"tolist", "list", "tuple"}  # conversions of a sequence that keep its elements and their order (beyond the value-neutral adapters of terms.py)


def _is_sequence(tb: TermBuilder, p: Poly, seq: Poly) -> bool:
    if p == seq:
        return True
    a = single_atom(tb, p)
    return a is not None and a.kind == "call" and a.name.split(".")[-1] in _ORDER_KEEPING and len(a.sub) == 1 and _is_sequence(tb, a.sub[0], seq)


def _current_element(tb: TermBuilder, a, seq: Poly, loop: ast.AST) -> bool:
    """atom `a` is the element of `seq` that belongs to the current iteration of `loop`: the loop's own target bound to it (directly, through zip /
    enumerate), or `seq[k]` with k the loop's own position variable."""
    if a is None or a.kind != "idx" or not a.sub or not _is_sequence(tb, a.sub[0], seq):
        return False
    if len(a.sub) == 1:
        return a.name == "elem" and a.node is loop
    k = single_atom(tb, a.sub[1])
    return len(a.sub) == 2 and k is not None and k.node is loop and (k.kind == "iter" or (k.kind == "idx" and k.name == "elem" and len(k.sub) == 1))


def pair_alignment(tb: TermBuilder, fn, c: ast.Call, n: Node, loop: ast.AST) -> Tuple[bool, bool, Optional[Poly], Optional[Poly]]:
    """for the call `c` = _update_priority(index, priority) evaluated at `n` inside `loop` of update_priorities (`fn`):
    (the index is the current element of the indices given, the priority is computed from the current element of the priorities given and from
    no other element of either sequence, term of the index, term of the priority).  `current` is decided by `_current_element`: however the
    loop visits the pairs (zip, enumerate, positions), element k of one sequence meets element k of the other."""
    if len(fn.params) < 3 or len(c.args) + len(c.keywords) < 2:
        return False, False, None, None
    IDX, PRIO = Poly.atom(f"param:{fn.qualname}.{fn.params[1]}"), Poly.atom(f"param:{fn.qualname}.{fn.params[2]}")
    a_idx, a_prio = get_kw(c, "idx", 0), get_kw(c, "priority", 1)
    ti = tb.term(a_idx, n) if a_idx is not None else None
    ai = single_atom(tb, ti) if ti is not None else None
    oki = _current_element(tb, ai, IDX, loop)
    tp = tb.term(a_prio, n) if a_prio is not None else None
    # every element of the two sequences the priority depends on is the current one (of the priorities; none of the indices)
    okp = tp is not None and mentions(tb, tp, lambda a: _current_element(tb, a, PRIO, loop)) \
        and not mentions(tb, tp, lambda a: a.kind == "idx" and bool(a.sub) and len(a.sub) <= 2 and (
            _is_sequence(tb, a.sub[0], IDX) or (_is_sequence(tb, a.sub[0], PRIO) and not _current_element(tb, a, PRIO, loop))))
    return oki, okp, ti, tp


def _every_pair_written(ck: Check, repo: Repo) -> None:
    ck.rule("C11.8", "update_priorities hands every (index, priority) pair of the call to _update_priority, in order: the call is evaluated in every "
                     "iteration of the loop over the pairs (nothing skips it, the loop is not left early), with the pair's own index and a priority computed "
                     "from the pair's own priority — the last priority given for a repeated index is the one in the trees and every priority counts for "
                     "max_priority")
    per = repo.cls(RB, "PrioritizedReplayBuffer")
    fn = per.methods["update_priorities"]
    cfg = CFG(fn.node)
    tb = TermBuilder(repo, fn, cfg=cfg, depth=0)
    calls = [c for c in calls_in(fn.node) if call_name(c).split(".")[-1] == "_update_priority"]
    ck.floor("C11.8", len(calls), 1, "_update_priority call in update_priorities", fn=fn)
    if len(fn.params) < 3:
        return
    p_idx, p_prio = fn.params[1], fn.params[2]
    for c in calls:
        n = cfg.node_of(c)
        if n is None:
            ck.ob("C11.8", fn, c, False, "the priority write is reachable", construct=f"update_priorities: `{short(c, 60)}`")
            continue
        L = _enclosing_loop(cfg, n)
        cond = _conditional_within(n.ast, c) if n.ast is not None else None
        if L is None:
            # not a statement loop: the pairs can only be visited by a comprehension in the same statement
            comps = [x for x in walk_no_nested(n.ast) if isinstance(x, (ast.ListComp, ast.SetComp, ast.GeneratorExp)) and any(y is c for y in ast.walk(x.elt))]
            ck.ob("C11.8", fn, n.ast, bool(comps) and cond is None, "the priority write is evaluated once for every pair of the call",
                  detail=(f"`{short(cond, 80)}` evaluates it for some pairs only" if cond is not None else "the call is not inside an iteration over the pairs"),
                  construct=f"update_priorities: `{short(c, 60)}` for every pair")
            continue
        # (a) every iteration passes the call
        skip = cfg.path_avoiding(L, {L.id}, {n.id})
        how = ""
        if skip is not None:
            tests = [m for m in skip if m.kind == "test" and _in_body(L.stmt, m.stmt)]
            how = (f"an iteration can go round it (decided by `{short(tests[0].ast, 60)}`, line {tests[0].lineno})" if tests else "an iteration can go round it") + \
                ": a pair that is skipped never reaches the trees nor max_priority (with a memory of earlier indices the first priority wins, not the last)"
        elif cond is not None:
            how = f"`{short(cond, 80)}` evaluates it for some pairs only"
        ck.ob("C11.8", fn, c, skip is None and cond is None, "the priority write is executed in every iteration of the loop over the pairs", detail=how,
              construct=f"update_priorities: `{short(c, 60)}` in every iteration")
        # (b) the loop ends only when the pairs are exhausted
        body = [m for m in cfg.live_nodes() if m is not L and _in_body(L.stmt, m.stmt)]
        ids = {m.id for m in body} | {L.id}
        early = [m for m in body if any(s.id not in ids and s is not cfg.rexit and s.id not in m.exc_succ for s in m.succ)]
        ck.ob("C11.8", fn, early[0].ast if early else L.ast, not early, "the loop over the pairs is left only when every pair has been visited (no break / return in its body)",
              detail=f"`{short(early[0].ast, 60)}` (line {early[0].lineno}) leaves the loop: the remaining pairs are never written" if early else "",
              construct="update_priorities: loop over the pairs runs to the end")
        # (c) what is written is the pair itself
        if len(c.args) + len(c.keywords) < 2:
            ck.ob("C11.8", fn, c, False, "the call passes an index and a priority", construct=f"update_priorities: arguments of `{short(c, 60)}`")
            continue
        oki, okp, ti, tp = pair_alignment(tb, fn, c, n, L.stmt)
        ck.ob("C11.8", fn, c, oki,
              f"the index written is the current element of `{p_idx}` (through value-neutral conversions only)", detail=f"index = {ti.key()[:160] if ti is not None else '?'}",
              construct=f"update_priorities: index argument of `{short(c, 60)}`")
        ck.ob("C11.8", fn, c, okp, f"the priority written is computed from the current element of `{p_prio}` (not from another pair, not from the index)",
              detail=f"priority = {tp.key()[:160] if tp is not None else '?'}", construct=f"update_priorities: priority argument of `{short(c, 60)}`")


# ---------------------------------------------------------------------------------------------------------------- C11.9
# callables that hand their first argument on as a tensor / sequence (what is looked through on the way back from the returned value)
_PASS_FUNCS = set(ADAPTER_FUNCS) | {"list", "tuple", "torch.stack", "np.stack", "torch.FloatTensor", "torch.DoubleTensor", "np.fromiter", "torch.cat", "np.concatenate"}
_WIDE = {"torch.float32", "torch.float", "torch.float64", "torch.double", "float", "np.float32", "np.float64", "numpy.float32", "numpy.float64",
         "np.single", "np.double", "numpy.single", "numpy.double"}
_WIDE_STR = {"float32", "float64", "float", "double", "torch.float32", "torch.float64"}
_NARROWING_METHODS = {"half", "bfloat16", "int", "long", "short", "bool", "char", "byte"}
_NARROW_CTORS = {"torch.HalfTensor", "torch.BFloat16Tensor", "torch.IntTensor", "torch.LongTensor", "torch.ShortTensor", "torch.ByteTensor", "torch.CharTensor",
                 "torch.BoolTensor"}
_INHERITING_METHODS = {"type_as", "new_zeros", "new_ones", "new_empty", "new_full", "new_tensor"}


def _chain_calls(cfg: CFG, e: ast.AST, at: Node, out: List[Tuple[ast.Call, Node]], stop: Optional[ast.AST] = None, _depth: int = 0) -> None:
    """the calls (tensor constructors, casts, adapters) on the def-use chain that ends in the value of `e` at `at`; element values written into a
    container (`w[i] = x`, `.append(x)`) and the elements of a comprehension are not followed: the container's own type governs."""
    if _depth > 14 or e is stop:
        return
    if isinstance(e, ast.Call):
        if not any(c is e for c, _ in out):
            out.append((e, at))
        if isinstance(e.func, ast.Attribute) and (e.func.attr in ADAPTER_METHODS or e.func.attr in _NARROWING_METHODS or e.func.attr in _INHERITING_METHODS):
            _chain_calls(cfg, e.func.value, at, out, stop, _depth + 1)
        elif call_name(e) in _PASS_FUNCS and e.args and not isinstance(e.args[0], ast.Starred):
            _chain_calls(cfg, e.args[0], at, out, stop, _depth + 1)
        return
    if isinstance(e, ast.IfExp):
        _chain_calls(cfg, e.body, at, out, stop, _depth + 1)
        _chain_calls(cfg, e.orelse, at, out, stop, _depth + 1)
    elif isinstance(e, ast.BinOp):
        _chain_calls(cfg, e.left, at, out, stop, _depth + 1)
        _chain_calls(cfg, e.right, at, out, stop, _depth + 1)
    elif isinstance(e, ast.NamedExpr):
        _chain_calls(cfg, e.value, at, out, stop, _depth + 1)
    elif isinstance(e, (ast.Subscript, ast.Attribute)) and not isinstance(e.value, ast.Name):
        _chain_calls(cfg, e.value, at, out, stop, _depth + 1)
    elif isinstance(e, ast.Name):
        for d in cfg.defs_reaching(at, e.id):
            v = cfg.value_of_def(d, e.id)
            if v is not None and d.kind == "stmt" and d is not at:
                _chain_calls(cfg, v, d, out, stop, _depth + 1)


def _device_like(cfg: CFG, e: ast.AST, at: Node, _depth: int = 0) -> bool:
    """a positional argument of `.to(...)` that selects a device, not a type."""
    if isinstance(const_value(e), str):
        return const_value(e).split(":")[0] in ("cpu", "cuda", "mps", "xpu", "meta")
    if isinstance(e, ast.Call):
        return call_name(e) in ("torch.device", "device")
    d = dotted(e)
    if isinstance(e, ast.Attribute):
        return "device" in d.split(".")[-1].lower()
    if isinstance(e, ast.Name) and _depth < 4:
        vals = [(cfg.value_of_def(x, e.id), x) for x in cfg.defs_reaching(at, e.id)]
        if vals and all(v is not None and x.kind == "stmt" for v, x in vals):
            return all(_device_like(cfg, v, x, _depth + 1) for v, x in vals)
        return "device" in e.id.lower()  # a parameter: judged by its name
    return False


def _dtype_verdict(cfg: CFG, e: ast.AST, at: Node, _depth: int = 0) -> str:
    """"" when `e` names float32 / float64 (or the default floating type) as a constant; otherwise why not."""
    d = dotted(e)
    if d in _WIDE or (isinstance(const_value(e), str) and const_value(e) in _WIDE_STR):
        return ""
    if isinstance(e, ast.Call) and call_name(e) == "torch.get_default_dtype" and not e.args:
        return ""
    if isinstance(e, ast.IfExp):
        return _dtype_verdict(cfg, e.body, at, _depth + 1) or _dtype_verdict(cfg, e.orelse, at, _depth + 1)
    if isinstance(e, ast.Name) and _depth < 4:
        vals = [(cfg.value_of_def(x, e.id), x) for x in cfg.defs_reaching(at, e.id)]
        if vals and all(v is not None and x.kind == "stmt" for v, x in vals):
            for v, x in vals:
                why = _dtype_verdict(cfg, v, x, _depth + 1)
                if why:
                    return why
            return ""
        return f"`{e.id}` is not a constant type: the weights take whatever type the caller / the configuration selects"
    if isinstance(e, ast.Constant) or (d and "?" not in d and d.split(".")[0] in ("torch", "np", "numpy") and not isinstance(e, ast.Call)) \
            or (isinstance(e, ast.Name) and e.id in ("int", "bool")):
        return f"`{short(e, 40)}` is narrower than float32 or not a floating type: the weights are rounded away from the formula (small ones to exactly 0)"
    return (f"`{short(e, 40)}` is read from configurable state (the storage type of the buffer), not a fixed floating type: a half-precision buffer returns weights "
            f"rounded away from (N P(i))^-beta / max_j (N P(j))^-beta, small ones underflow to 0, outside (0, 1]")


def _type_of_call(cfg: CFG, c: ast.Call, at: Node) -> str:
    """"" when the call leaves / makes the weights a fixed wide floating type; otherwise the diagnosis."""
    cn, la = call_name(c), (c.func.attr if isinstance(c.func, ast.Attribute) else "")
    if la in _NARROWING_METHODS and not c.args:
        return f"`.{la}()` converts the weights to a type narrower than float32 or not floating"
    if cn in _NARROW_CTORS:
        return f"`{cn}` builds the weights in a type narrower than float32 or not floating"
    dt: List[ast.AST] = []
    kw = get_kw(c, "dtype")
    if kw is not None:
        dt.append(kw)
    if la in ("to", "type") and isinstance(c.func, ast.Attribute):
        dt += [a for a in c.args if not isinstance(a, ast.Starred) and not _device_like(cfg, a, at) and not isinstance(const_value(a), bool)]
    elif cn in ("np.array", "np.asarray", "numpy.array", "numpy.asarray", "np.zeros", "np.ones", "np.empty", "numpy.zeros", "numpy.ones", "numpy.empty") and len(c.args) >= 2:
        dt.append(c.args[1])
    for e in dt:
        why = _dtype_verdict(cfg, e, at)
        if why:
            return why
    if not dt and (cn.split(".")[-1].endswith("_like") or la in _INHERITING_METHODS):
        return f"`{short(c, 60)}` takes its type from another tensor, not a fixed floating type (the sampled indices are integers, the stored data has the configurable type)"
    return ""


def _weights_type(ck: Check, repo: Repo) -> None:
    ck.rule("C11.9", "the importance weights are materialised and returned in a fixed floating type at least as wide as float32: every tensor constructor / cast between "
                     "the per-index weights and batch['weights'] names no dtype (default) or float32 / float64 as a constant — never the buffer's configurable "
                     "storage dtype, a half-precision or an integer type (the weights equal (N P(i))^-beta / max and lie in (0, 1])")
    fn = repo.fn(RB, "PrioritizedReplayBuffer._calculate_weights")
    cfg = CFG(fn.node)
    rets = [n for n in cfg.live_nodes() if n.kind == "stmt" and isinstance(n.ast, ast.Return) and n.ast.value is not None]
    chain: List[Tuple[ast.Call, Node]] = []
    for r in rets:
        _chain_calls(cfg, r.ast.value, r, chain)
    ck.floor("C11.9", len(chain), 1, "tensor constructor / cast on the way from the per-index weights to the returned value", fn=fn)
    for c, at in chain:
        why = _type_of_call(cfg, c, at)
        ck.ob("C11.9", fn, c, not why, f"`{short(c, 70)}` keeps the weights in a fixed floating type at least as wide as float32", detail=why,
              construct=f"_calculate_weights: type of `{short(c, 100)}`")
    # sample(): from the call of _calculate_weights to the value stored under "weights"
    sm = repo.fn(RB, "PrioritizedReplayBuffer.sample")
    scfg = CFG(sm.node)
    stores: List[Tuple[ast.AST, Node]] = []
    for n in scfg.live_nodes():
        if n.kind != "stmt":
            continue
        s = n.ast
        if isinstance(s, ast.Assign) and any(isinstance(t, ast.Subscript) and const_value(t.slice) == "weights" for t in s.targets):
            stores.append((s.value, n))
        for c in walk_no_nested(s):
            if isinstance(c, ast.Call) and last_attr(c) in ("set", "set_") and len(c.args) >= 2 and const_value(c.args[0]) == "weights":
                stores.append((c.args[1], n))
    ck.floor("C11.9", len(stores), 1, "store of the weights into the sampled batch", fn=sm)
    for v, n in stores:
        chain = []
        _chain_calls(scfg, v, n, chain)
        chain = [(c, at) for c, at in chain if call_name(c).split(".")[-1] != "_calculate_weights"]
        if not chain:
            ck.ob("C11.9", sm, n.ast, True, "batch['weights'] is what _calculate_weights returned, unconverted", construct="sample: type of batch['weights']")
        for c, at in chain:
            why = _type_of_call(scfg, c, at)
            ck.ob("C11.9", sm, c, not why, f"`{short(c, 70)}` keeps the weights in a fixed floating type at least as wide as float32", detail=why,
                  construct=f"sample: type of `{short(c, 100)}`")


def run_r3b(ck: Check, repo: Repo) -> None:
    _every_pair_written(ck, repo)
    _weights_type(ck, repo)
