"""C11 — prioritised replay samples stored items with consistent priorities and weights."""
from __future__ import annotations

import ast
from dataclasses import dataclass
from typing import Dict, List, Optional, Tuple

from ..cfg import CFG, Node
from ..core import AnalysisError, Cls, Fn, Repo, call_name, calls_in, const_value, dotted, get_kw, last_attr, short, walk_no_nested
from ..pat import has
from ..report import Check
from ..terms import ADAPTER_FUNCS, ADAPTER_METHODS, Poly, TermBuilder, mentions, single_atom
from ..util import self_attr_stores

RB = "agilerl.components.replay_buffer"
ST = "agilerl.components.segment_tree"


def _expr(src: str) -> ast.AST:
    return ast.parse(src, mode="eval").body


def run(ck: Check, repo: Repo) -> None:
    ck.not_decided += ["that retrieve() returns an index < size at floating-point boundaries (the code's own TODO)",
                       "sampling frequencies (probabilistic statement)"]
    ck.rule("C11.1", "SegmentTree.__setitem__ writes the leaf at idx + capacity and recomputes every ancestor down to node 1 from its children 2i and 2i+1")
    ck.rule("C11.2", "only _update_priority writes the trees, always both trees, same index, same value priority ** alpha")
    ck.rule("C11.3", "new transitions get the running maximum priority, which is updated by every priority written")
    ck.rule("C11.4", "the tree pointer advances once per stored transition with the same modulus as the storage cursor")
    ck.rule("C11.5", "importance weights normalise to (p_i*N)^-beta / (p_min*N)^-beta with p = leaf/sum, p_min = min()/sum, N = size")
    ck.rule("C11.6", "stratified sampling: the query mass is affine in a uniform draw with range [seg*i, seg*(i+1)), seg = total/batch")
    ck.rule("C11.7", "retrieve descends left iff tree[left] > mass, otherwise subtracts tree[left] and descends right; returns idx - capacity")
    _setitem(ck, repo)
    _who_writes(ck, repo)
    _weights(ck, repo)
    _strata(ck, repo)
    _retrieve(ck, repo)
    from ._c11_r3b import run_r3b
    run_r3b(ck, repo)
    from ._c11_r5 import run_r5
    run_r5(ck, repo)


def _setitem(ck: Check, repo: Repo) -> None:
    base = repo.cls(ST, "SegmentTree")
    seen = []
    for c in [base] + repo.subclasses("SegmentTree"):
        f = repo.find_method(c, "__setitem__")
        if f is None:
            raise AnalysisError(f"{c.name}: no __setitem__")
        if f not in seen:
            seen.append(f)
            _setitem_one(ck, repo, f)
    _tree_ctor(ck, repo)


def _setitem_one(ck: Check, repo: Repo, fn: Fn) -> None:
    cfg = CFG(fn.node)
    tb = TermBuilder(repo, fn, cfg=cfg, depth=0)
    stores = []
    for n in cfg.live_nodes():
        if n.kind == "stmt" and isinstance(n.ast, (ast.Assign, ast.AugAssign)):
            tg = n.ast.targets[0] if isinstance(n.ast, ast.Assign) else n.ast.target
            if isinstance(tg, ast.Subscript) and dotted(tg.value) == "self.tree":
                stores.append(n)
    ck.ob("C11.1", fn, fn.node, len(stores) >= 2, f"{fn.qualname} writes a leaf and its ancestors", construct=f"tree stores in {fn.qualname}")
    aug = [n for n in stores if isinstance(n.ast, ast.AugAssign)]
    for n in aug:
        ck.ob("C11.1", fn, n.ast, False, "tree nodes are recomputed from their children, not adjusted incrementally",
              detail="an in-place adjustment of an ancestor accumulates rounding error that is never corrected: the running total drifts "
                     "away from the sum of the leaves (and can go negative after a huge priority was replaced)")
    stores = [n for n in stores if isinstance(n.ast, ast.Assign)]
    if len(stores) < 2:
        return
    pname = f"param:{fn.qualname}"
    loops = [n for n in cfg.live_nodes() if n.kind == "test" and isinstance(n.stmt, ast.While)]
    ck.ob("C11.1", fn, fn.node, len(loops) == 1, "one ancestor loop", construct="while loop in __setitem__")
    if len(loops) != 1:
        return
    loop = loops[0]
    body = {n.id for n in cfg.live_nodes() if n.stmt is not None and any(x is n.stmt for b in loop.stmt.body for x in ast.walk(b))}
    leaf = [s for s in stores if s.id not in body]
    inner = [s for s in stores if s.id in body]
    IDX = Poly.atom(f"{pname}.idx")
    CAP = tb.term(_expr("self.capacity"), cfg.entry)
    for s in leaf:
        t = tb.term(s.ast.targets[0].slice, s)
        ck.ob("C11.1", fn, s.ast, t == IDX + CAP and cfg.dominates(s, loop),
              "the leaf written is tree[idx + capacity] and the write precedes the ancestor loop", detail=f"index = {t.key()}")
        v = tb.term(s.ast.value, s)
        ck.ob("C11.1", fn, s.ast, v == Poly.atom(f"{pname}.val"), "the leaf receives the value passed in")
    ck.ob("C11.1", fn, fn.node, len(leaf) == 1 and len(inner) == 1, "exactly one leaf write and one ancestor write",
          construct="tree stores in __setitem__")
    # loop test: idx >= 1  (or idx > 0)
    c = loop.ast
    # (canonical orientation after loading: `idx >= 1` is seen as `1 <= idx`; both spellings are accepted)
    ok = isinstance(c, ast.Compare) and len(c.ops) == 1 and (
        (isinstance(c.left, ast.Name) and ((isinstance(c.ops[0], ast.GtE) and const_value(c.comparators[0]) == 1) or (isinstance(c.ops[0], ast.Gt) and const_value(c.comparators[0]) == 0)))
        or (isinstance(c.comparators[0], ast.Name) and ((isinstance(c.ops[0], ast.LtE) and const_value(c.left) == 1) or (isinstance(c.ops[0], ast.Lt) and const_value(c.left) == 0))))
    ck.ob("C11.1", fn, c, ok, "the ancestor loop runs until the root (node 1) has been recomputed", detail=ast.unparse(c))
    var = (c.left.id if isinstance(c.left, ast.Name) else c.comparators[0].id) if ok else "idx"
    for s in inner:
        cur = tb.term(ast.Name(id=var, ctx=ast.Load()), s)
        t = tb.term(s.ast.targets[0].slice, s)
        okw = t == cur
        call = s.ast.value
        okc = isinstance(call, ast.Call) and dotted(call.func) == "self.operation" and len(call.args) == 2
        kids = []
        if okc:
            for a in call.args:
                if isinstance(a, ast.Subscript) and dotted(a.value) == "self.tree":
                    kids.append(tb.term(a.slice, s))
        two = Poly.const(2)
        okk = len(kids) == 2 and {k.key() for k in kids} == {(two * cur).key(), (two * cur + Poly.const(1)).key()}
        ck.ob("C11.1", fn, s.ast, okw and okc and okk,
              "node i is recomputed as operation(tree[2i], tree[2i+1])",
              detail=f"writes [{t.key()[:60]}] from children {[k.key()[:60] for k in kids]}")
    # halving: idx //= 2 before the loop and at the end of each iteration
    halv = [n for n in cfg.live_nodes() if n.kind == "stmt" and isinstance(n.ast, ast.AugAssign) and isinstance(n.ast.op, ast.FloorDiv)
            and const_value(n.ast.value) == 2 and dotted(n.ast.target) == var]
    pre = [h for h in halv if h.id not in body]
    inb = [h for h in halv if h.id in body]
    ck.ob("C11.1", fn, pre[0].ast if pre else fn.node, len(pre) == 1 and all(cfg.dominates(l, pre[0]) for l in leaf) and cfg.dominates(pre[0], loop),
          "the walk starts at the leaf's parent ((idx + capacity) // 2)", construct="idx //= 2 before the loop")
    ok = len(inb) == 1 and all(cfg.dominates(s, inb[0]) for s in inner)
    if ok:
        # every path from the inner store back to the loop test passes the halving
        ok = cfg.path_avoiding(inner[0], {loop.id}, {inb[0].id}) is None
    ck.ob("C11.1", fn, inb[0].ast if inb else fn.node, ok, "each iteration moves to the parent (idx //= 2) after recomputing the node",
          construct="idx //= 2 inside the loop")
    # shift by capacity happens once
    shifts = [n for n in cfg.live_nodes() if n.kind == "stmt" and isinstance(n.ast, ast.AugAssign) and isinstance(n.ast.op, ast.Add) and dotted(n.ast.target) == var]
    ck.ob("C11.1", fn, shifts[0].ast if shifts else fn.node,
          all(dotted(sft.ast.value) == "self.capacity" and sft.id not in body for sft in shifts) and len(shifts) <= 1,
          "the leaf offset (capacity) is added exactly once", construct="idx += self.capacity")


def _tree_ctor(ck: Check, repo: Repo) -> None:
    # __getitem__ reads the same leaf
    gi = repo.fn(ST, "SegmentTree.__getitem__")
    gtb = TermBuilder(repo, gi, depth=0)
    rets = [n for n in gtb.cfg.live_nodes() if n.kind == "stmt" and isinstance(n.ast, ast.Return)]
    ok = bool(rets) and all(isinstance(r.ast.value, ast.Subscript) and dotted(r.ast.value.value) == "self.tree" and
                            gtb.term(r.ast.value.slice, r) == Poly.atom("param:SegmentTree.__getitem__.idx") + gtb.term(_expr("self.capacity"), r)
                            for r in rets)
    ck.ob("C11.1", gi, rets[0].ast if rets else gi.node, ok, "__getitem__ reads the leaf written by __setitem__ (capacity + idx)")
    # constructor: 2*capacity nodes filled with the neutral element; capacity power of two
    init = repo.fn(ST, "SegmentTree.__init__")
    src = ast.unparse(init.node)
    ck.ob("C11.1", init, init.node, has(src, 'range(2 * $capacity)') and "init_value" in src, "the tree has 2*capacity nodes initialised with the neutral element",
          construct="tree allocation")
    for sub, op, neutral in (("SumSegmentTree", "operator.add", "0.0"), ("MinSegmentTree", "min", "float('inf')")):
        si = repo.fn(ST, f"{sub}.__init__")
        calls = [c for c in calls_in(si.node) if isinstance(c.func, ast.Attribute) and c.func.attr == "__init__"]
        ok = bool(calls) and ast.unparse(get_kw(calls[0], "operation", 1)) == op and ast.unparse(get_kw(calls[0], "init_value", 2)) == neutral
        ck.ob("C11.1", si, calls[0] if calls else si.node, ok, f"{sub} combines children with {op} and neutral element {neutral}")


def _who_writes(ck: Check, repo: Repo) -> None:
    per = repo.cls(RB, "PrioritizedReplayBuffer")
    init = per.methods["__init__"]
    trees = {}
    for attr, vals in self_attr_stores(init).items():
        for v in vals:
            if isinstance(v, ast.Call) and call_name(v).split(".")[-1] in ("SumSegmentTree", "MinSegmentTree"):
                trees[attr] = call_name(v).split(".")[-1]
    ck.floor("C11.2", len(trees), 2, "segment tree attributes of PrioritizedReplayBuffer")
    sum_attr = next(a for a, k in trees.items() if k == "SumSegmentTree")
    min_attr = next(a for a, k in trees.items() if k == "MinSegmentTree")
    writers: Dict[str, List[Tuple[Fn, ast.AST]]] = {}
    for f in repo.all_functions():
        for n in walk_no_nested(f.node):
            tg = []
            if isinstance(n, ast.Assign):
                tg = n.targets
            elif isinstance(n, ast.AugAssign):
                tg = [n.target]
            for t in tg:
                if isinstance(t, ast.Subscript) and isinstance(t.value, ast.Attribute) and t.value.attr in trees:
                    writers.setdefault(t.value.attr, []).append((f, n))
            if isinstance(n, ast.Call) and isinstance(n.func, ast.Attribute) and n.func.attr == "__setitem__" \
                    and isinstance(n.func.value, ast.Attribute) and n.func.value.attr in trees:
                writers.setdefault(n.func.value.attr, []).append((f, n))
            # raw writes into a tree's node list from outside the segment tree module
            if isinstance(n, (ast.Assign, ast.AugAssign)):
                for t in (n.targets if isinstance(n, ast.Assign) else [n.target]):
                    if isinstance(t, ast.Subscript) and isinstance(t.value, ast.Attribute) and t.value.attr == "tree" and f.mod.name != ST:
                        writers.setdefault("<raw tree>", []).append((f, n))
    up = per.methods["_update_priority"]
    for attr in trees:
        ws = writers.get(attr, [])
        ck.ob("C11.2", up, ws[0][1] if ws else up.node, len(ws) == 1 and ws[0][0] is up,
              f"`{attr}` is written only by _update_priority, once",
              detail="; ".join(f"{f.qualname}:{getattr(n, 'lineno', 0)}" for f, n in ws), construct=f"writers of {attr}")
    ck.ob("C11.2", up, up.node, "<raw tree>" not in writers, "no code outside segment_tree.py writes into a tree's node list",
          detail="; ".join(f"{f.qualname}:{getattr(n, 'lineno', 0)}" for f, n in writers.get("<raw tree>", [])), construct="raw tree writes")
    tb = TermBuilder(repo, up, depth=0)
    ws = [(a, writers[a][0][1]) for a in trees if len(writers.get(a, [])) == 1]
    if len(ws) == 2:
        (a1, n1), (a2, n2) = ws
        nd1, nd2 = tb.cfg.node_of(n1), tb.cfg.node_of(n2)
        i1, i2 = tb.term(n1.targets[0].slice, nd1), tb.term(n2.targets[0].slice, nd2)
        v1, v2 = tb.term(n1.value, nd1), tb.term(n2.value, nd2)
        ck.ob("C11.2", up, n1, i1 == i2 and i1 == Poly.atom("param:PrioritizedReplayBuffer._update_priority.idx"),
              "both trees are written at the index passed in", detail=f"{i1.key()} / {i2.key()}")
        want = tb.term(_expr("priority ** self.alpha"), nd1)
        ck.ob("C11.2", up, n1, v1 == v2 and v1 == want, "both trees receive priority ** alpha", detail=f"{v1.key()[:80]} / {v2.key()[:80]}")
        # same control context: both writes on every path
        ck.ob("C11.2", up, n2, tb.cfg.postdominates(nd1, tb.cfg.entry) and tb.cfg.postdominates(nd2, tb.cfg.entry),
              "both tree writes happen on every path of _update_priority")
    # ---- C11.3
    cfg = tb.cfg
    mp = [n for n in cfg.live_nodes() if n.kind == "stmt" and isinstance(n.ast, ast.Assign) and dotted(n.ast.targets[0]) == "self.max_priority"]
    callers_cover = False
    if not mp:
        # accepted alternative: every caller updates the running maximum itself, in the same iteration, with the priority it passes
        callers_cover = True
        for m in per.methods.values():
            mcfg = CFG(m.node)
            for c in calls_in(m.node):
                if call_name(c) != "self._update_priority" or len(c.args) < 2:
                    continue
                if dotted(c.args[1]) == "self.max_priority":
                    continue
                cn = mcfg.node_of(c)
                okc = False
                for n2 in mcfg.live_nodes():
                    if n2.kind == "stmt" and isinstance(n2.ast, ast.Assign) and dotted(n2.ast.targets[0]) == "self.max_priority" \
                            and isinstance(n2.ast.value, ast.Call) and call_name(n2.ast.value) == "max" \
                            and {ast.unparse(a) for a in n2.ast.value.args} == {"self.max_priority", ast.unparse(c.args[1])}:
                        loops_c = [l for l in ast.walk(m.node) if isinstance(l, (ast.For, ast.While)) and any(x is c for x in ast.walk(l))]
                        loops_n = [l for l in ast.walk(m.node) if isinstance(l, (ast.For, ast.While)) and any(x is n2.ast for x in ast.walk(l))]
                        if loops_c == loops_n and cn is not None and mcfg.postdominates(n2, cn):
                            okc = True
                callers_cover = callers_cover and okc
    ck.ob("C11.3", up, up.node, len(mp) >= 1 or callers_cover, "the function that writes a priority into the trees also updates the running maximum",
          detail="_update_priority writes the trees without touching max_priority: a priority written through it (new or updated) "
                 "is not reflected in the priority given to later transitions", construct="max_priority update in _update_priority")
    for n in mp:
        v = n.ast.value
        ok = isinstance(v, ast.Call) and call_name(v) == "max" and {ast.unparse(a) for a in v.args} == {"self.max_priority", "priority"}
        ck.ob("C11.3", up, n.ast, ok and cfg.postdominates(n, cfg.entry), "max_priority is the running maximum of every priority written (on every path)")
    add = per.methods["add"]
    acfg = CFG(add.node)
    atb = TermBuilder(repo, add, cfg=acfg, depth=0)
    ups = [c for c in calls_in(add.node) if call_name(c) == "self._update_priority"]
    ck.floor("C11.3", len(ups), 1, "_update_priority call in PrioritizedReplayBuffer.add", fn=add)
    for c in ups:
        ck.ob("C11.3", add, c, len(c.args) == 2 and dotted(c.args[1]) == "self.max_priority", "a new transition is given the maximum priority seen so far")
        ck.ob("C11.4", add, c, dotted(c.args[0]) == "self.tree_ptr", "the priority of a new transition is written at the tree pointer")
        n = acfg.node_of(c)
        loops = [l for l in acfg.live_nodes() if l.kind == "for" and any(x is c for x in ast.walk(l.ast))]
        ok = len(loops) == 1 and isinstance(loops[0].ast.iter, ast.Call) and call_name(loops[0].ast.iter) == "range" and len(loops[0].ast.iter.args) == 1
        if ok:
            cnt = atb.term(loops[0].ast.iter.args[0], loops[0])
            ok = cnt == atb.term(_expr("data.shape[0]"), loops[0])
        ck.ob("C11.4", add, loops[0].ast.iter if loops else c, ok, "one priority is written per stored transition (loop over the batch width)")
    ptr = [n for n in acfg.live_nodes() if n.kind == "stmt" and isinstance(n.ast, ast.Assign) and dotted(n.ast.targets[0]) == "self.tree_ptr"]
    ck.floor("C11.4", len(ptr), 1, "tree pointer update in add", fn=add)
    for n in ptr:
        t = atb.term(n.ast.value, n)
        a = single_atom(atb, t)
        ok = a is not None and a.kind == "binop" and a.name == "Mod" and a.sub[0] == Poly.atom("attr:self.tree_ptr") + Poly.const(1) \
            and a.sub[1] == Poly.atom("attr:self.max_size")
        ck.ob("C11.4", add, n.ast, ok, "tree_ptr <- (tree_ptr + 1) mod max_size, the modulus the storage cursor uses", detail=t.key()[:120])
        # same loop as the priority write, after it
        ok2 = bool(ups) and acfg.dominates(acfg.node_of(ups[0]), n)
        ck.ob("C11.4", add, n.ast, ok2, "the pointer advances after each priority write")
    # storage add precedes priorities
    sup = [c for c in calls_in(add.node) if isinstance(c.func, ast.Attribute) and c.func.attr == "add" and isinstance(c.func.value, ast.Call) and call_name(c.func.value) == "super"]
    ck.ob("C11.4", add, sup[0] if sup else add.node, bool(sup) and bool(ups) and acfg.dominates(acfg.node_of(sup[0]), acfg.node_of(ups[0])),
          "the transition is stored (super().add) before its priority is written")
    # update_priorities goes through _update_priority with the sampled index
    upd = per.methods["update_priorities"]
    calls = [c for c in calls_in(upd.node) if call_name(c) == "self._update_priority"]
    ck.ob("C11.2", upd, calls[0] if calls else upd.node, len(calls) == 1, "update_priorities writes through _update_priority")
    # the pair handed to _update_priority is (element k of the indices given, a priority computed from element k of the priorities given), whichever
    # way the loop visits the pairs: zip of the two, enumerate of one and the position into the other, positions into both
    from ._c11_r3b import _enclosing_loop, pair_alignment
    ucfg = CFG(upd.node)
    utb = TermBuilder(repo, upd, cfg=ucfg, depth=0)
    site, ok, detail = upd.node, False, "no loop over the pairs around the _update_priority call"
    un = ucfg.node_of(calls[0]) if len(calls) == 1 else None
    UL = _enclosing_loop(ucfg, un) if un is not None else None
    if UL is not None:
        oki, okp, ti, tp = pair_alignment(utb, upd, calls[0], un, UL.stmt)
        site, ok = UL.stmt, oki and okp
        detail = f"index = {ti.key()[:120] if ti is not None else '?'} ; priority = {tp.key()[:120] if tp is not None else '?'}"
    ck.ob("C11.2", upd, site, ok, "index k is paired with priority k (zip(indices, priorities))", detail=detail)
    # tree capacity >= max_size (power of two loop)
    src = ast.unparse(init.node)
    ck.ob("C11.4", init, init.node, has(src, 'while $tree_capacity < $max_size:\n    ...') and has(src, '$tree_capacity *= 2'),
          "the tree capacity is the smallest power of two >= max_size", construct="tree capacity loop")


# callables that hand a sequence on element by element (same elements, same order)
_SEQ_FUNCS = set(ADAPTER_FUNCS) | {"list", "tuple", "torch.stack", "np.stack", "torch.FloatTensor", "np.fromiter"}


@dataclass
class _Build:
    """One way in which the returned sequence of weights is built."""
    site: ast.AST  # the iteration the sequence is built by (what the loop / the generator runs over)
    index_src: Optional[str]  # source text of `the sampled index of the current position`; None: not an iteration over the sampled indices
    why: str  # why the positions do not line up with the sampled indices ("" when they do)
    elems: List[Tuple[ast.AST, Node]]  # (expression of the weight of the current position, node it is evaluated at)
    comp: Optional[ast.AST] = None  # the comprehension, when the sequence is one


def _sources(cfg: CFG, e: ast.AST, at: Node, _depth: int = 0) -> List[Tuple[ast.AST, Node]]:
    """Where the value of `e` (evaluated at `at`) is built: looks through value-neutral adapters, conditional expressions and plain
    local bindings (every reaching definition); stops at comprehensions, at containers that are updated in place and at anything else."""
    if _depth > 12:
        return [(e, at)]
    if isinstance(e, ast.Call):
        if isinstance(e.func, ast.Attribute) and e.func.attr in ADAPTER_METHODS:
            return _sources(cfg, e.func.value, at, _depth + 1)
        if call_name(e) in _SEQ_FUNCS and e.args and not isinstance(e.args[0], ast.Starred):
            return _sources(cfg, e.args[0], at, _depth + 1)
    if isinstance(e, ast.IfExp):
        return _sources(cfg, e.body, at, _depth + 1) + _sources(cfg, e.orelse, at, _depth + 1)
    if isinstance(e, ast.NamedExpr):
        return _sources(cfg, e.value, at, _depth + 1)
    if isinstance(e, ast.Name):
        defs = cfg.defs_reaching(at, e.id)
        vals = [cfg.value_of_def(d, e.id) for d in defs]
        if defs and all(v is not None and d.kind == "stmt" and d is not at for d, v in zip(defs, vals)):
            out: List[Tuple[ast.AST, Node]] = []
            for d, v in zip(defs, vals):
                out += _sources(cfg, v, d, _depth + 1)
            return out
    return [(e, at)]


def _index_iteration(tb: TermBuilder, at: Node, target: ast.AST, it: ast.AST, pidx: str) -> Optional[Tuple[str, Optional[str]]]:
    """(source text of the sampled index of the current position, name of the position counter or None) when `for target in it`
    visits the sampled indices (parameter `pidx`) one by one, first to last; None otherwise."""
    sampled = Poly.atom(f"param:{tb.fn.qualname}.{pidx}")
    if isinstance(it, ast.Call) and call_name(it) == "enumerate" and len(it.args) >= 1:
        start = get_kw(it, "start", 1)
        if len(it.args) <= 2 and (start is None or const_value(start) == 0) and isinstance(target, (ast.Tuple, ast.List)) and len(target.elts) == 2 \
                and all(isinstance(x, ast.Name) for x in target.elts) and tb.term(it.args[0], at) == sampled:
            return target.elts[1].id, target.elts[0].id
        return None
    if not isinstance(target, ast.Name):
        return None
    if isinstance(it, ast.Call) and call_name(it) == "range" and not it.keywords:
        a = it.args
        ok = len(a) == 1 or (len(a) == 2 and const_value(a[0]) == 0) or (len(a) == 3 and const_value(a[0]) == 0 and const_value(a[2]) == 1)
        if ok and tb.term(a[0] if len(a) == 1 else a[1], at) == tb.term(_expr(f"len({pidx})"), at):
            return f"{pidx}[{target.id}]", target.id
        return None
    if tb.term(it, at) == sampled:
        return target.id, None
    return None


def _comp_with(comp: ast.AST, elt: ast.AST) -> ast.AST:
    """The comprehension `comp` with another element expression (same generators)."""
    new = ast.ListComp(elt=elt, generators=comp.generators)
    return ast.fix_missing_locations(ast.copy_location(new, comp))


def _comp_build(tb: TermBuilder, e: ast.AST, at: Node, pidx: str) -> Optional[_Build]:
    if not isinstance(e, (ast.ListComp, ast.GeneratorExp)):
        return None
    g = e.generators[0]
    it = _index_iteration(tb, at, g.target, g.iter, pidx) if len(e.generators) == 1 and not g.is_async else None
    why = ""
    if it is None:
        why = "the comprehension does not run over the sampled indices one by one, first to last"
    elif g.ifs:
        why = "the filter drops sampled indices: the weights no longer line up with the indices"
    return _Build(g.iter, it[0] if it else None, why, [(e.elt, at)], e)


def _loop_build(tb: TermBuilder, e: ast.AST, at: Node, pidx: str) -> Optional[_Build]:
    if not isinstance(e, ast.Name):
        return None
    cfg = tb.cfg
    defs = cfg.defs_reaching(at, e.id)
    writes = [d for d in defs if cfg.value_of_def(d, e.id) is None]
    binds = [d for d in defs if d not in writes]
    if not writes:
        return None

    def inside(loop: ast.AST, d: Node) -> bool:
        return d.stmt is not None and any(x is d.stmt for b in loop.body for x in ast.walk(b))

    loops = [l for l in cfg.live_nodes() if l.kind == "for" and any(inside(l.ast, w) for w in writes)]
    if len(loops) != 1:
        return _Build(writes[0].ast, None, f"`{short(writes[0].ast, 80)}` changes the container outside every loop" if not loops else
                      f"`{e.id}` is updated in place by {len(loops)} (nested) loops; expected one loop over the sampled indices", [])
    L = loops[0]
    it = _index_iteration(tb, L, L.ast.target, L.ast.iter, pidx)
    if it is None:
        return _Build(L.ast.iter, None, "the loop does not visit the sampled indices one by one, first to last", [])
    index_src, counter = it
    elems: List[Tuple[ast.AST, Node]] = []
    why = ""
    appends = 0
    for w in writes:
        s = w.ast
        if not inside(L.ast, w):
            why = why or f"`{short(s, 80)}` changes the container outside the loop over the sampled indices"
        elif w.kind == "stmt" and isinstance(s, ast.Assign) and len(s.targets) == 1 and isinstance(s.targets[0], ast.Subscript) \
                and isinstance(s.targets[0].value, ast.Name) and s.targets[0].value.id == e.id:
            # element store: the position written is the position of the sampled index (the loop's own counter)
            okp = counter is not None and cfg.defs_reaching(w, counter) == [L] \
                and tb.term(s.targets[0].slice, w) == tb.term(ast.Name(id=counter, ctx=ast.Load()), w)
            if not okp:
                why = why or f"`{short(s.targets[0], 80)}` is not the position of the sampled index the weight belongs to"
            elems.append((s.value, w))
        elif w.kind == "stmt" and isinstance(s, ast.Expr) and isinstance(s.value, ast.Call) and last_attr(s.value) == "append" \
                and len(s.value.args) == 1 and not s.value.keywords and not isinstance(s.value.args[0], ast.Starred):
            appends += 1
            elems.append((s.value.args[0], w))
        else:
            why = why or f"`{short(s, 80)}` changes the container in a way that is not one weight per sampled index"
    if appends:
        empty = all((isinstance(v, ast.List) and not v.elts) or (isinstance(v, ast.Call) and call_name(v) == "list" and not v.args)
                    for v in (cfg.value_of_def(b, e.id) for b in binds))
        if appends != len(writes) or appends != 1 or not empty:
            why = why or "appending lines up with the sampled indices only with one append per iteration to a list that starts empty"
    if not binds or any(inside(L.ast, b) for b in binds):
        why = why or f"`{e.id}` is not allocated once, before the loop"
    if any(isinstance(o, (ast.For, ast.AsyncFor, ast.While)) and o is not L.ast and any(x is L.ast for x in ast.walk(o)) for o in ast.walk(tb.fn.node)):
        why = why or "the loop over the sampled indices is nested in another loop"
    if cfg.path_avoiding(L, {L.id}, {w.id for w in writes}) is not None:
        why = why or "some iterations do not write a weight: a sampled index is left without its weight"
    return _Build(L.ast.iter, index_src, why, elems)


def _carries(cfg: CFG, e: ast.AST, at: Node, want: ast.AST, through_methods: bool = True, _depth: int = 0) -> bool:
    """the value of `e` (evaluated at `at`) is what the call `want` returned: the call itself, a local every reaching definition of which binds
    such a value (temporaries, either arm of a conditional expression) and — with `through_methods` — a method call on / an attribute or
    subscript of / a first-argument adapter function applied to such a value."""
    if e is want:
        return True
    if _depth > 12:
        return False
    if isinstance(e, ast.NamedExpr):
        return _carries(cfg, e.value, at, want, through_methods, _depth + 1)
    if isinstance(e, ast.IfExp):
        return _carries(cfg, e.body, at, want, through_methods, _depth + 1) and _carries(cfg, e.orelse, at, want, through_methods, _depth + 1)
    if isinstance(e, ast.Name):
        defs = cfg.defs_reaching(at, e.id)
        vals = [cfg.value_of_def(d, e.id) for d in defs]
        return bool(defs) and all(v is not None and d.kind == "stmt" and d is not at and _carries(cfg, v, d, want, through_methods, _depth + 1)
                                  for d, v in zip(defs, vals))
    if not through_methods:
        return False
    if isinstance(e, ast.Call):
        if isinstance(e.func, ast.Attribute) and not (call_name(e) in _SEQ_FUNCS and e.args):
            return _carries(cfg, e.func.value, at, want, through_methods, _depth + 1)
        if call_name(e) in _SEQ_FUNCS and e.args and not isinstance(e.args[0], ast.Starred):
            return _carries(cfg, e.args[0], at, want, through_methods, _depth + 1)
        return False
    if isinstance(e, (ast.Attribute, ast.Subscript)):
        return _carries(cfg, e.value, at, want, through_methods, _depth + 1)
    return False


def _weights(ck: Check, repo: Repo) -> None:
    fn = repo.fn(RB, "PrioritizedReplayBuffer._calculate_weights")
    cfg = CFG(fn.node)
    tb = TermBuilder(repo, fn, cfg=cfg, depth=0)
    if len(fn.params) < 3:
        raise AnalysisError("_calculate_weights: expected the parameters (self, sampled indices, beta)")
    me, pidx, pbeta = fn.params[0], fn.params[1], fn.params[2]
    rets = [n for n in cfg.live_nodes() if n.kind == "stmt" and isinstance(n.ast, ast.Return) and n.ast.value is not None]
    if not rets:
        raise AnalysisError("_calculate_weights: no value is returned")
    # What is returned is a sequence with one weight per sampled index, at the position of that index.  The sequence is located from
    # the returned value (through value-neutral adapters and plain local bindings), whichever way it is built:
    #   * a comprehension / generator over the sampled indices whose element is the weight;
    #   * a container updated in place by one loop over the sampled indices (element store at the loop position, or append).
    builds: List[_Build] = []
    unresolved: List[ast.AST] = []
    for r in rets:
        for e, at in _sources(cfg, r.ast.value, r):
            b = _comp_build(tb, e, at, pidx) or _loop_build(tb, e, at, pidx)
            if b is None:
                unresolved.append(e)
            elif not any(b.site is x.site for x in builds):
                builds.append(b)
    if not builds:
        # nothing per-index is returned: the obligations are stated for the per-index sequences the function does build (the last one fails)
        for n in cfg.live_nodes():
            for x in n.walk():
                b = _comp_build(tb, x, n, pidx)
                if b is not None and b.index_src is not None:
                    builds.append(b)
            for key, strong in cfg.defs_at(n) if n.kind == "stmt" else []:
                b = _loop_build(tb, ast.Name(id=key, ctx=ast.Load()), cfg.exit, pidx) if not strong and "." not in key else None
                if b is not None and b.index_src is not None and not any(b.site is x.site for x in builds):
                    builds.append(b)
    if not builds:
        raise AnalysisError("_calculate_weights: found neither a comprehension over the sampled indices nor a container filled by a loop over them")
    for b in builds:
        ck.ob("C11.5", fn, b.site, b.index_src is not None and not b.why, "weights are computed for each sampled index in order", detail=b.why)
    builds = [b for b in builds if b.index_src is not None and not b.why]
    if not builds:
        return
    ck.floor("C11.5", sum(len(b.elems) for b in builds), 1, "weight of a sampled index (element store in the loop / element of the comprehension)", fn=fn)
    for b in builds:
        spec_src = (f"(({me}.sum_tree[{b.index_src}] / {me}.sum_tree.sum()) * {me}.size) ** (-{pbeta}) / "
                    f"(({me}.min_tree.min() / {me}.sum_tree.sum()) * {me}.size) ** (-{pbeta})")
        for e, at in b.elems:
            if b.comp is not None:
                # element terms are compared under the comprehension's own bindings: same generators, specified element
                got, want = tb.term(_comp_with(b.comp, e), at), tb.term(_comp_with(b.comp, _expr(spec_src)), at)
                ga, wa = single_atom(tb, got), single_atom(tb, want)
                detail = f"got {ga.sub[0].key()[:220]} ; expected {wa.sub[0].key()[:220]}" if ga is not None and wa is not None and ga.sub and wa.sub else ""
            else:
                got, want = tb.term(e, at), tb.term(_expr(spec_src), at)
                detail = f"got {got.key()[:220]} ; expected {want.key()[:220]}"
            ck.ob("C11.5", fn, at.ast if b.comp is None else e, got == want, "weight_i = (p_i*N)^-beta / (p_min*N)^-beta", detail=detail)
    ck.ob("C11.5", fn, rets[0].ast, not unresolved, "what is returned is the sequence of per-index weights (the tensor filled in the loop / built from the comprehension)",
          detail="; ".join(f"`{short(u, 80)}` is not built from the per-index weights" for u in unresolved))
    # sample(): weights computed for the sampled indices; idxs returned are those indices
    sm = repo.fn(RB, "PrioritizedReplayBuffer.sample")
    scfg = CFG(sm.node)
    cw = [c for c in calls_in(sm.node) if call_name(c) == "self._calculate_weights"]
    sp = [c for c in calls_in(sm.node) if call_name(c) == "self._sample_proportional"]
    ok = len(cw) == 1 and len(sp) == 1 and bool(cw[0].args) and not isinstance(cw[0].args[0], ast.Starred)
    if ok:
        n = scfg.node_of(cw[0])
        # the argument IS what _sample_proportional returned: the call itself or plain temporaries bound to it (no conversion in between)
        ok = n is not None and _carries(scfg, cw[0].args[0], n, sp[0], through_methods=False)
    ck.ob("C11.5", sm, cw[0] if cw else sm.node, ok, "weights are computed for exactly the indices drawn by _sample_proportional")
    ok = bool(sp) and dotted(sp[0].args[0]) == "batch_size"
    ck.ob("C11.6", sm, sp[0] if sp else sm.node, ok, "the number of strata equals the requested batch size")
    st = [n for n in walk_no_nested(sm.node) if isinstance(n, ast.Assign) and isinstance(n.targets[0], ast.Subscript) and const_value(n.targets[0].slice) in ("idxs", "weights")]
    for n in st:
        key = const_value(n.targets[0].slice)
        # role of the stored value: what the _sample_proportional call (idxs) / the _calculate_weights call (weights) returned, handed on
        # directly, through temporaries or through method calls / attributes / subscripts applied to it (their types are the business of C11.9)
        want = (sp[0] if sp else None) if key == "idxs" else (cw[0] if cw else None)
        nn = scfg.node_of(n)
        ok = want is not None and nn is not None and _carries(scfg, n.value, nn, want)
        ck.ob("C11.5", sm, n, ok, f"batch['{key}'] carries the sampled {key}")
    beta = [c for c in cw if len(c.args) == 2 and dotted(c.args[1]) == "beta"]
    ck.ob("C11.5", sm, cw[0] if cw else sm.node, bool(beta), "the caller's beta is the exponent used")


def _strata(ck: Check, repo: Repo) -> None:
    fn = repo.fn(RB, "PrioritizedReplayBuffer._sample_proportional")
    cfg = CFG(fn.node)
    tb = TermBuilder(repo, fn, cfg=cfg, depth=0)
    calls = [c for c in calls_in(fn.node) if last_attr(c) == "retrieve"]
    ck.floor("C11.6", len(calls), 1, "retrieve call in _sample_proportional", fn=fn)
    loops = [n for n in cfg.live_nodes() if n.kind == "for"]
    ok = len(loops) == 1 and isinstance(loops[0].ast.iter, ast.Call) and call_name(loops[0].ast.iter) == "range" and dotted(loops[0].ast.iter.args[0]) == "batch_size"
    ck.ob("C11.6", fn, loops[0].ast.iter if loops else fn.node, ok, "one draw per stratum, batch_size strata")
    if not ok:
        return
    ivar = loops[0].ast.target.id
    for c in calls:
        n = cfg.node_of(c)
        ck.ob("C11.6", fn, c, dotted(c.func.value) == "self.sum_tree", "the index is retrieved from the sum tree")
        got = tb.term(c.args[0], n)
        # find the uniform draw atom
        rnd = [a for a in (tb.atoms[k] for k in got.atoms()) if a.kind == "call" and ("rand" in a.name or "uniform" in a.name or "random" in a.name)]
        okr = len(rnd) == 1
        detail = f"mass = {got.key()[:200]}"
        if okr:
            U = Poly.atom(rnd[0].key)
            seg = tb.term(_expr("self.sum_tree.sum() / batch_size"), n)
            i = tb.term(ast.Name(id=ivar, ctx=ast.Load()), n)
            want = U * seg + seg * i
            okr = got == want
            detail += f" ; expected {want.key()[:200]}"
        ck.ob("C11.6", fn, c, okr, "the query mass is seg*i + u*seg with u uniform on [0,1) and seg = total/batch_size", detail=detail)
        # result stored at indices[i]
        st = [x for x in cfg.live_nodes() if x.kind == "stmt" and isinstance(x.ast, ast.Assign) and isinstance(x.ast.targets[0], ast.Subscript)
              and dotted(x.ast.targets[0].slice) == ivar]
        okst = bool(st) and all(cfg.defs_reaching(x, dotted(x.ast.value)) and n in cfg.defs_reaching(x, dotted(x.ast.value)) or x.ast.value is c for x in st)
        ck.ob("C11.6", fn, st[0].ast if st else c, okst, "the retrieved index of stratum i is stored at position i")


def _retrieve(ck: Check, repo: Repo) -> None:
    fn = repo.fn(ST, "SumSegmentTree.retrieve")
    cfg = CFG(fn.node)
    tb = TermBuilder(repo, fn, cfg=cfg, depth=0)
    loops = [n for n in cfg.live_nodes() if n.kind == "test" and isinstance(n.stmt, ast.While)]
    if len(loops) != 1:
        raise AnalysisError("retrieve: expected one descent loop")
    lp = loops[0]
    c = lp.ast
    ok = isinstance(c, ast.Compare) and isinstance(c.ops[0], ast.Lt) and isinstance(c.left, ast.Name) and dotted(c.comparators[0]) == "self.capacity"
    ck.ob("C11.7", fn, c, ok, "the descent continues while the node is internal (idx < capacity)")
    if not ok:
        return
    var = c.left.id
    tests = [n for n in cfg.live_nodes() if n.kind == "test" and isinstance(n.stmt, ast.If) and any(x is n.stmt for b in lp.stmt.body for x in ast.walk(b))]
    ck.ob("C11.7", fn, fn.node, len(tests) == 1, "one left/right decision per level", construct="if in retrieve loop")
    if len(tests) != 1:
        return
    t = tests[0]
    cur = tb.term(ast.Name(id=var, ctx=ast.Load()), t)
    two = Poly.const(2)
    left_leaf = lambda n_: tb.term(_expr(f"self.tree[2 * {var}]"), t)  # noqa: E731
    cmp = t.ast
    mass_name = "upperbound"
    okc = False
    if isinstance(cmp, ast.Compare) and len(cmp.ops) == 1:
        l, r = tb.term(cmp.left, t), tb.term(cmp.comparators[0], t)
        L = left_leaf(t)
        M = tb.term(ast.Name(id=mass_name, ctx=ast.Load()), t)
        okc = (isinstance(cmp.ops[0], ast.Gt) and l == L and r == M) or (isinstance(cmp.ops[0], ast.Lt) and l == M and r == L)
    ck.ob("C11.7", fn, cmp, okc, "go left iff tree[left child] > remaining mass (strict)", detail=ast.unparse(cmp))
    # true branch: idx = 2*idx ; false branch: mass -= tree[left]; idx = 2*idx+1
    def branch_defs(region_start):
        reg = cfg._region([region_start], t) if region_start is not None else set()
        reg = {i for i in reg if cfg.nodes[i].stmt is not None and any(x is cfg.nodes[i].stmt for x in ast.walk(t.stmt))}
        return [cfg.nodes[i] for i in sorted(reg)]
    tr = branch_defs(t.true_succ)
    fl = branch_defs(t.false_succ)
    def new_val(nodes, name):
        for n_ in nodes:
            if n_.kind == "stmt" and isinstance(n_.ast, (ast.Assign, ast.AugAssign)):
                tg = n_.ast.targets[0] if isinstance(n_.ast, ast.Assign) else n_.ast.target
                if dotted(tg) == name:
                    if isinstance(n_.ast, ast.Assign):
                        return tb.term(n_.ast.value, n_), n_
                    prev = tb.term(ast.Name(id=name, ctx=ast.Load()), n_)
                    rhs = tb.term(n_.ast.value, n_)
                    return (prev - rhs if isinstance(n_.ast.op, ast.Sub) else prev + rhs), n_
        return None, None
    v, n_ = new_val(tr, var)
    ck.ob("C11.7", fn, n_.ast if n_ else t.ast, v is not None and v == two * cur and new_val(tr, mass_name)[0] is None,
          "left branch: idx <- 2*idx, mass unchanged", detail=f"idx <- {v.key()[:80] if v else None}")
    v, n_ = new_val(fl, var)
    ck.ob("C11.7", fn, n_.ast if n_ else t.ast, v is not None and v == two * cur + Poly.const(1), "right branch: idx <- 2*idx + 1",
          detail=f"idx <- {v.key()[:80] if v else None}")
    mv, mn = new_val(fl, mass_name)
    M = tb.term(ast.Name(id=mass_name, ctx=ast.Load()), t)
    ck.ob("C11.7", fn, mn.ast if mn else t.ast, mv is not None and mv == M - left_leaf(t), "right branch: the left subtree's mass is subtracted",
          detail=f"mass <- {mv.key()[:120] if mv else None}")
    rets = [n for n in cfg.live_nodes() if n.kind == "stmt" and isinstance(n.ast, ast.Return)]
    ok = bool(rets) and all(tb.term(r.ast.value, r) == tb.term(ast.Name(id=var, ctx=ast.Load()), r) - tb.term(_expr("self.capacity"), r) for r in rets)
    ck.ob("C11.7", fn, rets[0].ast if rets else fn.node, ok, "the leaf position is converted back to a buffer index (idx - capacity)")
    # start at the root
    inits = [d for d in cfg.defs_reaching(lp, var) if not any(x is d.stmt for b in lp.stmt.body for x in ast.walk(b))]
    ck.ob("C11.7", fn, inits[0].ast if inits else fn.node, len(inits) == 1 and const_value(cfg.value_of_def(inits[0], var)) == 1, "the descent starts at the root (node 1)")


_RBF = "agilerl/components/replay_buffer.py"
_STF = "agilerl/components/segment_tree.py"
VARIANTS = [
    ("ancestor-loop-stops-early", _STF, "        while idx >= 1:", "        while idx > 1:", "fire", "C11.1"),
    ("wrong-child", _STF, "self.tree[idx] = self.operation(self.tree[2 * idx], self.tree[2 * idx + 1])", "self.tree[idx] = self.operation(self.tree[2 * idx], self.tree[2 * idx])", "fire", "C11.1"),
    ("no-initial-halving", _STF, "        self.tree[idx] = val\n\n        idx //= 2\n", "        self.tree[idx] = val\n\n", "fire", "C11.1"),
    ("leaf-without-offset", _STF, "        idx += self.capacity\n        self.tree[idx] = val", "        self.tree[idx] = val\n        idx += self.capacity", "fire", "C11.1"),
    ("min-tree-neutral-zero", _STF, 'operation=min, init_value=float("inf")', "operation=min, init_value=0.0", "fire", "C11.1"),
    ("only-sum-tree", _RBF, "        self.sum_tree[idx] = priority_alpha\n        self.min_tree[idx] = priority_alpha\n", "        self.sum_tree[idx] = priority_alpha\n", "fire", "C11.2"),
    ("min-tree-raw-priority", _RBF, "        self.min_tree[idx] = priority_alpha\n", "        self.min_tree[idx] = priority\n", "fire", "C11.2"),
    ("alpha-dropped", _RBF, "priority_alpha = priority**self.alpha", "priority_alpha = priority", "fire", "C11.2"),
    ("max-priority-not-updated", _RBF, "self.max_priority = max(self.max_priority, priority)", "self.max_priority = self.max_priority", "fire", "C11.3"),
    ("new-gets-one", _RBF, "self._update_priority(self.tree_ptr, self.max_priority)", "self._update_priority(self.tree_ptr, 1.0)", "fire", "C11.3"),
    ("ptr-modulus-tree-capacity", _RBF, "self.tree_ptr = (self.tree_ptr + 1) % self.max_size", "self.tree_ptr = (self.tree_ptr + 1) % self.sum_tree.capacity", "fire", "C11.4"),
    ("one-priority-per-batch", _RBF, "        for i in range(n_transitions):\n            self._update_priority", "        for i in range(1):\n            self._update_priority", "fire", "C11.4"),
    ("weights-no-normalise", _RBF, "weights[i] = weight / max_weight  # Normalize", "weights[i] = weight", "fire", "C11.5"),
    ("weights-positive-beta", _RBF, "weight = (p_sample * self.size) ** -beta", "weight = (p_sample * self.size) ** beta", "fire", "C11.5"),
    ("pmin-from-sum", _RBF, "p_min = self.min_tree.min() / self.sum_tree.sum()", "p_min = self.min_tree.min()", "fire", "C11.5"),
    ("weights-capacity", _RBF, "max_weight = (p_min * self.size) ** -beta", "max_weight = (p_min * self.max_size) ** -beta", "fire", "C11.5"),
    ("weights-refactor-ok", _RBF, "            p_sample = self.sum_tree[idx] / self.sum_tree.sum()\n            weight = (p_sample * self.size) ** -beta\n",
     "            total = self.sum_tree.sum()\n            weight = (self.size * self.sum_tree[idx] / total) ** (-beta)\n", "silent", None),
    ("strata-overlap", _RBF, "            a = segment * i\n            b = segment * (i + 1)", "            a = segment * i\n            b = segment * (i + 2)", "fire", "C11.6"),
    ("strata-whole-range", _RBF, "upperbound = torch.rand(1).item() * (b - a) + a", "upperbound = torch.rand(1).item() * total_priority", "fire", "C11.6"),
    ("retrieve-nonstrict", _STF, "if self.tree[left] > upperbound:", "if self.tree[right] > upperbound:", "fire", "C11.7"),
    ("retrieve-no-subtract", _STF, "                upperbound -= self.tree[left]\n", "", "fire", "C11.7"),
    ("retrieve-leaf-index", _STF, "        return idx - self.capacity", "        return idx", "fire", "C11.7"),
    ("update-priorities-misaligned", _RBF, "for idx, priority in zip(indices, priorities):", "for idx, priority in zip(indices, reversed(priorities)):", "fire", "C11.2"),
]
VARIANTS += [
    ("max-update-moved-to-caller-loop-ok", _RBF, "        # Update max priority\n        self.max_priority = max(self.max_priority, priority)\n", "        pass\n", "fire", "C11.3"),
    ("sum-tree-delta-override", _STF, "    def sum(self, start: int = 0, end: int = 0) -> float:",
     "    def __setitem__(self, idx, val):\n        idx += self.capacity\n        delta = val - self.tree[idx]\n        self.tree[idx] = val\n        idx //= 2\n        while idx >= 1:\n            self.tree[idx] += delta\n            idx //= 2\n\n    def sum(self, start: int = 0, end: int = 0) -> float:", "fire", "C11.1"),
]
# the per-index weights may be built by any construction that keeps position k for sampled index k (C11.5)
_W_LOOP = ("        for i, idx in enumerate(indices):\n            p_sample = self.sum_tree[idx] / self.sum_tree.sum()\n"
           "            weight = (p_sample * self.size) ** -beta\n            weights[i] = weight / max_weight  # Normalize\n\n        return weights\n")
_W_ELT = "(self.sum_tree[idx] / self.sum_tree.sum() * self.size) ** -beta / max_weight"
VARIANTS += [
    ("weights-comprehension-ok", _RBF, _W_LOOP, "        total = self.sum_tree.sum()\n        normalized = [(self.sum_tree[idx] / total * self.size) ** -beta / max_weight for idx in indices]\n"
     "        return torch.tensor(normalized, device=self.device).reshape(len(indices))\n", "silent", None),
    ("weights-generator-ok", _RBF, _W_LOOP, f"        return torch.as_tensor(list({_W_ELT} for idx in indices), device=self.device)\n", "silent", None),
    ("weights-append-loop-ok", _RBF, _W_LOOP, f"        out = []\n        for idx in indices:\n            out.append({_W_ELT})\n        return torch.tensor(out, device=self.device)\n", "silent", None),
    ("weights-range-loop-ok", _RBF, "        for i, idx in enumerate(indices):\n", "        for i in range(batch_size):\n            idx = indices[i]\n", "silent", None),
    ("weights-position-through-temporary-ok", _RBF, "            weights[i] = weight / max_weight  # Normalize\n",
     "            pos = i\n            weights[pos] = weight / max_weight\n", "silent", None),
    ("weights-moved-to-device-afterwards-ok", _RBF, "        return weights\n\n    def update_priorities(", "        weights = weights.to(self.device)\n        return weights\n\n    def update_priorities(", "silent", None),
    ("weights-comprehension-no-normalise", _RBF, _W_LOOP, "        return torch.tensor([(self.sum_tree[idx] / self.sum_tree.sum() * self.size) ** -beta for idx in indices], device=self.device)\n", "fire", "C11.5"),
    ("weights-comprehension-leaf-not-probability", _RBF, _W_LOOP, "        return torch.tensor([(self.sum_tree[idx] * self.size) ** -beta / max_weight for idx in indices], device=self.device)\n", "fire", "C11.5"),
    ("weights-comprehension-filtered", _RBF, _W_LOOP, f"        return torch.tensor([{_W_ELT} for idx in indices if idx > 0], device=self.device)\n", "fire", "C11.5"),
    ("weights-comprehension-reversed", _RBF, _W_LOOP, f"        return torch.tensor([{_W_ELT} for idx in reversed(indices)], device=self.device)\n", "fire", "C11.5"),
    ("weights-comprehension-rescaled", _RBF, _W_LOOP, f"        return 2 * torch.tensor([{_W_ELT} for idx in indices], device=self.device)\n", "fire", "C11.5"),
    ("weights-append-twice", _RBF, _W_LOOP, f"        out = []\n        for idx in indices:\n            out.append({_W_ELT})\n            out.append({_W_ELT})\n        return torch.tensor(out, device=self.device)\n", "fire", "C11.5"),
    ("weights-wrong-position", _RBF, "            weights[i] = weight / max_weight  # Normalize\n", "            weights[idx] = weight / max_weight\n", "fire", "C11.5"),
    ("weights-store-skipped", _RBF, "            weights[i] = weight / max_weight  # Normalize\n",
     "            if p_sample > 0:\n                weights[i] = weight / max_weight\n", "fire", "C11.5"),
    ("weights-range-loop-neighbour-index", _RBF, "        for i, idx in enumerate(indices):\n", "        for i in range(batch_size):\n            idx = indices[i - 1]\n", "fire", "C11.5"),
    ("weights-rescaled-after-loop", _RBF, "        return weights\n\n    def update_priorities(", "        weights /= weights.sum()\n        return weights\n\n    def update_priorities(", "fire", "C11.5"),
]
# C11.8: every (index, priority) pair of an update reaches _update_priority; C11.9: the weights keep a fixed wide floating type
_UP_CALL = "            # Update the priority\n            self._update_priority(idx.item(), priority)\n"
_UP_HEAD = "        for idx, priority in zip(indices, priorities):\n            # Handle small priorities\n"
_W_ALLOC = "        weights = torch.zeros(batch_size, device=self.device)\n"
_W_RET = "        return weights\n\n    def update_priorities("
VARIANTS += [
    ("update-skips-repeated-index", _RBF, _UP_HEAD, "        updated = set()\n        for idx, priority in zip(indices, priorities):\n            if idx.item() in updated:\n"
     "                continue\n            updated.add(idx.item())\n            # Handle small priorities\n", "fire", "C11.8"),
    ("update-skips-repeated-index-nested-if", _RBF, _UP_CALL, "            if idx.item() not in self._written:\n                self._written.add(idx.item())\n"
     "                self._update_priority(idx.item(), priority)\n", "fire", "C11.8"),
    ("update-stops-at-first-small-priority", _RBF, _UP_HEAD, "        for idx, priority in zip(indices, priorities):\n            if priority.item() <= 0:\n                break\n"
     "            # Handle small priorities\n", "fire", "C11.8"),
    ("update-write-in-conditional-expression", _RBF, _UP_CALL, "            self._update_priority(idx.item(), priority) if priority > self.max_priority else None\n", "fire", "C11.8"),
    ("update-writes-priority-of-first-pair", _RBF, "            priority = max(priority.item(), 1e-5)\n", "            priority = max(priorities[0].item(), 1e-5)\n", "fire", "C11.8"),
    ("update-temporaries-ok", _RBF, "            priority = max(priority.item(), 1e-5)\n\n" + _UP_CALL,
     "            floored = max(priority.item(), 1e-5)\n            position = int(idx.item())\n            self._update_priority(position, floored)\n", "silent", None),
    ("update-floor-by-if-ok", _RBF, "            priority = max(priority.item(), 1e-5)\n",
     "            priority = priority.item()\n            if priority < 1e-5:\n                priority = 1e-5\n", "silent", "C11.8"),
    ("weights-in-storage-dtype", _RBF, _W_ALLOC, "        weights = torch.zeros(batch_size, dtype=self.dtype, device=self.device)\n", "fire", "C11.9"),
    ("weights-cast-to-storage-dtype-on-return", _RBF, _W_RET, "        return weights.to(self.dtype)\n\n    def update_priorities(", "fire", "C11.9"),
    ("weights-cast-to-storage-dtype-through-local", _RBF, _W_RET, "        kind = self.dtype\n        weights = weights.to(device=self.device, dtype=kind)\n        return weights\n\n    def update_priorities(", "fire", "C11.9"),
    ("weights-half-precision", _RBF, _W_RET, "        return weights.half()\n\n    def update_priorities(", "fire", "C11.9"),
    ("weights-typed-like-the-indices", _RBF, _W_ALLOC, "        weights = torch.zeros_like(indices, device=self.device)\n", "fire", "C11.9"),
    ("weights-cast-in-sample", _RBF, 'samples["weights"] = weights.unsqueeze(1)', 'samples["weights"] = weights.unsqueeze(1).to(self.dtype)', "fire", "C11.9"),
    ("weights-comprehension-in-storage-dtype", _RBF, _W_LOOP, f"        return torch.tensor([{_W_ELT} for idx in indices], dtype=self.dtype, device=self.device)\n", "fire", "C11.9"),
    ("weights-explicit-float32-ok", _RBF, _W_ALLOC, "        weights = torch.zeros(batch_size, dtype=torch.float32, device=self.device)\n", "silent", None),
    ("weights-allocated-then-moved-ok", _RBF, _W_ALLOC, "        weights = torch.zeros(batch_size)\n        weights = weights.to(self.device)\n", "silent", None),
    ("weights-float-cast-in-sample-ok", _RBF, 'samples["weights"] = weights.unsqueeze(1)', 'samples["weights"] = weights.float().unsqueeze(1)', "silent", None),
]
# C11.5 (sample): the value stored under "weights" / handed to _calculate_weights is traced by data flow (direct call, temporaries, adapters);
# C11.2: pair k of update_priorities is recognised however the loop visits the pairs (zip, enumerate + position, positions)
_S_W = ("        weights = self._calculate_weights(indices, beta)\n\n        # Add weights and indices to the batch\n"
        '        samples["weights"] = weights.unsqueeze(1)\n')
_S_DRAW = "        indices = self._sample_proportional(batch_size)\n\n        # Gather transitions\n"
_UP_PRIO = "            priority = max(priority.item(), 1e-5)\n"
VARIANTS += [
    ("sample-weights-temporary-folded-ok", _RBF, _S_W, '        samples["weights"] = self._calculate_weights(indices, beta).unsqueeze(1)\n', "silent", None),
    ("sample-weights-two-temporaries-ok", _RBF, _S_W, "        weights = self._calculate_weights(indices, beta)\n        column = weights.unsqueeze(1)\n"
     '        samples["weights"] = column\n', "silent", None),
    ("sample-indices-through-temporary-ok", _RBF, _S_DRAW, "        drawn = self._sample_proportional(batch_size)\n        indices = drawn\n\n", "silent", None),
    ("sample-weights-of-permuted-indices", _RBF, _S_W, '        samples["weights"] = self._calculate_weights(indices.flip(0), beta).unsqueeze(1)\n', "fire", "C11.5"),
    ("sample-weights-replaced-by-ones", _RBF, _S_W, '        samples["weights"] = torch.ones_like(self._calculate_weights(indices, beta)).unsqueeze(1)\n', "fire", "C11.5"),
    ("sample-weights-temporary-rebound", _RBF, _S_W, "        weights = self._calculate_weights(indices, beta)\n        weights = torch.ones(batch_size)\n"
     '        samples["weights"] = weights.unsqueeze(1)\n', "fire", "C11.5"),
    ("update-pairs-by-position-ok", _RBF, _UP_HEAD, "        for k in range(len(indices)):\n            idx = indices[k]\n            priority = priorities[k]\n"
     "            # Handle small priorities\n", "silent", None),
    ("update-pairs-enumerate-ok", _RBF, _UP_HEAD, "        for k, idx in enumerate(indices):\n            priority = priorities[k]\n            # Handle small priorities\n", "silent", None),
    ("update-pairs-swapped-zip-ok", _RBF, _UP_HEAD, "        for priority, idx in zip(priorities, indices):\n            # Handle small priorities\n", "silent", None),
    ("update-pairs-by-position-neighbour", _RBF, _UP_HEAD, "        for k, idx in enumerate(indices):\n            priority = priorities[k - 1]\n"
     "            # Handle small priorities\n", "fire", "C11.2"),
    ("update-pairs-priority-from-index-sequence", _RBF, _UP_HEAD, "        for idx, priority in zip(indices, indices):\n            # Handle small priorities\n", "fire", "C11.2"),
]
