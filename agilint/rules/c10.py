"""C10 — n-step returns never cross an episode boundary and stay aligned with 1-step data."""
from __future__ import annotations

import ast
from typing import List, Optional, Set, Tuple

from ..cfg import CFG, Node
from ..core import AnalysisError, Fn, Repo, call_name, calls_in, const_value, dotted, last_attr, short, walk_no_nested
from ..domains import FRESH, SHALLOW, OwnEval
from ..report import Check
from ..terms import Atom, Poly, TermBuilder, mentions, single_atom, walk_atoms
from ..util import self_attr_stores

RB = "agilerl.components.replay_buffer"


def run(ck: Check, repo: Repo) -> None:
    ck.not_decided += ["wrap-around equality of the two buffers as data (runtime values)",
                       "numeric value of the discounted sum"]
    cls = repo.cls(RB, "MultiStepReplayBuffer")
    init = cls.methods.get("__init__")
    info = repo.fn(RB, "MultiStepReplayBuffer._get_n_step_info")
    add = repo.fn(RB, "MultiStepReplayBuffer.add")
    # --- roles from the constructor
    window = reward_key = ns_key = None
    for attr, vals in self_attr_stores(init).items():
        for v in vals:
            if isinstance(v, ast.Call) and call_name(v).split(".")[-1] == "deque":
                window = attr
            if isinstance(v, ast.Constant) and v.value == "reward":
                reward_key = attr
            if isinstance(v, ast.Constant) and v.value == "next_obs":
                ns_key = attr
    done_attrs = [a for a in self_attr_stores(info)]
    if not (window and reward_key and ns_key and len(done_attrs) == 1):
        raise AnalysisError(f"MultiStepReplayBuffer roles not found (window={window}, reward={reward_key}, next={ns_key}, done={done_attrs})")
    done_key = done_attrs[0]
    ck.note("roles", {"window": window, "reward_key": reward_key, "next_obs_key": ns_key, "done_key": done_key})
    ck.rule("C10.1", "no reward of a later window element is consumed unless the done flag of every earlier element was tested "
                     "(first element before the loop; current element before the next iteration), with the not-done polarity")
    ck.rule("C10.2", "the exponent of gamma applied to an element's reward equals the element's position in the window")
    ck.rule("C10.3", "next_obs and done of the fused transition are taken from the element whose reward was just added, on every path")
    ck.rule("C10.4", "the fused transition starts from a copy of the first window element and only reward / next_obs / done are rewritten")
    ck.rule("C10.5", "alignment: add() returns the oldest 1-step transition on exactly the paths on which it stores a fused one; the "
                     "training loop stores the 1-step transition iff one is returned and samples both buffers with the same indices")

    cfg = CFG(info.node)
    tb = TermBuilder(repo, info, cfg=cfg, depth=0)
    W = f"attr:self.{window}"

    def derives_from_window(a: Atom) -> bool:
        return a.kind == "attr" and a.name == f"self.{window}"

    def is_e0(a: Atom) -> bool:
        return a.kind == "idx" and a.name.strip() == "0" and bool(a.sub) and mentions(tb, a.sub[0], derives_from_window)

    def is_elem(a: Atom) -> bool:
        if a.kind == "idx" and len(a.sub) == 2 and index_loops:
            # index loop: `<window>[t]` with t computed from the loop index is the element at position t; once the position of the element
            # whose reward is added is known, only that element is "the current element"
            for k, pos in index_loops.values():
                if mentions(tb, a.sub[1], lambda b, k_=k: b.key == k_) and taken_from_window(a.sub[0]):
                    return pos is None or (a.sub[1] - pos).const_value() == 0
            return False
        if a.key in index_atoms:
            return False  # the loop index itself is a number, not an element (its range mentions len(window))
        return (a.kind in ("iter",) or (a.kind == "idx" and a.name == "elem")) and bool(a.sub) and mentions(tb, a.sub[0], derives_from_window)

    def taken_from_window(p: Poly, _seen: Optional[Set[str]] = None) -> bool:
        """p is the window itself or a sequence copied / sliced from it — not a number computed from it (len, range) and not a container
        that is merely indexed with something computed from it."""
        _seen = _seen if _seen is not None else set()
        for k in sorted(p.atoms()):
            a = tb.atoms.get(k)
            if a is None or k in _seen:
                continue
            _seen.add(k)
            if derives_from_window(a):
                return True
            if a.kind == "call" and a.name in ("len", "range"):
                continue
            if any(taken_from_window(x, _seen) for x in (a.sub[:1] if a.kind == "idx" else a.sub)):
                return True
        return False

    def field_of(pred, key_attr: str):
        def f(a: Atom) -> bool:
            return a.kind == "idx" and a.name == f"attr:self.{key_attr}" and bool(a.sub) and mentions(tb, a.sub[0], pred)
        return f

    _rec_memo = {}
    index_loops = {}
    index_atoms: Set[str] = set()

    def is_done_rec(a: Atom) -> bool:
        """A loop-carried local that holds a done flag: some definition of it is computed from a window element's done field
        (role by data flow, not by the local's spelling)."""
        if a.kind != "rec":
            return False
        if a.name not in _rec_memo:
            _rec_memo[a.name] = False  # cut self-reference (flag = flag or done)
            for d in cfg.live_nodes():
                if d.kind == "entry" or not any(k == a.name for k, _ in cfg.defs_at(d)):
                    continue
                v = cfg.value_of_def(d, a.name)
                if v is not None and mentions(tb, tb.term(v, d), field_of(is_elem, done_key)):
                    _rec_memo[a.name] = True
                    break
        return _rec_memo[a.name]

    loops = [n for n in cfg.live_nodes() if n.kind == "for" and mentions(tb, tb.term(n.ast.iter, n), derives_from_window)]
    if not loops:
        raise AnalysisError("_get_n_step_info: no loop over the window found")
    # index loops `for k in range(.., len(window))`: loop id -> (key of the index atom, position term of the element whose reward is read)
    for L in loops:
        if isinstance(L.ast.iter, ast.Call) and call_name(L.ast.iter) == "range" and isinstance(L.ast.target, ast.Name):
            ka = single_atom(tb, tb._name_via(ast.Name(id=L.ast.target.id, ctx=ast.Load()), L, set()))
            if ka is not None:
                index_atoms.add(ka.key)
                index_loops[L.id] = (ka.key, None)
    for lid, (k, _) in sorted(index_loops.items()):
        L = cfg.nodes[lid]
        poss: List[Poly] = []
        for n in (cfg.nodes[i] for i in _body_ids(cfg, L)):
            for x in n.walk():
                if isinstance(x, ast.Subscript) and isinstance(x.ctx, ast.Load):
                    a = single_atom(tb, tb.term(x, n))
                    if a is not None and a.kind == "idx" and a.name == f"attr:self.{reward_key}" and a.sub:
                        el = single_atom(tb, a.sub[0])
                        if el is not None and is_elem(el) and not any((el.sub[1] - q).const_value() == 0 for q in poss):
                            poss.append(el.sub[1])
        if len(poss) > 1:
            raise AnalysisError(f"_get_n_step_info: rewards of {len(poss)} different window positions are read in one iteration "
                                f"({[q.key() for q in poss]}) — shape not recognised")
        if poss:
            index_loops[lid] = (k, poss[0])

    def reward_read(L: Node) -> Optional[Node]:
        ids = _body_ids(cfg, L)
        for n in sorted((cfg.nodes[i] for i in ids), key=lambda x: x.lineno):
            for x in n.walk():
                if isinstance(x, ast.Subscript) and isinstance(x.ctx, ast.Load):
                    a = single_atom(tb, tb.term(x, n))
                    if a is not None and field_of(is_elem, reward_key)(a):
                        return n
        return None

    # ---- every scan of the window ends at the first terminal element, existentially over parallel environments
    n_done_tests = 0
    for L in loops:
        ids = _body_ids(cfg, L)
        for n in (cfg.nodes[i] for i in ids):
            if n.kind == "test" and n.true_succ is not None and isinstance(n.stmt, ast.If):
                t = tb.term(n.ast, n)
                if not (mentions(tb, t, field_of(is_elem, done_key)) or mentions(tb, t, is_done_rec)):
                    continue
                n_done_tests += 1
                isf = lambda e_, n_=n: not isinstance(e_, (ast.BoolOp, ast.UnaryOp)) and (  # noqa: E731
                    mentions(tb, tb.term(e_, n_), field_of(is_elem, done_key)) or mentions(tb, tb.term(e_, n_), is_done_rec))
                reg_t = cfg._region([n.true_succ], n)
                reg_f = cfg._region([s for s in n.succ if s is not n.true_succ and s.id not in n.exc_succ], n)
                exits = (L.id not in reg_t and flag_implies(n.ast, True, isf)) or (L.id not in reg_f and flag_implies(n.ast, False, isf))
                ck.ob("C10.1", info, n.ast, exits,
                      "a terminal window element ends the scan of the window (break / return on done)",
                      detail="after an element with done=1 the loop goes on to later elements, which belong to the next episode")
                reds = {last_attr(c) for c in ast.walk(n.ast) if isinstance(c, ast.Call)} | {call_name(c) for c in ast.walk(n.ast) if isinstance(c, ast.Call)}
                bad = reds & {"all", "torch.all", "np.all", "min", "prod"}
                ck.ob("C10.1", info, n.ast, not bad and bool(reds & {"any", "torch.any", "np.any", "max", "sum", "item"}),
                      "with parallel environments the window is cut as soon as ANY environment's episode ends (existential reduction of the done flags)",
                      detail=f"reduction used: {sorted(reds)}; `all` keeps summing for the environments that already ended, mixing in their next episode")
    reward_loops = [(L, reward_read(L)) for L in loops]
    reward_loops = [(L, r) for L, r in reward_loops if r is not None]
    if len(reward_loops) != 1:
        raise AnalysisError(f"_get_n_step_info: expected exactly one loop that sums the rewards of the window, found {len(reward_loops)} "
                            f"(of {len(loops)} loops over the window) — shape not recognised")
    loop, R = reward_loops[0]
    if len(loops) != 1:
        raise AnalysisError(f"_get_n_step_info: {len(loops)} loops over the window — multi-pass shape not recognised by C10.2-C10.4")
    body_ids = _body_ids(cfg, loop)

    # ---------------- C10.1 (first element)
    done0 = field_of(is_e0, done_key)
    donek = field_of(is_elem, done_key)
    guards = _branching_on(cfg, tb, done0)
    ok0 = False
    why0 = "no branch on the first element's done flag dominates the read of the second element's reward"
    for kind, node, cond, extra in guards:
        if not cfg.dominates(node, R) or node is R:
            continue
        isf0 = lambda e_, n_=node: not isinstance(e_, (ast.BoolOp, ast.UnaryOp)) and mentions(tb, tb.term(e_, n_), done0)  # noqa: E731
        if kind == "test":
            reg_true = cfg._region([node.true_succ], node) if node.true_succ else set()
            others = [s for s in node.succ if s is not node.true_succ and s.id not in node.exc_succ]
            reg_false = cfg._region(others, node)
            if (R.id not in reg_true and flag_implies(cond, True, isf0)) or (R.id not in reg_false and flag_implies(cond, False, isf0)):
                ok0 = True
                why0 = f"`{short(cond, 80)}` at line {node.lineno} keeps the loop body out of the terminal case"
            else:
                # statement form of `it = [] if done(first) else <window>`: on the terminal outcome the loop's iterable is bound to an empty sequence
                used = {x.id for x in ast.walk(loop.ast.iter) if isinstance(x, ast.Name)}
                for pol, reg in ((True, reg_true), (False, reg_false)):
                    if not flag_implies(cond, pol, isf0):
                        continue
                    for name in used:
                        reach = [d for d in cfg.defs_reaching(loop, name)]
                        here = [d for d in reach if d.id in reg]
                        vals = [cfg.value_of_def(d, name) for d in here]
                        if here and all(v is not None and _is_empty_seq(v) for v in vals) and len(here) < len(reach):
                            ok0 = True
                            why0 = f"the iterable `{name}` is bound to an empty sequence when `{short(cond, 80)}` (line {node.lineno})"
        elif kind == "ifexp":
            feeds_loop = _feeds(cfg, node, loop)
            if feeds_loop and ((_is_empty_seq(extra.body) and flag_implies(cond, True, isf0)) or (_is_empty_seq(extra.orelse) and flag_implies(cond, False, isf0))):
                ok0 = True
                why0 = f"the iterable is empty when `{short(cond, 80)}` (line {node.lineno})"
    ck.ob("C10.1", info, loop.ast.iter if hasattr(loop.ast, "iter") else info.node, ok0,
          "the reward of the second window element is only added when the first element is not terminal",
          detail=why0 if ok0 else why0 + ": a window whose first transition ends an episode still sums the rewards of the next episode "
                                       "and takes its next_obs/done",
          construct=f"guard on done(first element) before `{short(R.ast, 100)}`")
    # ---------------- C10.1 (current element before next iteration)
    S = set()
    for n in (cfg.nodes[i] for i in body_ids):
        if n.kind == "test" and n.true_succ is not None:
            t = tb.term(n.ast, n)
            if mentions(tb, t, donek) or mentions(tb, t, is_done_rec):
                isf = lambda e_, n_=n: not isinstance(e_, (ast.BoolOp, ast.UnaryOp)) and (  # noqa: E731
                    mentions(tb, tb.term(e_, n_), donek) or mentions(tb, tb.term(e_, n_), is_done_rec))
                reg_t = cfg._region([n.true_succ], n)
                reg_f = cfg._region([s for s in n.succ if s is not n.true_succ and s.id not in n.exc_succ], n)
                if (loop.id not in reg_t and flag_implies(n.ast, True, isf)) or (loop.id not in reg_f and flag_implies(n.ast, False, isf)):
                    S.add(n.id)
    path = cfg.path_avoiding(R, {R.id}, S)
    ck.ob("C10.1", info, R.ast, bool(S) and path is None,
          "between two consecutive reward additions the done flag of the element just added is tested and ends the summation",
          detail=("path back to the next reward addition avoiding every done test: lines " + ",".join(str(x.lineno) for x in path)) if path else
          f"done tests (break on true) at lines {[cfg.nodes[i].lineno for i in sorted(S)]}",
          construct="loop back-edge in _get_n_step_info")

    # ---------------- C10.2 exponent
    pows = []
    for n in (cfg.nodes[i] for i in body_ids):
        for x in n.walk():
            if isinstance(x, ast.BinOp) and isinstance(x.op, ast.Pow) and "gamma" in ast.unparse(x.left):
                pows.append((n, x))
    ck.floor("C10.2", len(pows), 1, "gamma ** k in the window loop", fn=info)
    start, slice_lo, counter = _enumerate_shape(loop.ast, cfg, loop)
    for n, x in pows:
        e = tb.term(x.right, n)
        base = tb.term(x.left, n)
        ok = False
        detail = f"exponent {e.key()}"
        if counter is not None:
            cnt = tb.term(ast.Name(id=counter, ctx=ast.Load()), n)
            diff = e - cnt
            cv = diff.const_value()
            ok = cv is not None and cv == (slice_lo - start)
            detail = f"exponent = counter + {cv}; element position = counter + {slice_lo - start} (slice start {slice_lo}, enumerate start {start})"
        elif loop.id in index_loops and index_loops[loop.id][1] is not None:
            # the element is read as <window>[position]: the exponent must be that very index term, and the first index of the range must
            # address the second window element (position 0 is the base of the sum)
            k, pos = index_loops[loop.id]
            first = _range_first(loop.ast.iter)
            p0 = pos.subst({k: Poly.const(first)}).const_value() if first is not None else None
            ok = (e - pos).const_value() == 0 and p0 == 1
            detail = f"exponent {e.key()}; element read at window position {pos.key()}; first position visited {p0}"
        ck.ob("C10.2", info, x, ok and single_atom(tb, base) is not None and single_atom(tb, base).name == "self.gamma",
              "reward of the element at window position p is discounted by self.gamma ** p", detail=detail)
        # the discounted quantity is the element's reward
        par = _parent_binop(n, x)
        okr = par is not None and mentions(tb, tb.term(par, n), field_of(is_elem, reward_key))
        ck.ob("C10.2", info, par if par is not None else x, okr, "the discount multiplies the current element's reward")
    # base reward from e0
    aug = [n for n in cfg.live_nodes() if n.kind == "stmt" and isinstance(n.ast, ast.AugAssign) and n.id in body_ids and isinstance(n.ast.op, ast.Add)]
    ok = False
    for n in aug:
        if isinstance(n.ast.target, ast.Name):
            init_defs = [d for d in cfg.defs_reaching(loop, n.ast.target.id) if d.id not in body_ids]
            vals = [tb._name_via(ast.Name(id=n.ast.target.id, ctx=ast.Load()), d, set()) for d in init_defs]
            ok = bool(vals) and all(mentions(tb, v, field_of(is_e0, reward_key)) for v in vals)
    ck.ob("C10.2", info, aug[0].ast if aug else info.node, ok, "the running sum starts from the first element's reward (exponent 0)")

    # ---------------- C10.3
    stores = {}
    for n in (cfg.nodes[i] for i in body_ids):
        if n.kind == "stmt" and isinstance(n.ast, ast.Assign) and isinstance(n.ast.targets[0], ast.Subscript):
            k = dotted(n.ast.targets[0].slice)
            stores.setdefault(k, []).append(n)
    for key_attr, what in ((ns_key, "next_obs"), (done_key, "done")):
        ns = stores.get(f"self.{key_attr}", [])
        ok = bool(ns) and all(mentions(tb, tb.term(n.ast.value, n), field_of(is_elem, key_attr)) for n in ns)
        ck.ob("C10.3", info, ns[0].ast if ns else loop.ast, ok, f"the fused transition's {what} is the current element's {what}",
              construct=f"store of {what} in the window loop" if not ns else None)
        if ns:
            p = cfg.path_avoiding(R, {loop.id, cfg.exit.id}, {n.id for n in ns})
            ck.ob("C10.3", info, ns[0].ast, p is None,
                  f"every path from adding an element's reward to the end of the iteration (or a break) rewrites {what} first",
                  detail=("bypassing path through lines " + ",".join(str(x.lineno) for x in p)) if p else "")
    # ---------------- C10.4
    ev = OwnEval(cfg, alias_roots={"self"})
    rets = [n for n in cfg.live_nodes() if n.kind == "stmt" and isinstance(n.ast, ast.Return)]
    for r in rets:
        t = tb.term(r.ast.value, r) if r.ast.value is not None else Poly()
        o = ev.own(r.ast.value, r) if r.ast.value is not None else None
        # a new container is required (keys are re-assigned on it); sharing the tensors inside is harmless as long as nothing is written in place,
        # which the accumulation obligation below decides
        ok = r.ast.value is not None and mentions(tb, t, is_e0) and o is not None and o.level in (FRESH, SHALLOW)
        ck.ob("C10.4", info, r.ast, ok, "the returned transition is a copy of the first window element (its obs/action untouched)",
              detail=f"ownership {o.level if o else '?'}: {o.why if o else ''}")
    allowed = {f"self.{reward_key}", f"self.{ns_key}", f"self.{done_key}"}
    for n in cfg.live_nodes():
        if n.kind == "stmt" and isinstance(n.ast, ast.Assign):
            for t in n.ast.targets:
                if isinstance(t, ast.Subscript) and isinstance(t.value, ast.Name):
                    base_t = tb.term(t.value, n)
                    if mentions(tb, base_t, is_e0):
                        ck.ob("C10.4", info, n.ast, dotted(t.slice) in allowed,
                              "only reward, next_obs and done of the copied first element are overwritten",
                              detail=f"writes key {short(t.slice, 40)}")
    # in-place add must not touch the stored e0 reward: the accumulator is a clone
    for n in aug:
        if isinstance(n.ast.target, ast.Name):
            o = ev.own(ast.Name(id=n.ast.target.id, ctx=ast.Load()), loop)
            ck.ob("C10.4", info, n.ast, o.level == FRESH,
                  "the in-place accumulation works on a clone, not on the reward tensor stored in the window",
                  detail=f"{o.level}: {o.why}")

    # ---------------- C10.5
    _alignment(ck, repo, add, window)
    from ._c10_r5 import run_r5
    run_r5(ck, repo)


def _body_ids(cfg: CFG, loop: Node) -> Set[int]:
    body = loop.ast.body  # type: ignore[attr-defined]
    ids = set()
    for n in cfg.live_nodes():
        s = n.stmt
        if s is None:
            continue
        for b in body:
            if any(x is s for x in ast.walk(b)):
                ids.add(n.id)
                break
    return ids


def flag_implies(cond: ast.AST, want: bool, is_flag) -> bool:
    """Does flag = 1 force `cond` to evaluate to `want`?  (structural: not / and / or / leaf mentioning the flag)"""
    if isinstance(cond, ast.UnaryOp) and isinstance(cond.op, ast.Not):
        return flag_implies(cond.operand, not want, is_flag)
    if isinstance(cond, ast.BoolOp):
        rs = [flag_implies(v, want, is_flag) for v in cond.values]
        if isinstance(cond.op, ast.And):
            return all(rs) if want else any(rs)
        return any(rs) if want else all(rs)
    if isinstance(cond, ast.Compare) and len(cond.ops) == 1 and isinstance(cond.ops[0], (ast.Eq, ast.Is)) \
            and const_value(cond.comparators[0]) in (0, False) and is_flag(cond.left):
        return not want
    if isinstance(cond, ast.Compare) and len(cond.ops) == 1 and isinstance(cond.ops[0], (ast.Gt, ast.NotEq)) \
            and const_value(cond.comparators[0]) in (0, False) and is_flag(cond.left):
        return want
    if is_flag(cond):
        return want
    return False


def _positive(cond: ast.AST) -> bool:
    """True if the condition mentions the flag positively (not under `not`)."""
    neg = False
    while isinstance(cond, ast.UnaryOp) and isinstance(cond.op, ast.Not):
        neg = not neg
        cond = cond.operand
    if isinstance(cond, ast.Compare) and len(cond.ops) == 1 and isinstance(cond.ops[0], (ast.Eq, ast.Is)) and const_value(cond.comparators[0]) in (0, False):
        neg = not neg
    return not neg


def _branching_on(cfg: CFG, tb: TermBuilder, pred) -> List[Tuple[str, Node, ast.AST, Optional[ast.IfExp]]]:
    out = []
    for n in cfg.live_nodes():
        if n.kind == "test" and isinstance(n.stmt, ast.If):
            if mentions(tb, tb.term(n.ast, n), pred):
                out.append(("test", n, n.ast, None))
        for x in n.walk():
            if isinstance(x, ast.IfExp) and mentions(tb, tb.term(x.test, n), pred):
                out.append(("ifexp", n, x.test, x))
    return out


def _is_empty_seq(e: ast.AST) -> bool:
    if isinstance(e, (ast.List, ast.Tuple)) and not e.elts:
        return True
    if isinstance(e, ast.Call) and call_name(e) in ("list", "tuple", "range") and (not e.args or const_value(e.args[0]) == 0):
        return True
    return False


def _feeds(cfg: CFG, node: Node, loop: Node) -> bool:
    """The value defined at `node` is (part of) the loop's iterable."""
    names = {k for k, _ in cfg.defs_at(node)}
    used = {x.id for x in ast.walk(loop.ast.iter) if isinstance(x, ast.Name)}  # type: ignore[attr-defined]
    if node is loop:
        return True
    return any(nm in used and node in cfg.defs_reaching(loop, nm) for nm in names)


def _enumerate_shape(loop: ast.For, cfg: Optional[CFG] = None, node: Optional[Node] = None) -> Tuple[int, int, Optional[str]]:
    """(enumerate start, slice start of the iterated window, counter variable name)."""
    it = loop.iter
    start = 0
    counter = None
    if isinstance(it, ast.Call) and call_name(it) == "enumerate":
        for k in it.keywords:
            if k.arg == "start":
                start = const_value(k.value) or 0
        if len(it.args) > 1:
            start = const_value(it.args[1]) or 0
        if isinstance(loop.target, ast.Tuple) and isinstance(loop.target.elts[0], ast.Name):
            counter = loop.target.elts[0].id
        it = it.args[0]
    lo = 0
    exprs = [it]
    if isinstance(it, ast.Name) and cfg is not None and node is not None:
        exprs = [v for v in (cfg.value_of_def(d, it.id) for d in cfg.defs_reaching(node, it.id)) if v is not None]
    for ex in exprs:
        for x in ast.walk(ex):
            if isinstance(x, ast.Subscript) and isinstance(x.slice, ast.Slice):
                lo = const_value(x.slice.lower) or 0
    return int(start), int(lo), counter


def _range_first(it: ast.Call) -> Optional[int]:
    """First value of `range(...)` with constant start and step 1 (None otherwise)."""
    if it.keywords or not 1 <= len(it.args) <= 3 or (len(it.args) == 3 and const_value(it.args[2]) != 1):
        return None
    if len(it.args) == 1:
        return 0
    v = const_value(it.args[0])
    return v if isinstance(v, int) and not isinstance(v, bool) else None


def _parent_binop(n: Node, x: ast.AST) -> Optional[ast.AST]:
    for y in n.walk():
        if isinstance(y, ast.BinOp) and isinstance(y.op, ast.Mult) and (y.left is x or y.right is x):
            return y
    return None


def _alignment(ck: Check, repo: Repo, add: Fn, window: str) -> None:
    cfg = CFG(add.node)
    stores = [cfg.node_of(c) for c in calls_in(add.node) if call_name(c) in ("super().add",) or
              (isinstance(c.func, ast.Attribute) and c.func.attr == "add" and isinstance(c.func.value, ast.Call) and call_name(c.func.value) == "super")]
    stores = [s for s in stores if s is not None]
    ck.floor("C10.5", len(stores), 1, "store of the fused transition (super().add) in MultiStepReplayBuffer.add", fn=add)
    apps = [cfg.node_of(c) for c in calls_in(add.node) if call_name(c) == f"self.{window}.append"]
    app_ids = {a.id for a in apps if a is not None}
    store_ids = {s.id for s in stores}
    # paths are followed with correlated branches: two tests of the same single-definition local take the same outcome on one path
    # (`full = ...; if full: store ...; return oldest if full else None` is the same function as the early-return form)
    states, into_exit = _explore(cfg, store_ids)
    rets = [n for n in cfg.live_nodes() if n.kind == "stmt" and isinstance(n.ast, ast.Return)]
    for r in rets:
        for v, key, want in _return_alternatives(cfg, r):
            feas = [stored for nid, stored, dec in states if nid == r.id and (key is None or dict(dec).get(key, want) == want)]
            is_none = v is None or (isinstance(v, ast.Constant) and v.value is None)
            if is_none:
                ck.ob("C10.5", add, r.ast, not any(feas), "a `None` return happens only on paths that stored nothing")
            else:
                v0, at0 = _thru(cfg, r, v)
                base0 = _thru(cfg, at0, v0.value)[0] if isinstance(v0, ast.Subscript) else None
                oldest = base0 is not None and dotted(base0) == f"self.{window}" and const_value(v0.slice) == 0 \
                    and not (app_ids & cfg.reachable_from(at0))
                dominated = bool(feas) and all(feas)
                ck.ob("C10.5", add, r.ast, oldest and dominated,
                      "the 1-step transition returned is the oldest window element, and it is returned only after the fused one was stored",
                      detail=f"returns {short(v, 60)}; a store precedes the return on every feasible path: {dominated}")
    ck.ob("C10.5", add, add.node, not any(stored for nid, stored in into_exit if not (cfg.nodes[nid].kind == "stmt" and isinstance(cfg.nodes[nid].ast, ast.Return))),
          "no path stores a fused transition and then falls off the end (returning None)", construct="implicit return in add()")
    # window append precedes everything; the store is guarded by len(window) >= n_step
    ck.ob("C10.5", add, add.node, bool(apps) and all(all(cfg.dominates(a, s) for s in stores) for a in apps if a),
          "the new transition enters the window before the fused transition is computed", construct="window append dominates store")
    tests = [n for n in cfg.live_nodes() if n.kind == "test" and f"self.{window}" in ast.unparse(n.ast) and "n_step" in ast.unparse(n.ast)]
    ok = bool(stores)
    shown = None
    for s in stores:
        g_ok = False
        for g, pol, t in cfg.guards_at(s):
            c, at = _thru(cfg, t, g, negations=True)
            # the length compared is the one the store sees: nothing is appended after the condition was evaluated
            if _implies_full(cfg, at, c[0], pol == c[1], window) and not (app_ids & cfg.reachable_from(at)):
                g_ok = True
                shown = shown if shown is not None else c[0]
        ok = ok and g_ok
    ck.ob("C10.5", add, shown if shown is not None else (tests[0].ast if tests else add.node), ok,
          "nothing is stored while the window holds fewer than n_step transitions (len(window) < n_step returns early)")
    # training loop
    tr = repo.fn("agilerl.training.train_off_policy", "train_off_policy")
    tcfg = CFG(tr.node)
    nadds = [c for c in calls_in(tr.node) if call_name(c) == "n_step_memory.add"]
    ck.floor("C10.5", len(nadds), 1, "n_step_memory.add call in train_off_policy", fn=tr)
    for c in nadds:
        n = tcfg.node_of(c)
        res = [k for k, _ in tcfg.defs_at(n)]
        madds = [(cc, tcfg.node_of(cc)) for cc in calls_in(tr.node) if call_name(cc) == "memory.add"]
        ok = False
        for cc, mn in madds:
            if mn is None or not res:
                continue
            if isinstance(cc.args[0], ast.Name) and cc.args[0].id == res[0] and n in tcfg.defs_reaching(mn, res[0]):
                gs = tcfg.guards_at(mn)
                ok = any(pol and isinstance(g, ast.Compare) and isinstance(g.ops[0], ast.IsNot) and dotted(g.left) == res[0]
                         and const_value(g.comparators[0]) is None for g, pol, _ in gs)
                # and nothing else adds to memory on the n-step path
        ck.ob("C10.5", tr, c, ok,
              "the main memory receives exactly the 1-step transition returned by the n-step buffer, iff it is not None")
        # the raw transition is not also added on the n-step path
        for cc, mn in madds:
            if mn is None:
                continue
            if isinstance(cc.args[0], ast.Name) and res and cc.args[0].id != res[0]:
                gs = tcfg.guards_at(mn)
                excl = any((not pol) and "n_step_memory is not None" in ast.unparse(g) or (pol and "n_step_memory is None" in ast.unparse(g)) for g, pol, _ in gs)
                ck.ob("C10.5", tr, cc, excl, "the raw transition goes to the main memory only when no n-step buffer is used")
    # roles: the n-step sampler is the local built as Sampler(memory=n_step_memory); every other Sampler(...) local is the 1-step sampler
    one_samplers, nstep_samplers = _sampler_roles(tr)
    ns = [c for c in calls_in(tr.node) if isinstance(c.func, ast.Attribute) and c.func.attr == "sample"
          and isinstance(c.func.value, ast.Name) and c.func.value.id in nstep_samplers]
    ck.floor("C10.5", len(ns), 4, "n_step_sampler.sample calls in train_off_policy", fn=tr)
    for c in ns:
        n = tcfg.node_of(c)
        a = c.args[0] if c.args else None
        ok = isinstance(a, ast.Subscript) and const_value(a.slice) == "idxs" and isinstance(a.value, ast.Name)
        if ok:
            defs = tcfg.defs_reaching(n, a.value.id)
            ok = bool(defs) and all(isinstance(tcfg.value_of_def(d, a.value.id), ast.Call) and _is_one_step_sample(tcfg.value_of_def(d, a.value.id), one_samplers) for d in defs)
            # same iteration: the definition dominates the use
            ok = ok and any(tcfg.dominates(d, n) for d in defs)
        ck.ob("C10.5", tr, c, ok, "the n-step batch is drawn with the indices of the 1-step batch sampled just before")


def _thru(cfg: CFG, at: Node, e: ast.AST, negations: bool = False):
    """Look through single-definition temporaries: (expression, node at which it is evaluated).  With `negations` the expression is
    returned as (expression, polarity) with leading `not`s folded into the polarity."""
    pol = True
    for _ in range(8):
        if negations and isinstance(e, ast.UnaryOp) and isinstance(e.op, ast.Not):
            e, pol = e.operand, not pol
            continue
        if not isinstance(e, ast.Name):
            break
        defs = cfg.defs_reaching(at, e.id)
        v = cfg.value_of_def(defs[0], e.id) if len(defs) == 1 and defs[0].kind == "stmt" else None
        if v is None:
            break
        e, at = v, defs[0]
    return ((e, pol), at) if negations else (e, at)


def _cond_key(cfg: CFG, at: Node, test: ast.AST):
    """Identity of the truth value a test reads: (key, polarity).  A local with exactly one reaching definition is the same value at
    every test that reads it (until that definition executes again); any other expression is only equal to itself."""
    pol = True
    while isinstance(test, ast.UnaryOp) and isinstance(test.op, ast.Not):
        test, pol = test.operand, not pol
    if isinstance(test, ast.Name):
        defs = cfg.defs_reaching(at, test.id)
        if len(defs) == 1:
            return ("def", test.id, defs[0].id), pol
    return None, pol


def _explore(cfg: CFG, store_ids: Set[int]):
    """Path-sensitive walk from the entry: states (node, a store was executed, outcomes of the correlated conditions decided so far) and
    the edges into the normal exit as (node, stored)."""
    start = (cfg.entry.id, False, frozenset())
    seen = {start}
    into_exit = set()
    todo = [start]
    while todo:
        nid, stored, dec = todo.pop()
        n = cfg.nodes[nid]
        outs = []
        if n.kind == "test" and n.true_succ is not None:
            key, pol = _cond_key(cfg, n, n.ast)
            fsucc = [n.false_succ] if n.false_succ is not None else [s for s in n.succ if s is not n.true_succ and s.id not in n.exc_succ]
            for branch, succs in ((True, [n.true_succ]), (False, fsucc)):
                nd = dec
                if key is not None:
                    d = dict(dec)
                    if d.get(key, branch == pol) != (branch == pol):
                        continue  # contradicts an earlier test of the same value
                    d[key] = branch == pol
                    nd = frozenset(d.items())
                outs += [(s, nd) for s in succs]
            outs += [(s, dec) for s in n.succ if s.id in n.exc_succ]
        else:
            outs = [(s, dec) for s in n.succ]
        for s, nd in outs:
            ns = stored or (nid in store_ids and s.id not in n.exc_succ)
            if s is cfg.exit:
                into_exit.add((nid, ns))
            st = (s.id, ns, frozenset(kv for kv in nd if kv[0][2] != s.id))
            if st not in seen:
                seen.add(st)
                todo.append(st)
    return seen, into_exit


def _return_alternatives(cfg: CFG, r: Node):
    """(value, condition key, required outcome) per value a return statement can deliver: a conditional expression is two returns."""
    v = r.ast.value  # type: ignore[attr-defined]
    if isinstance(v, ast.IfExp):
        key, pol = _cond_key(cfg, r, v.test)
        if key is None:
            key = ("ifexp", "", -r.id - 1)  # an expression evaluated here only: both alternatives feasible, correlated with nothing
        return [(v.body, key, pol), (v.orelse, key, not pol)]
    return [(v, None, True)]


def _implies_full(cfg: CFG, at: Node, c: ast.AST, pol: bool, window: str) -> bool:
    """Does outcome `pol` of condition c imply len(self.<window>) >= self.n_step ?"""
    if not (isinstance(c, ast.Compare) and len(c.ops) == 1):
        return False
    flip = {ast.Lt: ast.Gt, ast.Gt: ast.Lt, ast.LtE: ast.GtE, ast.GtE: ast.LtE, ast.Eq: ast.Eq, ast.NotEq: ast.NotEq}
    lhs, rhs, op = c.left, c.comparators[0], type(c.ops[0])
    if op not in flip:
        return False

    def is_len(e: ast.AST) -> bool:
        return isinstance(e, ast.Call) and call_name(e) == "len" and len(e.args) == 1 and not e.keywords \
            and dotted(_thru(cfg, at, e.args[0])[0]) == f"self.{window}"

    if dotted(lhs) == "self.n_step" and is_len(rhs):
        lhs, rhs, op = rhs, lhs, flip[op]
    if not (is_len(lhs) and dotted(rhs) == "self.n_step"):
        return False
    return op in (ast.GtE, ast.Eq) if pol else op in (ast.Lt, ast.NotEq)


def _sampler_roles(tr: Fn) -> Tuple[Set[str], Set[str]]:
    """(locals bound to a Sampler over the main memory / dataset, locals bound to Sampler(memory=n_step_memory)).
    `n_step_memory` is a parameter of train_off_policy; the locals' names are computed, never spelled."""
    one: Set[str] = set()
    nstep: Set[str] = set()
    for n in walk_no_nested(tr.node):
        if isinstance(n, ast.Assign) and len(n.targets) == 1 and isinstance(n.targets[0], ast.Name) \
                and isinstance(n.value, ast.Call) and last_attr(n.value) == "Sampler":
            over_nstep = any(isinstance(x, ast.Name) and x.id == "n_step_memory" for a in list(n.value.args) + [k.value for k in n.value.keywords]
                             for x in ast.walk(a))
            (nstep if over_nstep else one).add(n.targets[0].id)
    return one - nstep, nstep - one


def _is_one_step_sample(v: Optional[ast.AST], one_samplers: Set[str]) -> bool:
    return isinstance(v, ast.Call) and isinstance(v.func, ast.Attribute) and v.func.attr == "sample" \
        and isinstance(v.func.value, ast.Name) and v.func.value.id in one_samplers


_RBF = "agilerl/components/replay_buffer.py"
_TOP = "agilerl/training/train_off_policy.py"
VARIANTS = [
    ("nstep-shallow-first-copy-with-cloned-accumulator-ok", _RBF, "        first_transition: TensorDict = self.n_step_buffer[0].clone()\n", "        first_transition: TensorDict = self.n_step_buffer[0].clone(recurse=False)\n", "silent", None),
    ("nstep-deep-first-copy-without-extra-accumulator-clone-ok", _RBF, "        n_step_reward = n_step_reward.clone()\n", "", "silent", None),
    ("first-done-ignored", _RBF, "        if first_transition[self.done_key].bool().any():\n            return first_transition\n", "", "fire", "C10.1"),
    ("first-done-inverted", _RBF, "        if first_transition[self.done_key].bool().any():\n            return first_transition\n",
     "        if not first_transition[self.done_key].bool().any():\n            return first_transition\n", "fire", "C10.1"),
    ("first-done-ifexp-ok", _RBF, "        if first_transition[self.done_key].bool().any():\n            return first_transition\n\n        # Get the last next_state and done flag\n        for i, transition in enumerate(list(self.n_step_buffer)[1:]):",
     "        later = [] if first_transition[self.done_key].bool().any() else list(self.n_step_buffer)[1:]\n        for i, transition in enumerate(later):", "silent", None),
    ("break-removed", _RBF, "            if done.bool().any():  # Stop if episode terminated\n                break\n", "", "fire", "C10.1"),
    ("break-on-not-done", _RBF, "            if done.bool().any():  # Stop if episode terminated", "            if not done.bool().any():", "fire", "C10.1"),
    ("exponent-off-by-one", _RBF, "n_step_reward += reward * (self.gamma ** (i + 1))", "n_step_reward += reward * (self.gamma ** i)", "fire", "C10.2"),
    ("exponent-start-ok", _RBF, "for i, transition in enumerate(list(self.n_step_buffer)[1:]):\n            # Add discounted reward\n            reward: torch.Tensor = transition[self.reward_key]\n            n_step_reward += reward * (self.gamma ** (i + 1))",
     "for i, transition in enumerate(list(self.n_step_buffer)[1:], start=1):\n            # Add discounted reward\n            reward: torch.Tensor = transition[self.reward_key]\n            n_step_reward += reward * (self.gamma ** i)", "silent", None),
    ("next-obs-from-first", _RBF, "next_obs: torch.Tensor = transition[self.ns_key]", "next_obs: torch.Tensor = self.n_step_buffer[0][self.ns_key]", "fire", "C10.3"),
    ("done-store-after-break", _RBF, "            first_transition[self.done_key] = done.clone()\n\n            if done.bool().any():  # Stop if episode terminated\n                break\n",
     "            if done.bool().any():  # Stop if episode terminated\n                break\n            first_transition[self.done_key] = done.clone()\n", "fire", "C10.3"),
    ("no-clone-of-first", _RBF, "first_transition: TensorDict = self.n_step_buffer[0].clone()", "first_transition: TensorDict = self.n_step_buffer[0]", "fire", "C10.4"),
    ("no-second-clone-ok", _RBF, "        n_step_reward = n_step_reward.clone()\n", "", "silent", None),
    ("accumulate-on-window-reward", _RBF, "n_step_reward: torch.Tensor = first_transition[self.reward_key]\n        n_step_reward = n_step_reward.clone()",
     "n_step_reward: torch.Tensor = self.n_step_buffer[0][self.reward_key]", "fire", "C10.4"),
    ("return-newest", _RBF, "        super().add(n_step_data)\n        return self.n_step_buffer[0]", "        super().add(n_step_data)\n        return self.n_step_buffer[-1]", "fire", "C10.5"),
    ("return-raw-data", _RBF, "        super().add(n_step_data)\n        return self.n_step_buffer[0]", "        super().add(n_step_data)\n        return data", "fire", "C10.5"),
    ("store-before-full", _RBF, "if len(self.n_step_buffer) < self.n_step:", "if len(self.n_step_buffer) < self.n_step - 1:", "fire", "C10.5"),
    ("train-adds-raw", _TOP, "                    if one_step_transition is not None:\n                        memory.add(one_step_transition)", "                    if one_step_transition is not None:\n                        memory.add(transition)", "fire", "C10.5"),
    ("train-adds-always", _TOP, "                    if one_step_transition is not None:\n                        memory.add(one_step_transition)", "                    memory.add(transition)", "fire", "C10.5"),
]
VARIANTS += [
    ("any-to-all", _RBF, "            if done.bool().any():  # Stop if episode terminated", "            if done.bool().all():", "fire", "C10.1"),
    ("first-check-only-when-uninitialised", _RBF, "        if first_transition[self.done_key].bool().any():\n            return first_transition\n",
     "        if not self.initialized and first_transition[self.done_key].bool().any():\n            return first_transition\n", "fire", "C10.1"),
    ("first-check-or-ok", _RBF, "        if first_transition[self.done_key].bool().any():\n            return first_transition\n",
     "        if self.n_step == 1 or first_transition[self.done_key].bool().any():\n            return first_transition\n", "silent", None),
]
VARIANTS += [
    # the n-step sampler is recognised by what it is built over, not by the local's name
    ("train-nstep-sampler-over-main-memory", _TOP, "n_step_sampler = Sampler(memory=n_step_memory)", "n_step_sampler = Sampler(memory=memory)", "fire", "C10.5"),
]
_LOOP_HEAD = ("        for i, transition in enumerate(list(self.n_step_buffer)[1:]):\n            # Add discounted reward\n"
              "            reward: torch.Tensor = transition[self.reward_key]\n            n_step_reward += reward * (self.gamma ** (i + 1))\n\n"
              "            # Update next_state and done flag\n            done: torch.Tensor = transition[self.done_key]\n")


def _index_loop(rng: str, pos: str, exponent: str, done_pos: Optional[str] = None) -> str:
    return (f"        for i in {rng}:\n            transition = self.n_step_buffer[{pos}]\n"
            f"            n_step_reward += transition[self.reward_key] * (self.gamma ** {exponent})\n"
            f"            done: torch.Tensor = {'transition' if done_pos is None else f'self.n_step_buffer[{done_pos}]'}[self.done_key]\n")


_ADD_TAIL = ("        if len(self.n_step_buffer) < self.n_step:\n            return\n\n        # Calculate n-step return\n"
             "        n_step_data = self._get_n_step_info()\n\n        # Add to replay buffer\n        super().add(n_step_data)\n"
             "        return self.n_step_buffer[0]\n")
_ADD_FROM_APPEND = "        self.n_step_buffer.append(data)\n\n        # If buffer is not full yet, don't process n-step return\n" + _ADD_TAIL
VARIANTS += [
    # the element's position is the index it is read with: `window[k]` under `for k in range(1, len(window))` == enumerate(list(window)[1:]) with i + 1
    ("index-loop-ok", _RBF, _LOOP_HEAD, _index_loop("range(1, len(self.n_step_buffer))", "i", "i"), "silent", None),
    ("index-loop-shifted-ok", _RBF, _LOOP_HEAD, _index_loop("range(len(self.n_step_buffer) - 1)", "i + 1", "(i + 1)"), "silent", None),
    ("index-loop-exponent-off-by-one", _RBF, _LOOP_HEAD, _index_loop("range(1, len(self.n_step_buffer))", "i", "(i + 1)"), "fire", "C10.2"),
    ("index-loop-reads-previous-element", _RBF, _LOOP_HEAD, _index_loop("range(1, len(self.n_step_buffer))", "i - 1", "i"), "fire", "C10.2"),
    ("index-loop-includes-first-element", _RBF, _LOOP_HEAD, _index_loop("range(len(self.n_step_buffer))", "i", "i"), "fire", "C10.2"),
    ("index-loop-done-of-previous-element", _RBF, _LOOP_HEAD, _index_loop("range(1, len(self.n_step_buffer))", "i", "i", done_pos="i - 1"), "fire", "C10."),
    # add(): store and non-None return under the same named condition == early return on its complement
    ("add-named-condition-ok", _RBF, _ADD_TAIL,
     "        window_full = len(self.n_step_buffer) >= self.n_step\n        if window_full:\n            super().add(self._get_n_step_info())\n"
     "        return self.n_step_buffer[0] if window_full else None\n", "silent", None),
    ("add-named-condition-returns-oldest-always", _RBF, _ADD_TAIL,
     "        window_full = len(self.n_step_buffer) >= self.n_step\n        if window_full:\n            super().add(self._get_n_step_info())\n"
     "        return self.n_step_buffer[0]\n", "fire", "C10.5"),
    ("add-named-condition-return-inverted", _RBF, _ADD_TAIL,
     "        window_full = len(self.n_step_buffer) >= self.n_step\n        if window_full:\n            super().add(self._get_n_step_info())\n"
     "        return None if window_full else self.n_step_buffer[0]\n", "fire", "C10.5"),
    ("add-named-condition-redefined-before-return", _RBF, _ADD_TAIL,
     "        window_full = len(self.n_step_buffer) >= self.n_step\n        if window_full:\n            super().add(self._get_n_step_info())\n"
     "        window_full = len(self.n_step_buffer) > 0\n        return self.n_step_buffer[0] if window_full else None\n", "fire", "C10.5"),
    ("add-condition-evaluated-before-append", _RBF, _ADD_FROM_APPEND,
     "        window_full = len(self.n_step_buffer) >= self.n_step\n        self.n_step_buffer.append(data)\n        if window_full:\n"
     "            super().add(self._get_n_step_info())\n        return self.n_step_buffer[0] if window_full else None\n", "fire", "C10.5"),
    ("add-named-condition-one-short", _RBF, _ADD_TAIL,
     "        window_full = len(self.n_step_buffer) >= self.n_step - 1\n        if window_full:\n            super().add(self._get_n_step_info())\n"
     "        return self.n_step_buffer[0] if window_full else None\n", "fire", "C10.5"),
]

_CLR = "        super().clear()\n        self.n_step_buffer.clear()\n"
VARIANTS += [
    ("clear-window-resized-keeps-contents", _RBF, _CLR, "        super().clear()\n        self.n_step_buffer = deque(self.n_step_buffer, maxlen=self.n_step)\n", "fire", "C10.6"),
    ("clear-window-copied-via-local", _RBF, _CLR, "        super().clear()\n        old = list(self.n_step_buffer)\n        self.n_step_buffer = deque(old, maxlen=self.n_step)\n", "fire", "C10.6"),
    ("clear-window-not-emptied", _RBF, _CLR, "        super().clear()\n", "fire", "C10.6"),
    ("clear-window-emptied-only-when-full", _RBF, _CLR, "        super().clear()\n        if len(self.n_step_buffer) >= self.n_step:\n            self.n_step_buffer.clear()\n", "fire", "C10.6"),
    ("clear-one-step-storage-kept", _RBF, _CLR, "        self.n_step_buffer.clear()\n", "fire", "C10.6"),
    ("clear-window-rebound-fresh-ok", _RBF, _CLR, "        super().clear()\n        self.n_step_buffer = deque(maxlen=self.n_step)\n", "silent", None),
    ("clear-window-rebound-fresh-empty-iterable-ok", _RBF, _CLR, "        fresh = deque([], maxlen=self.n_step)\n        self.n_step_buffer = fresh\n        ReplayBuffer.clear(self)\n", "silent", None),
    ("clear-window-via-alias-reordered-ok", _RBF, _CLR, "        window = self.n_step_buffer\n        window.clear()\n        super().clear()\n", "silent", None),
    ("clear-one-step-reset-inline-ok", _RBF, _CLR, "        self.n_step_buffer.clear()\n        self._size = self._cursor = 0\n        self._storage, self.initialized = None, False\n", "silent", None),
]
