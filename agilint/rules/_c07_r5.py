"""C07.14 (helper module of c07), added after the fifth round of seeded changes.

* C07.14  what the checkpoint writer leaves out is decided by KIND or by NAME, never by a property of the VALUE: every filter of
          `get_checkpoint_dict` and of the `inspect_attributes` it uses (condition of a comprehension, `if` inside a loop, predicate handed to
          getmembers / filter — looked through local helper functions and lambdas) is a Boolean combination of kind tests (isinstance / issubclass /
          callable / hasattr / `is…` predicates / type(x) is T) and name tests (membership in / equality with the enumerated names, startswith /
          endswith).  A test of the value's size, length, shape, dtype, truth value, identity with None ... drops an attribute for SOME agents only:
          the restored agent keeps the constructor's value there (the bandits' `sigma_inv` would start again from lambda * I).
"""
from __future__ import annotations

import ast
from typing import Dict, List, Optional, Set, Tuple

from ..core import Fn, Repo, call_name, dotted, last_attr, short
from ..report import Check

BASE = "agilerl.algorithms.core.base"

_KIND_CALLS = ("isinstance", "issubclass", "callable", "hasattr")
_NAME_METHODS = ("startswith", "endswith")
_EQ_OPS = (ast.In, ast.NotIn, ast.Eq, ast.NotEq, ast.Is, ast.IsNot)


def _plain(e: ast.AST, depth: int = 0) -> bool:
    """an operand that reads no property of a value: names, attribute chains, constant subscripts, displays of these, type(x), getattr(o, n),
    <mapping>.keys() / list(<plain>) ..."""
    if depth > 6:
        return False
    if isinstance(e, ast.Constant):
        return e.value is not None
    if isinstance(e, ast.Name):
        return True
    if isinstance(e, ast.Attribute):
        return bool(dotted(e)) and e.attr not in ("shape", "dtype", "ndim", "nbytes", "size", "device", "requires_grad", "grad")
    if isinstance(e, ast.Subscript):
        return _plain(e.value, depth + 1) and isinstance(e.slice, (ast.Constant, ast.Name))
    if isinstance(e, (ast.Tuple, ast.List, ast.Set)):
        return all(_plain(x, depth + 1) for x in e.elts)
    if isinstance(e, ast.Call) and not e.keywords:
        if call_name(e) in ("type", "getattr", "list", "set", "tuple", "frozenset"):
            return all(_plain(a, depth + 1) for a in e.args)
        if isinstance(e.func, ast.Attribute) and e.func.attr == "keys" and not e.args:
            return _plain(e.func.value, depth + 1)
    return False


class _Filters:
    """The filter conditions of one function and their verdicts."""

    def __init__(self, repo: Repo, fn: Fn):
        self.repo, self.fn = repo, fn
        self.params = set(fn.params)
        # local helpers: nested definitions and lambdas bound to a local
        self.local: Dict[str, ast.AST] = {}
        for x in ast.walk(fn.node):
            if isinstance(x, (ast.FunctionDef, ast.AsyncFunctionDef)) and x is not fn.node:
                self.local[x.name] = x
            elif isinstance(x, ast.Assign) and isinstance(x.value, ast.Lambda):
                for t in x.targets:
                    if isinstance(t, ast.Name):
                        self.local[t.id] = x.value

    # ------------------------------------------------------------------ sites
    def sites(self) -> List[Tuple[str, ast.AST]]:
        out: List[Tuple[str, ast.AST]] = []
        helpers = {id(v) for v in self.local.values()}

        def visit(n: ast.AST, in_loop: bool) -> None:
            if id(n) in helpers:
                return  # judged where it is called
            if isinstance(n, (ast.ListComp, ast.SetComp, ast.DictComp, ast.GeneratorExp)):
                for g in n.generators:
                    out.extend(("filter of a comprehension", c) for c in g.ifs)
            elif isinstance(n, ast.If) and in_loop:
                out.append(("condition inside a loop", n.test))
            elif isinstance(n, ast.Call):
                for a in list(n.args) + [k.value for k in n.keywords]:
                    if isinstance(a, ast.Lambda):
                        out.append((f"predicate handed to {call_name(n) or last_attr(n)}", a.body))
                    elif isinstance(a, ast.Name) and a.id in self.local and call_name(n) in ("filter", "inspect.getmembers", "getmembers", "itertools.filterfalse", "filterfalse"):
                        out.append((f"predicate handed to {call_name(n)}", ast.Call(func=a, args=[], keywords=[])))
            for c in ast.iter_child_nodes(n):
                visit(c, in_loop or isinstance(n, (ast.For, ast.AsyncFor, ast.While)))

        for st in self.fn.node.body:
            visit(st, False)
        return out

    # ------------------------------------------------------------------ verdict
    def helper(self, c: ast.Call) -> Optional[ast.AST]:
        if isinstance(c.func, ast.Name):
            if c.func.id in self.local:
                return self.local[c.func.id]
            f = self.fn.mod.functions.get(c.func.id)
            if f is not None and f.mod.name == self.fn.mod.name and not c.func.id.startswith("is"):
                return f.node
        return None

    def offending(self, e: ast.AST, seen: Set[int], depth: int = 0) -> List[ast.AST]:
        """the parts of condition e that are neither a kind test nor a name test (empty: the condition is decided by kind and name alone)."""
        if depth > 12:
            return [e]
        if isinstance(e, ast.BoolOp):
            return [b for v in e.values for b in self.offending(v, seen, depth + 1)]
        if isinstance(e, ast.UnaryOp) and isinstance(e.op, ast.Not):
            return self.offending(e.operand, seen, depth + 1)
        if isinstance(e, ast.IfExp):
            return [b for v in (e.test, e.body, e.orelse) for b in self.offending(v, seen, depth + 1)]
        if isinstance(e, ast.NamedExpr):
            return self.offending(e.value, seen, depth + 1)
        if isinstance(e, ast.Constant):
            return []
        if isinstance(e, ast.Name):
            return [] if e.id in self.params else [e]  # a flag of the function; anything else is the truth value of a value
        if isinstance(e, ast.Compare):
            if all(isinstance(o, _EQ_OPS) for o in e.ops) and all(_plain(x) for x in [e.left] + list(e.comparators)):
                return []
            return [e]
        if isinstance(e, ast.Call):
            name = call_name(e)
            la = last_attr(e) or ""
            args = list(e.args) + [k.value for k in e.keywords]
            if isinstance(e.func, ast.Attribute) and la in _NAME_METHODS:
                return [] if _plain(e.func.value) and all(_plain(a) for a in args) else [e]
            h = self.helper(e)
            if h is not None:
                if id(h) in seen:
                    return []
                seen = seen | {id(h)}
                if isinstance(h, ast.Lambda):
                    return self.offending(h.body, seen, depth + 1)
                out: List[ast.AST] = []
                for x in ast.walk(h):
                    if isinstance(x, ast.Return) and x.value is not None:
                        out += self.offending(x.value, seen, depth + 1)
                    elif isinstance(x, (ast.If, ast.While)):
                        out += self.offending(x.test, seen, depth + 1)
                    elif isinstance(x, (ast.ListComp, ast.SetComp, ast.DictComp, ast.GeneratorExp)):
                        out += [b for g in x.generators for c in g.ifs for b in self.offending(c, seen, depth + 1)]
                return out
            if name in _KIND_CALLS or (la.startswith("is") and la not in ("isclose", "isnan", "isinf", "isfinite", "issubset", "issuperset", "isdisjoint")):
                return [] if all(_plain(a) for a in args) else [e]
            if name in ("any", "all") and len(e.args) == 1 and isinstance(e.args[0], (ast.GeneratorExp, ast.ListComp)):
                c = e.args[0]
                return self.offending(c.elt, seen, depth + 1) + [b for g in c.generators for i in g.ifs for b in self.offending(i, seen, depth + 1)]
            return [e]
        return [e]


def _kind_or_name_filters(ck: Check, repo: Repo) -> None:
    ck.rule("C07.14", "what a checkpoint leaves out is decided by kind or by name, never by a property of the value: every filter of get_checkpoint_dict and of "
                      "inspect_attributes (comprehension condition, `if` inside a loop, predicate handed to getmembers / filter; local helpers and lambdas are "
                      "looked through) combines only kind tests (isinstance / callable / is… predicates / type identity) and name tests (membership in or equality "
                      "with enumerated names, startswith / endswith) — serves `every attribute that influences behaviour is restored`: a size / length / shape / "
                      "truth-value test drops the attribute for some agents only, which then keep the constructor's value after loading")
    for fn, minimum in ((repo.fn(BASE, "get_checkpoint_dict"), 4), (repo.fn(BASE, "EvolvableAlgorithm.inspect_attributes"), 5)):
        flt = _Filters(repo, fn)
        sites = flt.sites()
        ck.floor("C07.14", len(sites), minimum, f"{fn.name}: filter conditions", fn=fn)
        for what, cond in sites:
            bad = flt.offending(cond, set())
            ck.ob("C07.14", fn, bad[0] if bad else cond, not bad, f"{fn.name}: the {what} `{short(cond, 70)}` tests kind and name only",
                  detail=f"`{short(bad[0], 80) if bad else ''}` is neither a kind test nor a name test: it excludes an attribute because of its value (size, length, shape, "
                         "truth value ...), so the same attribute is saved for one agent and silently missing for another — e.g. NeuralUCB / NeuralTS `sigma_inv` "
                         "(numel = n_params ** 2) is not written and a restored bandit explores again from lambda * I",
                  construct=f"{fn.name}: {what} {short(cond, 60)}")


def run_r5(ck: Check, repo: Repo) -> None:
    _kind_or_name_filters(ck, repo)
