"""C19 — neural bandits keep an exact inverse of their regularised Gram matrix."""
from __future__ import annotations

import ast
from typing import Dict, List, Optional, Set, Tuple

from ..cfg import CFG, Node
from ..core import AnalysisError, Cls, Fn, Repo, call_name, calls_in, const_value, dotted, get_kw, last_attr, short, walk_no_nested
from ..registry import extract
from ..pat import has
from ..report import Check
from ..terms import Atom, Poly, TermBuilder, mentions, single_atom, walk_atoms

BANDITS = [("agilerl.algorithms.neural_ucb_bandit", "NeuralUCB"), ("agilerl.algorithms.neural_ts_bandit", "NeuralTS")]


def _chain(tb: TermBuilder, p: Poly) -> Optional[List[str]]:
    """Ordered factor keys of a (nested) matrix product term."""
    a = single_atom(tb, p)
    if a is None:
        return None
    if a.kind == "matmul":
        l, r = _chain(tb, a.sub[0]), _chain(tb, a.sub[1])
        if l is None or r is None:
            return None
        return l + r
    return [a.key]


def run(ck: Check, repo: Repo) -> None:
    # a clone must own its matrix: sigma_inv is updated in place by get_action, so a clone that shares the tensor folds its parent's and siblings'
    # decisions into it.  That is the C01.3 ownership rule on copy_attributes; its obligations are taken over (nested Check first: it resets pattern state)
    from dataclasses import replace
    from . import c01
    sub = Check("C01", ck.tier, ck.repo_root)
    sub.known = []
    c01.run(sub, repo)
    ck.rule("C19.5", "clones own their confidence matrix: copy_attributes stores tensor attributes on the clone as deep copies on every path "
                     "(obligations of C01.3, shared with the C01 check); sigma_inv is updated in place, so a shared tensor would mix the decisions of parent and clones")
    taken = [replace(o, rule="C19.5") for o in sub.obs if o.rule == "C01.3"]
    if len(taken) < 10:
        raise AnalysisError(f"C19.5: only {len(taken)} obligations taken over from C01.3")
    for o in taken:
        if o.status == "violated" and ck._known_entry(o) is not None:
            o.status = "known"
    ck.obs.extend(taken)
    ck.not_decided += ["positive definiteness and numerical drift of the maintained inverse (floating point)",
                       "that the gradient features equal the true gradient of the output layer (autograd)"]
    ck.trusted += ["`@` is matrix multiplication; v.T of a column vector is the row vector"]
    ck.rule("C19.1", "Sherman-Morrison normal form (ordered products): S <- S - (S v v^T S) / (1 + v^T S v) with v the gradient feature of the chosen arm; "
                     "NeuralUCB and NeuralTS use the same update")
    ck.rule("C19.2", "initialisation: S = I(numel) / lambda (the inverse of lambda*I) with numel the number of trainable parameters of the output layer; "
                     "init_params is registered as mutation hook")
    ck.rule("C19.3", "after every architecture mutation of a bandit the gradient bookkeeping is re-created for the new output layer, and after an "
                     "activation mutation exp_layer is refreshed")
    ck.rule("C19.4", "exploration bonus: gamma * sqrt(g S g^T) per arm, with one gradient feature row per arm taken from the output layer's trainable parameters")
    upd_keys = []
    for modname, cname in BANDITS:
        upd_keys.append(_get_action(ck, repo, repo.fn(modname, f"{cname}.get_action"), cname))
        _init(ck, repo, modname, cname)
    ck.ob("C19.1", repo.fn(BANDITS[1][0], "NeuralTS.get_action"), repo.fn(BANDITS[1][0], "NeuralTS.get_action").node, len(set(upd_keys)) == 1 and upd_keys[0] is not None,
          "NeuralUCB and NeuralTS maintain the matrix with the identical update", detail=f"{upd_keys}", construct="sibling agreement of the rank-one update")
    _mutation(ck, repo)
    from ._c19_r3b import run_r3b
    run_r3b(ck, repo)


def _get_action(ck: Check, repo: Repo, fn: Fn, cname: str) -> Optional[str]:
    cfg = CFG(fn.node)
    tb = TermBuilder(repo, fn, cfg=cfg, depth=0)
    upd = [n for n in cfg.live_nodes() if n.kind == "stmt" and isinstance(n.ast, (ast.AugAssign, ast.Assign)) and
           dotted(n.ast.target if isinstance(n.ast, ast.AugAssign) else n.ast.targets[0]) == "self.sigma_inv"]
    ck.ob("C19.1", fn, fn.node, len(upd) == 1, f"{cname}: the matrix is updated exactly once per decision", construct=f"{cname}: sigma_inv updates in get_action")
    if len(upd) != 1:
        return None
    u = upd[0]
    S = "attr:self.sigma_inv"
    if isinstance(u.ast, ast.AugAssign):
        ok_op = isinstance(u.ast.op, ast.Sub)
        delta = tb.term(u.ast.value, u)
    else:
        new = tb.term(u.ast.value, u)
        delta = Poly.atom(S) - new
        ok_op = True
    ck.ob("C19.1", fn, u.ast, ok_op and cfg.postdominates(u, cfg.entry), f"{cname}: the correction is subtracted, on every path (also with a mask)")
    # delta = N * D^-1 with N = S v vT S, D = 1 + vT S v
    ok = False
    key = None
    detail = delta.key()[:200]
    if len(delta.t) == 1:
        (m, c), = delta.t.items()
        num = [k for k, e in m if e == 1]
        den = [k for k, e in m if e == -1]
        if c == 1 and len(num) == 1 and len(den) == 1:
            N = _chain(tb, Poly.atom(num[0]))
            da = tb.atoms.get(den[0])
            D = da.sub[0] if da is not None and da.kind == "group" and da.sub else None
            if N and D is not None and len(N) == 4 and N[0] == S and N[3] == S:
                v, vt = N[1], N[2]
                va, vta = tb.atoms.get(v), tb.atoms.get(vt)
                is_t = vta is not None and vta.kind == "attrof" and vta.name == "T" and vta.sub and vta.sub[0] == Poly.atom(v)
                rest = D - Poly.const(1)
                Dc = _chain(tb, rest)
                ok = is_t and Dc == [vt, S, v]
                key = "S - (S v vT S)/(1 + vT S v)" if ok else None
                detail = f"numerator chain {[_s(x) for x in N]}, denominator 1 + {[_s(x) for x in (Dc or [])]}"
                # v = g[action] as a column
                if va is not None:
                    ok_v = va.kind == "idx" and mentions(tb, Poly.atom(v), lambda a: a.kind == "call" and a.name in ("argmax",))
                    ck.ob("C19.1", fn, u.ast, ok_v, f"{cname}: v is the feature row of the arm that was chosen (g[argmax ...])", detail=va.key[:120])
    ck.ob("C19.1", fn, u.ast, ok, f"{cname}: the update is S - (S v v^T S) / (1 + v^T S v) with matching factors in order", detail=detail)
    # the arm used for v is the arm returned
    rets = [n for n in cfg.live_nodes() if n.kind == "stmt" and isinstance(n.ast, ast.Return)]
    # roles, not spellings: g is the local that holds torch.zeros((action_dim, numel)); v is the local the update statement reads
    g_name = _local_bound_to(cfg, lambda e: any(call_name(c) == "torch.zeros" for c in ast.walk(e) if isinstance(c, ast.Call)))
    # ... under any of its names: a local that only ever holds that tensor (`feats = torch.zeros(..); g = feats`) is the same matrix
    g_names = _aliases(cfg, g_name) if g_name is not None else set()
    vdef = _feature_defs(cfg, u, g_names, fn.params)
    if rets and vdef:
        ra = dotted(rets[0].ast.value)
        ok = isinstance(vdef[0].ast.value, ast.Call) and any(f"{a}[{ra}]" in ast.unparse(vdef[0].ast.value) for a in g_names) and cfg.dominates(vdef[0], u)
        # ... and it is the same *value*: no re-binding of that name between the feature lookup and the return
        same = {d.id for d in cfg.defs_reaching(vdef[0], ra)} == {d.id for d in cfg.defs_reaching(rets[0], ra)} if ra else False
        ok = ok and same
        ck.ob("C19.1", fn, vdef[0].ast, ok, f"{cname}: the matrix is updated with the feature of the action that is returned")
        ck.ob("C19.1", fn, vdef[0].ast, "unsqueeze(-1)" in ast.unparse(vdef[0].ast.value), f"{cname}: v is a column vector (so v v^T is the outer product)")
    # ---- C19.4 features and bonus
    src = ast.unparse(fn.node)
    ck.ob("C19.4", fn, fn.node, has(src, 'torch.zeros((self.action_dim, self.numel))'), f"{cname}: one feature row per arm, numel columns", construct=f"{cname}: feature matrix shape")
    # roles: the loop runs over enumerate(<the actor's output self.actor(...)>, directly or through a temporary); k is its index variable, fx its element
    loops = [n for n in cfg.live_nodes() if n.kind == "for" and _enumerates_actor_output(cfg, n)]
    ok = len(loops) == 1
    if ok:
        ok = _per_arm_gradient_rows(cfg, fn, loops[0], g_names)
    ck.ob("C19.4", fn, loops[0].ast if loops else fn.node, ok, f"{cname}: arm k's row is the gradient of output k w.r.t. the output layer's trainable parameters, gradients zeroed before each backward",
          construct=f"{cname}: per-arm gradient loop")
    # the rows stay the gradient features: between the loop that fills g and the rank-one update nothing rescales or overwrites g
    # (gamma belongs to the bonus only; a g scaled in place would make the matrix inv(lambda I + gamma^2 sum g g^T))
    if g_name is not None:
        moves = ("to", "detach", "float", "contiguous")
        extra: List[ast.AST] = []
        for n in cfg.live_nodes():
            if n.kind != "stmt":
                continue
            a = n.ast
            if isinstance(a, ast.AugAssign) and _root_name(a.target) in g_names:
                extra.append(a)
            elif isinstance(a, ast.Assign):
                for t in a.targets:
                    if isinstance(t, ast.Name) and t.id in g_names:
                        v = a.value
                        while isinstance(v, ast.Call) and isinstance(v.func, ast.Attribute) and v.func.attr in moves:
                            v = v.func.value
                        zero = isinstance(v, ast.Call) and call_name(v) == "torch.zeros"
                        if not (zero or (isinstance(v, ast.Name) and v.id in g_names)):
                            extra.append(a)
                    elif isinstance(t, ast.Subscript) and _root_name(t) in g_names:
                        in_loop = bool(loops) and any(a is s or any(a is y for y in ast.walk(s)) for s in loops[0].ast.body)
                        if not in_loop:
                            extra.append(a)
            for c in (x for x in ast.walk(a) if isinstance(x, ast.Call)):
                f = c.func
                if isinstance(f, ast.Attribute) and f.attr.endswith("_") and not f.attr.startswith("_") and _root_name(f.value) in g_names:
                    extra.append(c)
        ck.ob("C19.1", fn, extra[0] if extra else fn.node, not extra,
              f"{cname}: the feature rows reach the update as the loop wrote them (nothing rescales or overwrites the feature matrix in between)",
              detail=ast.unparse(extra[0])[:120] if extra else "", construct=f"{cname}: writes to the feature matrix")
    bonus = [c for c in calls_in(fn.node) if call_name(c) == "torch.sqrt"]
    okb = False
    for c in bonus:
        # the radicand, as a term (temporaries resolved by def-use): a selection from the ordered product  G[:, None, :] . S . G[:, :, None]
        # with G the feature matrix as it stands at this statement
        n = cfg.node_of(c)
        okb = g_name is not None and n is not None and len(c.args) == 1 and _is_quadratic_form(tb, tb.term(c.args[0], n), tb.term(ast.Name(id=g_name, ctx=ast.Load()), n), S)
    ck.ob("C19.4", fn, bonus[0] if bonus else fn.node, okb, f"{cname}: the exploration width is sqrt(g_k S g_k^T) per arm (non-negative by construction)")
    ck.ob("C19.4", fn, fn.node, "self.gamma * torch.sqrt(" in src or "self.gamma\n" in src or "std=self.gamma * torch.sqrt(" in src, f"{cname}: the width is scaled by gamma",
          construct=f"{cname}: gamma scaling")
    return key


def _factors(tb: TermBuilder, p: Poly) -> Optional[List[str]]:
    """Ordered factor keys of a matrix product written with `@`, torch.matmul / torch.bmm or the .matmul method, in any nesting; a selection
    from a product (`(A B)[:, 0, :]`) has the factors of the product."""
    a = single_atom(tb, p)
    if a is None:
        return None
    ops: Optional[List[Poly]] = None
    if a.kind == "matmul":
        ops = list(a.sub)
    elif a.kind == "call" and a.name in ("matmul", "bmm") and isinstance(a.node, ast.Call) and not a.node.keywords:
        recv = single_atom(tb, a.sub[0]) if a.sub else None
        ops = list(a.sub[1:]) if recv is not None and recv.kind == "global" else list(a.sub)
    elif a.kind == "idx" and a.sub:
        inner = _factors(tb, a.sub[0])
        if inner is not None and len(inner) > 1:
            return inner
    if ops is None:
        return [a.key]
    if len(ops) != 2:
        return None
    l, r = _factors(tb, ops[0]), _factors(tb, ops[1])
    return None if l is None or r is None else l + r


def _none_axis(a: Optional[Atom]) -> Optional[int]:
    """k when the atom is a 3-axis selection `X[:, ..]` that inserts one new axis at position k and keeps the others whole; else None."""
    sl = a.node.slice if a is not None and a.kind == "idx" and isinstance(a.node, ast.Subscript) else None
    if not (isinstance(sl, ast.Tuple) and len(sl.elts) == 3):
        return None
    new = [i for i, x in enumerate(sl.elts) if isinstance(x, ast.Constant) and x.value is None]
    whole = [i for i, x in enumerate(sl.elts) if isinstance(x, ast.Slice) and x.lower is None and x.upper is None and x.step is None]
    return new[0] if len(new) == 1 and len(whole) == 2 else None


def _is_quadratic_form(tb: TermBuilder, radicand: Poly, G: Poly, S: str) -> bool:
    """radicand = (G[:, None, :] S G[:, :, None])[...]: per arm k the row g_k times S times the column g_k."""
    f = _factors(tb, radicand)
    if f is None or len(f) != 3 or f[1] != S:
        return False
    row, col = tb.atoms.get(f[0]), tb.atoms.get(f[2])
    return _none_axis(row) == 1 and _none_axis(col) == 2 and row.sub[0] == G and col.sub[0] == G


def _root_name(e: ast.AST) -> Optional[str]:
    """g for g, g[k], g[:, None, :] (the local a subscript chain is rooted at); None for anything else."""
    while isinstance(e, ast.Subscript):
        e = e.value
    return e.id if isinstance(e, ast.Name) else None


def _aliases(cfg: CFG, name: str) -> Set[str]:
    """name and the locals that only ever hold the same object: every binding of such a local is a plain `x = <name or alias>`
    (stores into its elements and augmented assignments act on the object the local holds already and do not count as bindings)."""
    binds: Dict[str, List[Optional[ast.AST]]] = {}
    for n in cfg.live_nodes():
        for key, strong in cfg.defs_at(n):
            if strong and n.kind != "entry" and "." not in key and not (n.kind == "stmt" and isinstance(n.ast, ast.AugAssign)):
                plain = n.kind == "stmt" and isinstance(n.ast, ast.Assign) and len(n.ast.targets) == 1 and isinstance(n.ast.targets[0], ast.Name)
                binds.setdefault(key, []).append(n.ast.value if plain else None)
    out = {name}
    grown = True
    while grown:
        grown = False
        for x, vals in binds.items():
            if x not in out and all(isinstance(v, ast.Name) and v.id in out for v in vals):
                out.add(x)
                grown = True
    return out


def _local_bound_to(cfg: CFG, pred) -> Optional[str]:
    """The local variable whose (single kind of) definition `name = <value>` has a value accepted by pred; None when there is
    none or when two different locals qualify."""
    names = {n.ast.targets[0].id for n in cfg.live_nodes() if n.kind == "stmt" and isinstance(n.ast, ast.Assign) and len(n.ast.targets) == 1
             and isinstance(n.ast.targets[0], ast.Name) and pred(n.ast.value)}
    return next(iter(names)) if len(names) == 1 else None


def _feature_defs(cfg: CFG, u: Node, g_names: Set[str], params: List[str]) -> List[Node]:
    """The definitions `v = <expression over g>` the update statement u reads (directly or through temporaries): v is found by
    following the locals read by u back to the first definitions whose value mentions the feature matrix g."""
    out: List[Node] = []
    seen: Set[Tuple[int, str]] = set()
    work = [(u, x.id) for x in ast.walk(u.ast.value) if isinstance(x, ast.Name)]
    while work:
        at, name = work.pop()
        if (at.id, name) in seen or name in params or name in g_names:
            continue
        seen.add((at.id, name))
        for d in cfg.defs_reaching(at, name):
            if d.kind != "stmt" or not isinstance(d.ast, ast.Assign) or dotted(d.ast.targets[0]) != name:
                continue
            if any(isinstance(x, ast.Name) and x.id in g_names for x in ast.walk(d.ast.value)):
                if d not in out:
                    out.append(d)
            else:
                work += [(d, x.id) for x in ast.walk(d.ast.value) if isinstance(x, ast.Name)]
    out.sort(key=lambda n: n.id)
    return out


def _requires_grad_filter(gen: ast.comprehension) -> bool:
    return isinstance(gen.target, ast.Name) and len(gen.ifs) == 1 and isinstance(gen.ifs[0], ast.Attribute) and gen.ifs[0].attr == "requires_grad" \
        and isinstance(gen.ifs[0].value, ast.Name) and gen.ifs[0].value.id == gen.target.id


def _local_value(cfg: CFG, at: Node, e: ast.AST) -> Tuple[Node, ast.AST]:
    """e itself, or (for a local bound exactly once on the way to `at`) the value it was bound to, with the node of that binding."""
    k = 0
    while isinstance(e, ast.Name) and k < 6:
        defs = cfg.defs_reaching(at, e.id)
        v = cfg.value_of_def(defs[0], e.id) if len(defs) == 1 else None
        if v is None:
            break
        at, e, k = defs[0], v, k + 1
    return at, e


def _element_source(cfg: CFG, at: Node, it: ast.AST, depth: int = 0) -> Tuple[Optional[ast.AST], bool]:
    """(root iterable, restricted to requires_grad elements?) of an iterable expression, looking through local temporaries, list() / tuple() copies
    and comprehensions that pass their elements on unchanged (`[w for w in X if w.requires_grad]`).  (None, _) for any other filter."""
    at, it = _local_value(cfg, at, it)
    if depth < 6 and isinstance(it, ast.Call) and isinstance(it.func, ast.Name) and it.func.id in ("list", "tuple") and len(it.args) == 1 and not it.keywords:
        return _element_source(cfg, at, it.args[0], depth + 1)
    if depth < 6 and isinstance(it, (ast.ListComp, ast.GeneratorExp)) and len(it.generators) == 1 and isinstance(it.elt, ast.Name) \
            and isinstance(it.generators[0].target, ast.Name) and it.elt.id == it.generators[0].target.id:
        gen = it.generators[0]
        if gen.ifs and not _requires_grad_filter(gen):
            return None, False
        root, filtered = _element_source(cfg, at, gen.iter, depth + 1)
        return root, filtered or bool(gen.ifs)
    return it, False


def _counts_trainable(cfg: CFG, at: Node, value: ast.AST, params_call: str) -> bool:
    """value = sum(w.numel() for w in <the requires_grad elements of params_call()>) — the filter may sit in the summed generator or in a
    temporary list the generator runs over."""
    if not (isinstance(value, ast.Call) and isinstance(value.func, ast.Name) and value.func.id == "sum" and len(value.args) == 1 and not value.keywords):
        return False
    at, comp = _local_value(cfg, at, value.args[0])
    if not (isinstance(comp, (ast.GeneratorExp, ast.ListComp)) and len(comp.generators) == 1 and isinstance(comp.generators[0].target, ast.Name)):
        return False
    gen, elt = comp.generators[0], comp.elt
    if not (isinstance(elt, ast.Call) and isinstance(elt.func, ast.Attribute) and elt.func.attr == "numel" and not elt.args and not elt.keywords
            and isinstance(elt.func.value, ast.Name) and elt.func.value.id == gen.target.id):
        return False
    return _runs_over_trainable(cfg, at, gen, params_call)


def _runs_over_trainable(cfg: CFG, at: Node, gen: ast.comprehension, params_call: str) -> bool:
    """The comprehension clause visits exactly the requires_grad elements of params_call(): the filter sits in the clause itself
    (`for w in X.parameters() if w.requires_grad`) or in a temporary list the clause runs over (`ps = [w for w in X.parameters() if w.requires_grad]`)."""
    if not isinstance(gen.target, ast.Name) or (gen.ifs and not _requires_grad_filter(gen)):
        return False
    root, filtered = _element_source(cfg, at, gen.iter)
    return (filtered or bool(gen.ifs)) and isinstance(root, ast.Call) and dotted(root.func) == params_call and not root.args and not root.keywords


def _enumerates_actor_output(cfg: CFG, loop: Node) -> bool:
    """for <k>, <fx> in enumerate(<the actor's output>): the enumerated value is self.actor(...) itself or a local bound to it."""
    it = loop.ast.iter
    if not (isinstance(it, ast.Call) and isinstance(it.func, ast.Name) and it.func.id == "enumerate" and len(it.args) == 1 and not it.keywords):
        return False
    _, out = _local_value(cfg, loop, it.args[0])
    return isinstance(out, ast.Call) and call_name(out) == "self.actor"


def _feeding(cfg: CFG, at: Node, e: ast.AST, depth: int = 0) -> List[Tuple[Node, ast.AST]]:
    """e and the values of the single-definition locals it reads (transitively), each with the node it is evaluated at."""
    out = [(at, e)]
    if depth < 4:
        for x in ast.walk(e):
            if isinstance(x, ast.Name) and isinstance(x.ctx, ast.Load):
                defs = cfg.defs_reaching(at, x.id)
                v = cfg.value_of_def(defs[0], x.id) if len(defs) == 1 else None
                if v is not None:
                    out += _feeding(cfg, defs[0], v, depth + 1)
    return out


def _per_arm_gradient_rows(cfg: CFG, fn: Fn, loop: Node, g_names: Set[str]) -> bool:
    """In every iteration of `for k, fx in enumerate(<actor output>)`: the optimizer's gradients are zeroed, then output fx is back-propagated
    (keeping the graph for the next arm), then row k of the feature matrix is assembled from a traversal of the requires_grad parameters of
    self.exp_layer (the traversal may run over a list that was filtered before the loop); nothing zeroes the gradients again before they are read,
    and get_action does not re-point exp_layer."""
    tgt = loop.ast.target
    if not g_names or not (isinstance(tgt, ast.Tuple) and len(tgt.elts) == 2 and all(isinstance(e, ast.Name) for e in tgt.elts)):
        return False
    k_name, fx_name = tgt.elts[0].id, tgt.elts[1].id
    out_name = loop.ast.iter.args[0].id if isinstance(loop.ast.iter.args[0], ast.Name) else None
    inside = [x for s in loop.ast.body for x in ast.walk(s)]
    if any(isinstance(x, (ast.Assign, ast.AugAssign, ast.AnnAssign, ast.Delete)) and
           any(dotted(t) == "self.exp_layer" for t in (x.targets if isinstance(x, (ast.Assign, ast.Delete)) else [x.target])) for x in ast.walk(fn.node)):
        return False

    def is_output_k(at: Node, e: ast.AST) -> bool:
        _, e = _local_value(cfg, at, e)
        if isinstance(e, ast.Name):
            return e.id == fx_name and cfg.defs_reaching(at, fx_name) == [loop]
        return isinstance(e, ast.Subscript) and isinstance(e.value, ast.Name) and e.value.id == out_name and out_name is not None \
            and isinstance(e.slice, ast.Name) and e.slice.id == k_name and cfg.defs_reaching(at, k_name) == [loop]

    def nodes(xs: List[ast.AST]) -> List[Node]:
        return [n for n in (cfg.node_of(x) for x in xs) if n is not None]

    zeros = nodes([c for c in inside if isinstance(c, ast.Call) and call_name(c) == "self.optimizer.zero_grad"])
    backs = [n for c in inside if isinstance(c, ast.Call) and isinstance(c.func, ast.Attribute) and c.func.attr == "backward"
             and const_value(get_kw(c, "retain_graph")) is True for n in nodes([c]) if is_output_k(n, c.func.value)]
    rows = [n for n in nodes([x for x in inside if isinstance(x, ast.Assign)]) if len(n.ast.targets) == 1 and isinstance(n.ast.targets[0], ast.Subscript)
            and isinstance(n.ast.targets[0].value, ast.Name) and n.ast.targets[0].value.id in g_names
            and isinstance(n.ast.targets[0].slice, ast.Name) and n.ast.targets[0].slice.id == k_name and cfg.defs_reaching(n, k_name) == [loop]]
    for r in rows:
        if not any(_runs_over_trainable(cfg, at, c.generators[0], "self.exp_layer.parameters") for at, e in _feeding(cfg, r, r.ast.value)
                   for c in ast.walk(e) if isinstance(c, (ast.ListComp, ast.GeneratorExp)) and len(c.generators) == 1):
            continue
        for b in backs:
            if b is r or not cfg.dominates(b, r) or any(z is not b and z is not r and cfg.dominates(b, z) and cfg.dominates(z, r) for z in zeros):
                continue
            if any(z is not b and cfg.dominates(z, b) for z in zeros):
                return True
    return False


def _s(k: str) -> str:
    return k if len(k) < 40 else k[:37] + "..."


def _init(ck: Check, repo: Repo, modname: str, cname: str) -> None:
    fn = repo.fn(modname, f"{cname}.init_params")
    cfg = CFG(fn.node)
    tb = TermBuilder(repo, fn, cfg=cfg, depth=0)
    st = {dotted(n.ast.targets[0]): n for n in cfg.live_nodes() if n.kind == "stmt" and isinstance(n.ast, ast.Assign)}
    ok = "self.exp_layer" in st and ast.unparse(st["self.exp_layer"].ast.value) == "self.actor.get_output_dense()"
    ck.ob("C19.2", fn, st.get("self.exp_layer").ast if "self.exp_layer" in st else fn.node, ok, f"{cname}: exp_layer is the actor's current output layer")
    ok = "self.numel" in st and _counts_trainable(cfg, st["self.numel"], st["self.numel"].ast.value, "self.exp_layer.parameters")
    ck.ob("C19.2", fn, st.get("self.numel").ast if "self.numel" in st else fn.node, ok, f"{cname}: numel counts the trainable parameters of that layer")
    sn = st.get("self.sigma_inv")
    ok = False
    detail = ""
    if sn is not None:
        t = tb.term(sn.ast.value, sn)
        lam = Poly.atom("attr:self.lamb")
        eyes = [k for k in t.atoms() if k in tb.atoms and tb.atoms[k].kind == "call" and "eye" in tb.atoms[k].key.split("(")[0]]
        if len(eyes) == 1:
            E = Poly.atom(eyes[0])
            ok = t == E * lam.inv() and "numel" in eyes[0]
            detail = f"S0 = {t.key()[:100]}" + ("" if ok else " — (lambda*I)^-1 is I/lambda; starting from lambda*I makes S the inverse of I/lambda + sum v v^T, wrong for every lambda != 1")
        order_ok = all(cfg.dominates(st[k], sn) for k in ("self.exp_layer", "self.numel") if k in st)
        ok = ok and order_ok
    ck.ob("C19.2", fn, sn.ast if sn is not None else fn.node, ok, f"{cname}: the matrix starts as the inverse of lambda * I of size numel", detail=detail)
    reg = extract(repo, modname, cname)
    ck.ob("C19.2", reg.init, reg.init.node, any(h.name == "init_params" and not h.cond for h in reg.hooks), f"{cname}: init_params is registered (unconditionally) as mutation hook",
          construct=f"{cname}: hook registration")
    icfg = CFG(reg.init.node)
    call = [icfg.node_of(c) for c in calls_in(reg.init.node) if call_name(c) == "self.init_params"]
    ck.ob("C19.2", reg.init, reg.init.node, len(call) == 1 and call[0] is not None and icfg.postdominates(call[0], icfg.entry), f"{cname}: the constructor initialises the matrix on every path",
          construct=f"{cname}: init_params call in __init__")


def _mutation(ck: Check, repo: Repo) -> None:
    am = repo.fn("agilerl.hpo.mutation", "Mutations.architecture_mutate")
    cfg = CFG(am.node)
    calls = [c for c in calls_in(am.node) if call_name(c) == "self._reinit_bandit_grads"]
    ck.floor("C19.3", len(calls), 2, "_reinit_bandit_grads calls in architecture_mutate (policy and other eval networks)", fn=am)
    for c in calls:
        n = cfg.node_of(c)
        gs = [(ast.unparse(g), pol) for g, pol, _ in cfg.guards_at(n)]
        ck.ob("C19.3", am, c, any("isinstance(individual, (NeuralTS, NeuralUCB))" in g and pol for g, pol in gs) or any("NeuralUCB" in g and "NeuralTS" in g and pol for g, pol in gs),
              "bandit bookkeeping is re-created for both bandit algorithms")
        ck.ob("C19.3", am, c, len(c.args) == 3 and dotted(c.args[0]) == "individual", "for the individual being mutated")
        # after the mutation was applied to that network
        ap = [cfg.node_of(x) for x in calls_in(am.node) if call_name(x) == "self._apply_arch_mutation"]
        ck.ob("C19.3", am, c, any(a is not None and cfg.dominates(a, n) for a in ap), "after the architecture mutation was applied")
    rb = repo.fn("agilerl.hpo.mutation", "Mutations._reinit_bandit_grads")
    src = ast.unparse(rb.node)
    ck.ob("C19.3", rb, rb.node, has(src, '$exp_layer = $offspring_actor.get_output_dense()') and has(src, '$individual.exp_layer = $exp_layer'), "exp_layer is re-pointed to the new output layer",
          construct="_reinit_bandit_grads exp_layer")
    ck.ob("C19.3", rb, rb.node, has(src, '$individual.numel = sum(($w.numel() for $w in $exp_layer.parameters() if $w.requires_grad))'), "numel is recomputed from the new output layer",
          construct="_reinit_bandit_grads numel")
    ck.ob("C19.2", rb, rb.node, has(src, '$new_sigma_inv[$i, $i] = 1 / $individual.lamb') or has(src, '$new_sigma_inv[$i, $i] = 1.0 / $individual.lamb'),
          "rows/columns added for new parameters start from the inverse regulariser 1/lambda on the diagonal",
          detail="new diagonal entries are set to lambda instead of 1/lambda", construct="_reinit_bandit_grads new diagonal")
    ck.ob("C19.3", rb, rb.node, has(src, 'np.delete(np.delete($new_sigma_inv, $to_remove, 0), $to_remove, 1)') and has(src, 'np.insert(np.insert($new_sigma_inv, $to_add, 0, 0), $to_add, 0, 1)'),
          "rows and columns are removed / inserted symmetrically (the matrix stays square and symmetric)", construct="_reinit_bandit_grads symmetric resize")
    ac = repo.fn("agilerl.hpo.mutation", "Mutations.activation_mutation")
    acfg = CFG(ac.node)
    sets = [n for n in acfg.live_nodes() if n.kind == "stmt" and isinstance(n.ast, ast.Assign) and dotted(n.ast.targets[0]) == "individual.exp_layer"]
    # the re-created network is the value the same iteration installs with setattr(individual, network_group.eval, <module>)
    inst = {dotted(c.args[2]) for c in calls_in(ac.node) if call_name(c) == "setattr" and len(c.args) == 3 and dotted(c.args[0]) == "individual" and isinstance(c.args[2], ast.Name)}
    ok = len(sets) == 1 and len(inst) == 1 and f"get_exp_layer({next(iter(inst))})" in ast.unparse(sets[0].ast.value) and any("NeuralTS" in ast.unparse(g) and pol for g, pol, _ in acfg.guards_at(sets[0]))
    ck.ob("C19.3", ac, sets[0].ast if sets else ac.node, ok, "after an activation mutation of a bandit exp_layer points into the re-created network")


_UCB = "agilerl/algorithms/neural_ucb_bandit.py"
_TS = "agilerl/algorithms/neural_ts_bandit.py"
_MF = "agilerl/hpo/mutation.py"
_TS_LOOP = ("        mu = self.actor(obs)\n        g = torch.zeros((self.action_dim, self.numel)).to(self.device)\n        for k, fx in enumerate(mu):\n"
            "            self.optimizer.zero_grad()\n            fx.backward(retain_graph=True)\n            g[k] = torch.cat(\n                [\n"
            "                    w.grad.detach().flatten() / np.sqrt(self.exp_layer.weight.size(0))\n                    for w in self.exp_layer.parameters()\n"
            "                    if w.requires_grad\n                ]\n            )\n")
_TS_HEAD = ("    def get_action(\n        self, obs: ObservationType, action_mask: Optional[ArrayLike] = None\n    ) -> int:\n"
            '        """Returns the next action to take in the environment.\n\n        :param obs: State observation, or multiple observations in a batch\n'
            "        :type obs: numpy.ndarray[float]\n        :param action_mask: Mask of legal actions 1=legal 0=illegal, defaults to None\n"
            "        :type action_mask: numpy.ndarray, optional\n        :return: Action to take in the environment\n        :rtype: int\n"
            '        """\n        obs = self.preprocess_observation(obs)\n\n')
VARIANTS = [
    ("ucb-returned-arm-rechosen-after-update", _UCB, "        return action\n\n    def learn(self, experiences", "        if action_mask is not None:\n            action = np.argmax(np.ma.array(action_values, mask=1 - action_mask))\n        return action\n\n    def learn(self, experiences", "fire", "C19.1"),
    ("ucb-plus", _UCB, "        self.sigma_inv -= (self.sigma_inv @ v @ v.T @ self.sigma_inv) / (", "        self.sigma_inv += (self.sigma_inv @ v @ v.T @ self.sigma_inv) / (", "fire", "C19.1"),
    ("ucb-no-one", _UCB, "            1 + v.T @ self.sigma_inv @ v\n", "            v.T @ self.sigma_inv @ v\n", "fire", "C19.1"),
    ("ucb-outer-order", _UCB, "(self.sigma_inv @ v @ v.T @ self.sigma_inv) / (", "(self.sigma_inv @ v.T @ v @ self.sigma_inv) / (", "fire", "C19.1"),
    ("ucb-missing-right-factor", _UCB, "(self.sigma_inv @ v @ v.T @ self.sigma_inv) / (", "(self.sigma_inv @ v @ v.T) / (", "fire", "C19.1"),
    ("ts-differs-from-ucb", _TS, "            1 + v.T @ self.sigma_inv @ v\n", "            1 + v.T @ v\n", "fire", "C19.1"),
    ("ucb-feature-of-arm-zero", _UCB, "        v = g[action].unsqueeze(-1)", "        v = g[0].unsqueeze(-1)", "fire", "C19.1"),
    ("ucb-update-only-unmasked", _UCB, "        # Sherman-Morrison-Woodbury Update\n        v = g[action].unsqueeze(-1)\n        self.sigma_inv -= (self.sigma_inv @ v @ v.T @ self.sigma_inv) / (\n            1 + v.T @ self.sigma_inv @ v\n        )\n",
     "        if action_mask is None:\n            v = g[action].unsqueeze(-1)\n            self.sigma_inv -= (self.sigma_inv @ v @ v.T @ self.sigma_inv) / (\n                1 + v.T @ self.sigma_inv @ v\n            )\n", "fire", "C19.1"),
    ("ucb-init-lambda-times", _UCB, "self.sigma_inv = torch.eye(self.numel).to(self.device) / self.lamb", "self.sigma_inv = self.lamb * torch.eye(self.numel).to(self.device)", "fire", "C19.2"),
    ("ts-init-identity", _TS, "self.sigma_inv = torch.eye(self.numel).to(self.device) / self.lamb", "self.sigma_inv = torch.eye(self.numel).to(self.device)", "fire", "C19.2"),
    ("ucb-hook-not-registered", _UCB, "        self.register_mutation_hook(self.init_params)\n", "", "fire", "C19.2"),
    ("ucb-numel-all-actor", _UCB, "            w.numel() for w in self.exp_layer.parameters() if w.requires_grad\n", "            w.numel() for w in self.actor.parameters() if w.requires_grad\n", "fire", "C19.2"),
    ("reinit-only-policy", _MF, "            # Reinitialize bandit gradients after architecture mutation\n            if isinstance(individual, (NeuralTS, NeuralUCB)):\n                old_exp_layer = get_exp_layer(offsprings)\n                self._reinit_bandit_grads(individual, offsprings, old_exp_layer)\n", "", "fire", "C19.3"),
    ("reinit-diag-lambda", _MF, "new_sigma_inv[i, i] = 1 / individual.lamb", "new_sigma_inv[i, i] = individual.lamb", "fire", "C19.2"),
    ("ucb-feature-row-zero-only", _UCB, "            g[k] = torch.cat(", "            g[0] = torch.cat(", "fire", "C19.4"),
    ("ts-grads-not-zeroed", _TS, "            self.optimizer.zero_grad()\n            fx.backward(retain_graph=True)", "            fx.backward(retain_graph=True)", "fire", "C19.4"),
    ("ucb-bonus-not-quadratic-form", _UCB, "torch.matmul(g[:, None, :], self.sigma_inv), g[:, :, None]", "torch.matmul(g[:, None, :], self.sigma_inv), self.sigma_inv[:, :, None]", "fire", "C19.4"),
    ("act-mutation-exp-layer-of-old-net", _MF, "individual.exp_layer = get_exp_layer(eval_module)", "individual.exp_layer = get_exp_layer(getattr(individual, network_group.eval))", "fire", "C19.3"),
    ("ucb-features-scaled-by-gamma-in-place", _UCB, "        with torch.no_grad():\n            action_values = self.actor(obs) + self.gamma * torch.sqrt(", "        with torch.no_grad():\n            g *= self.gamma\n            action_values = self.actor(obs) + torch.sqrt(", "fire", "C19.1"),
    ("ts-features-mul-underscore", _TS, "        with torch.no_grad():\n            action_values = torch.normal(", "        with torch.no_grad():\n            g.mul_(self.gamma)\n            action_values = torch.normal(", "fire", "C19.1"),
    ("ucb-feature-matrix-moved-ok", _UCB, "        with torch.no_grad():\n            action_values", "        g = g.detach()\n        with torch.no_grad():\n            action_values", "silent", None),
    # round 3b: C19.6 (hooks after an architecture mutation, in the method itself) and the form-independent C19.2 / C19.4 checks
    ("arch-hook-removed-because-mutation-runs-it", _MF, "        individual.mutation_hook()  # Apply mutation hook\n", "", "fire", "C19.6"),
    ("arch-hook-only-for-non-bandits", _MF, "        individual.mutation_hook()  # Apply mutation hook\n",
     "        if not isinstance(individual, (NeuralTS, NeuralUCB)):\n            individual.mutation_hook()\n", "fire", "C19.6"),
    ("arch-early-return-before-hook", _MF, "        individual.mutation_hook()  # Apply mutation hook\n",
     "        if self.accelerator is not None:\n            return individual\n        individual.mutation_hook()\n", "fire", "C19.6"),
    ("arch-hook-before-other-networks-mutated", _MF, "        # Apply the same mutation to the rest of the evaluation modules\n        for name, offsprings in offspring_evals.items():\n            self._apply_arch_mutation(offsprings, applied_mutations, mut_dict)\n            self.to_device_and_set_individual(individual, name, offsprings)\n\n            # Reinitialize bandit gradients after architecture mutation\n            if isinstance(individual, (NeuralTS, NeuralUCB)):\n                old_exp_layer = get_exp_layer(offsprings)\n                self._reinit_bandit_grads(individual, offsprings, old_exp_layer)\n\n        individual.mutation_hook()  # Apply mutation hook\n",
     "        individual.mutation_hook()\n        # Apply the same mutation to the rest of the evaluation modules\n        for name, offsprings in offspring_evals.items():\n            self._apply_arch_mutation(offsprings, applied_mutations, mut_dict)\n            self.to_device_and_set_individual(individual, name, offsprings)\n\n            # Reinitialize bandit gradients after architecture mutation\n            if isinstance(individual, (NeuralTS, NeuralUCB)):\n                old_exp_layer = get_exp_layer(offsprings)\n                self._reinit_bandit_grads(individual, offsprings, old_exp_layer)\n\n", "fire", "C19.6"),
    ("arch-hook-through-alias-ok", _MF, "        individual.mutation_hook()  # Apply mutation hook\n", "        agent = individual\n        agent.mutation_hook()\n", "silent", None),
    ("arch-hook-spelled-per-branch-ok", _MF, "        individual.mutation_hook()  # Apply mutation hook\n",
     "        if isinstance(individual, (NeuralTS, NeuralUCB)):\n            individual.mutation_hook()\n        else:\n            individual.mutation_hook()\n", "silent", None),
    ("ucb-numel-over-shared-list-ok", _UCB, "        self.numel = sum(\n            w.numel() for w in self.exp_layer.parameters() if w.requires_grad\n        )\n",
     "        exp_params = [w for w in self.exp_layer.parameters() if w.requires_grad]\n        self.numel = sum(w.numel() for w in exp_params)\n", "silent", None),
    ("ucb-numel-over-unfiltered-list", _UCB, "        self.numel = sum(\n            w.numel() for w in self.exp_layer.parameters() if w.requires_grad\n        )\n",
     "        exp_params = list(self.exp_layer.parameters())\n        self.numel = sum(w.numel() for w in exp_params)\n", "fire", "C19.2"),
    ("ucb-bonus-over-temporaries-ok", _UCB, "            action_values = self.actor(obs) + self.gamma * torch.sqrt(\n                torch.matmul(\n                    torch.matmul(g[:, None, :], self.sigma_inv), g[:, :, None]\n                )[:, 0, :]\n            )\n",
     "            left = torch.matmul(g[:, None, :], self.sigma_inv)\n            quad_form = torch.matmul(left, g[:, :, None])[:, 0, :]\n            action_values = self.actor(obs) + self.gamma * torch.sqrt(quad_form)\n", "silent", None),
    ("ucb-bonus-over-temporaries-matrix-twice", _UCB, "            action_values = self.actor(obs) + self.gamma * torch.sqrt(\n                torch.matmul(\n                    torch.matmul(g[:, None, :], self.sigma_inv), g[:, :, None]\n                )[:, 0, :]\n            )\n",
     "            left = torch.matmul(g[:, None, :], self.sigma_inv)\n            quad_form = torch.matmul(torch.matmul(left, self.sigma_inv), g[:, :, None])[:, 0, :]\n            action_values = self.actor(obs) + self.gamma * torch.sqrt(quad_form)\n", "fire", "C19.4"),
    ("ts-bonus-operator-spelling-ok", _TS, "                    torch.matmul(\n                        torch.matmul(g[:, None, :], self.sigma_inv), g[:, :, None]\n                    )[:, 0, :]\n",
     "                    (g[:, None, :] @ self.sigma_inv @ g[:, :, None])[:, 0, :]\n", "silent", None),
    ("ucb-rewrite-assign-ok", _UCB, "        self.sigma_inv -= (self.sigma_inv @ v @ v.T @ self.sigma_inv) / (\n            1 + v.T @ self.sigma_inv @ v\n        )",
     "        self.sigma_inv = self.sigma_inv - (self.sigma_inv @ v @ v.T @ self.sigma_inv) / (\n            1 + v.T @ self.sigma_inv @ v\n        )", "silent", None),
    # round 4 (benign refactorings): the per-arm gradient loop is checked by roles, def-use and dominance (C19.4)
    ("ts-trainable-params-and-scale-hoisted-ok", _TS, _TS_LOOP,
     "        mu = self.actor(obs)\n        scale = np.sqrt(self.exp_layer.weight.size(0))\n        params = [w for w in self.exp_layer.parameters() if w.requires_grad]\n"
     "        g = torch.zeros((self.action_dim, self.numel)).to(self.device)\n        for k, fx in enumerate(mu):\n            self.optimizer.zero_grad()\n"
     "            fx.backward(retain_graph=True)\n            g[k] = torch.cat([w.grad.detach().flatten() / scale for w in params])\n", "silent", None),
    ("ts-gradient-loop-in-private-helper-ok", _TS, _TS_HEAD + _TS_LOOP,
     "    def _arm_gradient_features(self, arm_values):\n        scale = np.sqrt(self.exp_layer.weight.size(0))\n"
     "        params = [w for w in self.exp_layer.parameters() if w.requires_grad]\n        features = torch.zeros((self.action_dim, self.numel)).to(self.device)\n"
     "        for arm, value in enumerate(arm_values):\n            self.optimizer.zero_grad()\n            value.backward(retain_graph=True)\n"
     "            features[arm] = torch.cat([w.grad.detach().flatten() / scale for w in params])\n        return features\n\n"
     + _TS_HEAD + "        g = self._arm_gradient_features(self.actor(obs))\n", "silent", None),
    ("ts-rows-built-through-temporary-no-actor-local-ok", _TS, _TS_LOOP,
     "        g = torch.zeros((self.action_dim, self.numel)).to(self.device)\n        for k, fx in enumerate(self.actor(obs)):\n            self.optimizer.zero_grad()\n"
     "            fx.backward(retain_graph=True)\n            grads = [w.grad.detach().flatten() / np.sqrt(self.exp_layer.weight.size(0)) for w in self.exp_layer.parameters() if w.requires_grad]\n"
     "            g[k] = torch.cat(grads)\n", "silent", None),
    ("ts-hoisted-params-unfiltered", _TS, _TS_LOOP,
     "        mu = self.actor(obs)\n        params = list(self.exp_layer.parameters())\n"
     "        g = torch.zeros((self.action_dim, self.numel)).to(self.device)\n        for k, fx in enumerate(mu):\n            self.optimizer.zero_grad()\n"
     "            fx.backward(retain_graph=True)\n            g[k] = torch.cat([w.grad.detach().flatten() / np.sqrt(self.exp_layer.weight.size(0)) for w in params])\n", "fire", "C19.4"),
    ("ts-hoisted-params-of-whole-actor", _TS, _TS_LOOP,
     "        mu = self.actor(obs)\n        params = [w for w in self.actor.parameters() if w.requires_grad]\n"
     "        g = torch.zeros((self.action_dim, self.numel)).to(self.device)\n        for k, fx in enumerate(mu):\n            self.optimizer.zero_grad()\n"
     "            fx.backward(retain_graph=True)\n            g[k] = torch.cat([w.grad.detach().flatten() / np.sqrt(self.exp_layer.weight.size(0)) for w in params])\n", "fire", "C19.4"),
    ("ts-gradients-zeroed-again-before-read", _TS, "            fx.backward(retain_graph=True)\n", "            fx.backward(retain_graph=True)\n            self.optimizer.zero_grad()\n", "fire", "C19.4"),
    ("ts-gradients-zeroed-only-at-end-of-iteration", _TS, _TS_LOOP,
     "        mu = self.actor(obs)\n        params = [w for w in self.exp_layer.parameters() if w.requires_grad]\n"
     "        g = torch.zeros((self.action_dim, self.numel)).to(self.device)\n        for k, fx in enumerate(mu):\n"
     "            fx.backward(retain_graph=True)\n            g[k] = torch.cat([w.grad.detach().flatten() / np.sqrt(self.exp_layer.weight.size(0)) for w in params])\n"
     "            self.optimizer.zero_grad()\n", "fire", "C19.4"),
    ("ts-backward-of-first-output-for-every-arm", _TS, "            fx.backward(retain_graph=True)\n", "            mu[0].backward(retain_graph=True)\n", "fire", "C19.4"),
    ("ts-feature-matrix-under-second-name-ok", _TS, _TS_LOOP,
     "        mu = self.actor(obs)\n        feats = torch.zeros((self.action_dim, self.numel)).to(self.device)\n        for k, fx in enumerate(mu):\n            self.optimizer.zero_grad()\n"
     "            fx.backward(retain_graph=True)\n            feats[k] = torch.cat([w.grad.detach().flatten() / np.sqrt(self.exp_layer.weight.size(0)) for w in self.exp_layer.parameters() if w.requires_grad])\n"
     "        g = feats\n", "silent", None),
    ("ts-feature-matrix-scaled-through-second-name", _TS, _TS_LOOP,
     "        mu = self.actor(obs)\n        feats = torch.zeros((self.action_dim, self.numel)).to(self.device)\n        for k, fx in enumerate(mu):\n            self.optimizer.zero_grad()\n"
     "            fx.backward(retain_graph=True)\n            feats[k] = torch.cat([w.grad.detach().flatten() / np.sqrt(self.exp_layer.weight.size(0)) for w in self.exp_layer.parameters() if w.requires_grad])\n"
     "        g = feats\n        g *= self.gamma\n", "fire", "C19.1"),
]
