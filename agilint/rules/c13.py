"""C13 — the vector environment rejects misuse and survives worker faults without hanging.

Typestate analysis of the AsyncState protocol on CFGs with exceptional edges.
"""
from __future__ import annotations

import ast
from typing import Dict, List, Optional, Set, Tuple

from ..cfg import CFG, Node
from ..core import AnalysisError, Cls, Fn, Repo, call_name, calls_in, const_value, dotted, get_kw, last_attr, short, walk_no_nested
from ..pat import find, has
from ..report import Check

AV = "agilerl.vector.pz_async_vec_env"
PV = "agilerl.vector.pz_vec_env"

ASYNC = {"reset_async": "WAITING_RESET", "step_async": "WAITING_STEP", "call_async": "WAITING_CALL"}
WAIT = {"reset_wait": "WAITING_RESET", "step_wait": "WAITING_STEP", "call_wait": "WAITING_CALL"}


def _state_assigns(cfg: CFG, const: Optional[str] = None) -> List[Node]:
    out = []
    for n in cfg.live_nodes():
        if n.kind == "stmt" and isinstance(n.ast, ast.Assign) and dotted(n.ast.targets[0]) == "self._state":
            v = dotted(n.ast.value)
            if const is None or v == f"AsyncState.{const}":
                out.append(n)
    return out


def _elem_vars(root: ast.AST, attr: str, scope: Optional[ast.AST] = None) -> Set[str]:
    """Names bound to one element of `self.<attr>` by a for loop or comprehension clause inside root (directly, at the matching
    position of a zip(...), or through enumerate(...)): the role "one pipe" / "one worker process", whatever the local is called."""
    out: Set[str] = set()
    # plain aliases of the container (`pipes = self.parent_pipes`) count as the container
    alias = {t.id for s in ast.walk(scope if scope is not None else root) if isinstance(s, ast.Assign) and dotted(s.value) == f"self.{attr}" for t in s.targets if isinstance(t, ast.Name)}

    def bind(target: ast.AST, it: ast.AST) -> None:
        if dotted(it) == f"self.{attr}" or (isinstance(it, ast.Name) and it.id in alias):
            if isinstance(target, ast.Name):
                out.add(target.id)
        elif isinstance(it, ast.Call) and isinstance(it.func, ast.Name) and isinstance(target, (ast.Tuple, ast.List)) and not it.keywords:
            if it.func.id == "zip" and len(target.elts) == len(it.args):
                for t, a in zip(target.elts, it.args):
                    bind(t, a)
            elif it.func.id == "enumerate" and len(target.elts) == 2 and len(it.args) >= 1:
                bind(target.elts[1], it.args[0])

    for n in ast.walk(root):
        if isinstance(n, (ast.For, ast.comprehension)):
            bind(n.target, n.iter)
    return out


def _loops_over(root: ast.AST, attr: str) -> List[Tuple[ast.For, Set[str]]]:
    """(for statement, names of its element variable) for every loop inside root that iterates `self.<attr>`."""
    out = []
    for n in ast.walk(root):
        if isinstance(n, ast.For):
            vs = _elem_vars(ast.For(target=n.target, iter=n.iter, body=[], orelse=[]), attr, scope=root)
            if vs:
                out.append((n, vs))
    out.sort(key=lambda x: x[0].lineno)
    return out


def _is_pipe(x: ast.AST, pipes: Set[str]) -> bool:
    """x denotes a parent pipe: an element variable of self.parent_pipes or an expression on the `parent_pipes` attribute."""
    if isinstance(x, ast.Name):
        return x.id in pipes
    return any(isinstance(y, ast.Attribute) and y.attr == "parent_pipes" for y in ast.walk(x))


def _method_calls_on(root: ast.AST, names: Set[str], method: str, nested: bool = False) -> List[ast.Call]:
    """Calls `<v>.<method>(...)` inside root whose receiver is one of the given variables."""
    return [c for c in calls_in(root, nested=nested) if isinstance(c.func, ast.Attribute) and c.func.attr == method
            and isinstance(c.func.value, ast.Name) and c.func.value.id in names]


def _io_nodes(cfg: CFG, kinds=("send", "recv", "poll")) -> List[Node]:
    out = []
    pipes = _elem_vars(cfg.fn, "parent_pipes")
    for n in cfg.live_nodes():
        for x in n.walk():
            if isinstance(x, ast.Call) and isinstance(x.func, ast.Attribute) and x.func.attr in kinds and _is_pipe(x.func.value, pipes):
                out.append(n)
                break
    return out


def _choices(root: ast.AST) -> List[Tuple[ast.AST, ast.AST, ast.AST, ast.AST, ast.AST]]:
    """(statement, target, test, value when the test holds, value otherwise) for every choice between two values of one target inside root,
    whichever way it is spelled: `t = a if c else b`, or `if c: t = a` / `else: t = b` with nothing else in the two branches (without an
    `else` the local keeps its value: `t = a if c else t`)."""
    out = []
    for s in walk_no_nested(root):
        if isinstance(s, ast.Assign) and len(s.targets) == 1 and isinstance(s.value, ast.IfExp):
            out.append((s, s.targets[0], s.value.test, s.value.body, s.value.orelse))
        elif isinstance(s, ast.AnnAssign) and isinstance(s.value, ast.IfExp):
            out.append((s, s.target, s.value.test, s.value.body, s.value.orelse))
        elif isinstance(s, ast.If) and len(s.body) == 1 and len(s.orelse) == 1 and all(isinstance(x, ast.Assign) and len(x.targets) == 1 for x in (s.body[0], s.orelse[0])) \
                and ast.dump(s.body[0].targets[0]) == ast.dump(s.orelse[0].targets[0]):
            out.append((s, s.body[0].targets[0], s.test, s.body[0].value, s.orelse[0].value))
        elif isinstance(s, ast.If) and len(s.body) == 1 and not s.orelse and isinstance(s.body[0], ast.Assign) and len(s.body[0].targets) == 1 and isinstance(s.body[0].targets[0], ast.Name):
            out.append((s, s.body[0].targets[0], s.test, s.body[0].value, ast.Name(id=s.body[0].targets[0].id, ctx=ast.Load())))
    return out


def _poll_answer(cfg: CFG, t: Node) -> Tuple[Optional[ast.Call], bool]:
    """(poll call, polarity) when test node t branches on nothing but the answer of `self._poll_pipe_envs(...)`: the call itself or a local every reaching
    definition of which is that call, under any number of negations (polarity True: the true branch is "every worker answered").  (None, _) otherwise."""
    e, pol = t.ast, True
    while isinstance(e, ast.UnaryOp) and isinstance(e.op, ast.Not):
        e, pol = e.operand, not pol
    if isinstance(e, ast.Name):
        vals = [cfg.value_of_def(d, e.id) for d in cfg.defs_reaching(t, e.id)]
        e = vals[0] if len(vals) == 1 else None
    if isinstance(e, ast.Call) and call_name(e) == "self._poll_pipe_envs":
        return e, pol
    return None, pol


def _failed_poll_times_out(cfg: CFG, t: Node) -> bool:
    """Every normal path that starts on the "poll failed" side of test t ends in `raise mp.TimeoutError(...)` and sets the state to DEFAULT (and to nothing
    else) on the way — whichever branch of the `if` that side is, and wherever the statements stand (in the branch, or after an `if` whose other branch left)."""
    call, pol = _poll_answer(cfg, t)
    if call is None or not isinstance(t.stmt, ast.If):
        return False
    normal = [s for s in t.succ if s.id not in t.exc_succ]
    if pol:
        failed = [t.false_succ] if t.false_succ is not None else [s for s in normal if s is not t.true_succ]
    else:
        failed = [t.true_succ] if t.true_succ is not None else []
    if not failed:
        return False

    def timeout_raise(n: Node) -> bool:
        if not (n.kind == "stmt" and isinstance(n.ast, ast.Raise) and n.ast.exc is not None):
            return False
        d = dotted(n.ast.exc.func) if isinstance(n.ast.exc, ast.Call) else dotted(n.ast.exc)
        return d in ("mp.TimeoutError", "multiprocessing.TimeoutError")

    # states on the way: None = not written since the poll, else the constant last written
    seen: Set[Tuple[int, Optional[str]]] = set()
    work: List[Tuple[Node, Optional[str]]] = [(s, None) for s in failed]
    reached = False
    while work:
        n, st = work.pop()
        if (n.id, st) in seen:
            continue
        seen.add((n.id, st))
        if n is t or n.kind in ("exit", "rexit"):
            return False  # the failed side goes on (returns, loops back) without reporting the timeout
        if n.kind == "stmt" and isinstance(n.ast, ast.Raise):
            if not timeout_raise(n) or st != "AsyncState.DEFAULT":
                return False
            reached = True
            continue
        if n.kind == "stmt" and isinstance(n.ast, ast.Assign) and any(dotted(x) == "self._state" for x in n.ast.targets):
            st = dotted(n.ast.value) or "?"
        work.extend((s, st) for s in n.succ if s.id not in n.exc_succ)
    return reached


def _guard_tests(cfg: CFG, want_const: str, exc: str) -> List[Node]:
    """`if self._state != AsyncState.<want_const>: raise <exc>` test nodes."""
    out = []
    for n in cfg.live_nodes():
        if n.kind == "test" and isinstance(n.ast, ast.Compare) and dotted(n.ast.left) == "self._state" and isinstance(n.ast.ops[0], ast.NotEq) \
                and dotted(n.ast.comparators[0]) == f"AsyncState.{want_const}" and isinstance(n.stmt, ast.If):
            raises = [s for s in n.stmt.body if isinstance(s, ast.Raise) and s.exc is not None and call_name(s.exc if isinstance(s.exc, ast.Call) else ast.Call(func=s.exc, args=[], keywords=[])).split(".")[-1] == exc]
            if raises and not n.stmt.orelse:
                out.append(n)
    return out


def run(ck: Check, repo: Repo) -> None:
    ck.not_decided += ["wall-clock bounds (promptness) and liveness of worker processes at run time",
                       "that a worker exception object survives pickling with its type"]
    ck.trusted += ["may-raise model: any statement containing a call, a subscript, raise or assert may raise",
                   "multiprocessing.Connection.send/recv raise OSError/EOFError when the peer died"]
    ck.rule("C13.1", "guards: _assert_is_running() and the state test (raise AlreadyPendingCallError / NoAsyncCallError) dominate every "
                     "pipe send/recv/poll of the method; *_async ends in the WAITING state of its own family")
    ck.rule("C13.2", "every exit of a *_wait method leaves the state DEFAULT: normal returns, explicit raises (timeout), worker errors "
                     "(through _raise_if_errors) and implicit exceptions between the first receive and the end")
    ck.rule("C13.3", "error transport: the worker reports (index, type, value, trace) and answers (None, False) from one handler around "
                     "its loop and always closes its env; the parent drains one queue item per failed worker, closes and nulls that "
                     "pipe, resets the state and re-raises exctype(value)")
    ck.rule("C13.4", "a timeout sets the state to DEFAULT and raises multiprocessing.TimeoutError; polling returns False for a closed / "
                     "missing pipe instead of blocking")
    ck.rule("C13.5", "close: a pending call is awaited with the caller's timeout and a timeout leads to terminate(); on every path "
                     "every open pipe is closed and every process joined; close() is idempotent and sets the closed flag")
    cls = repo.cls(AV, "AsyncPettingZooVecEnv")
    # ---- C13.1 async side
    for name, const in list(ASYNC.items()) + [("set_attr", None)]:
        fn = cls.methods.get(name)
        if fn is None:
            raise AnalysisError(f"AsyncPettingZooVecEnv.{name} not found")
        cfg = CFG(fn.node)
        ios = _io_nodes(cfg)
        ck.ob("C13.1", fn, fn.node, bool(ios), f"{name}: talks to the workers through the pipes", construct=f"{name}: pipe I/O sites")
        running = [cfg.node_of(c) for c in calls_in(fn.node) if call_name(c) == "self._assert_is_running"]
        guards = _guard_tests(cfg, "DEFAULT", "AlreadyPendingCallError")
        for io in ios:
            ok_r = any(r is not None and cfg.dominates(r, io) for r in running)
            ok_g = any(cfg.dominates(g, io) and io.id not in cfg._region([g.true_succ], g) for g in guards)
            ck.ob("C13.1", fn, io.ast, ok_r, f"{name}: the closed-environment check precedes pipe I/O")
            ck.ob("C13.1", fn, io.ast, ok_g, f"{name}: a pending call is rejected (AlreadyPendingCallError) before anything is sent",
                  detail="no `if self._state != AsyncState.DEFAULT: raise AlreadyPendingCallError` dominates this I/O")
        if const is not None:
            sets = _state_assigns(cfg)
            ok = len(sets) == 1 and dotted(sets[0].ast.value) == f"AsyncState.{const}" and all(cfg.postdominates(sets[0], io) for io in ios) \
                and all(io.id not in cfg.reachable_from(sets[0]) for io in ios)
            ck.ob("C13.1", fn, sets[0].ast if sets else fn.node, ok, f"{name}: after sending, the state becomes {const} (its own family) on every normal path",
                  detail=f"state assignments: {[short(s.ast, 60) for s in sets]}")
            # one message per worker
            over = [l for l, _ in _loops_over(fn.node, "parent_pipes")]
            loops = [n for n in cfg.live_nodes() if n.kind == "for" and ("self.parent_pipes" in ast.unparse(n.ast.iter) or n.ast in over)]
            ck.ob("C13.1", fn, loops[0].ast.iter if loops else fn.node, len(loops) == 1, f"{name}: one message is sent to every worker")
        else:
            sets = _state_assigns(cfg)
            ck.ob("C13.1", fn, fn.node, not sets, "set_attr is synchronous and leaves the state untouched", construct="state writes in set_attr")
    # ---- wait side
    rie = cls.methods.get("_raise_if_errors")
    if rie is None:
        raise AnalysisError("_raise_if_errors not found")
    rie_ok = _raise_if_errors(ck, repo, rie)
    for name, const in WAIT.items():
        fn = cls.methods.get(name)
        if fn is None:
            raise AnalysisError(f"AsyncPettingZooVecEnv.{name} not found")
        cfg = CFG(fn.node, exceptional=True)
        ios = _io_nodes(cfg, kinds=("recv",)) + [n for n in cfg.live_nodes() if any(isinstance(x, ast.Call) and call_name(x) == "self._poll_pipe_envs" for x in n.walk())]
        running = [cfg.node_of(c) for c in calls_in(fn.node) if call_name(c) == "self._assert_is_running"]
        guards = _guard_tests(cfg, const, "NoAsyncCallError")
        ck.ob("C13.1", fn, fn.node, bool(guards), f"{name}: waiting without the matching pending call raises NoAsyncCallError",
              detail=f"no `if self._state != AsyncState.{const}: raise NoAsyncCallError` found", construct=f"{name}: state guard")
        for io in ios:
            ok_r = any(r is not None and cfg.dominates(r, io) for r in running)
            ok_g = any(cfg.dominates(g, io) and io.id not in cfg._region([g.true_succ], g) for g in guards)
            ck.ob("C13.1", fn, io.ast, ok_r and ok_g, f"{name}: the closed check and the state guard dominate the receive/poll")
        # guard exits do not alter the state
        for g in guards:
            reg = cfg._region([g.true_succ], g)
            ck.ob("C13.1", fn, g.ast, not any(s.id in reg for s in _state_assigns(cfg)), f"{name}: a rejected call leaves the state as it was")
        if not guards:
            continue
        g = guards[0]
        start_nodes = [s for s in g.succ if s is not g.true_succ and s.id not in g.exc_succ]
        defaults = {n.id for n in _state_assigns(cfg, "DEFAULT")}
        # (a) normal exits
        def path_to(target: Node, extra_avoid: Set[int] = frozenset(), drop_exc_of: Set[int] = frozenset()):
            # BFS from the first node after the guard avoiding DEFAULT assignments
            prev: Dict[int, Optional[Node]] = {}
            queue = []
            for s in start_nodes:
                if s.id not in defaults:
                    prev[s.id] = None
                    queue.append(s)
            while queue:
                n = queue.pop(0)
                if n is target:
                    path = [n]
                    while prev[path[-1].id] is not None:
                        path.append(prev[path[-1].id])
                    return list(reversed(path))
                for s in n.succ:
                    if s.id in defaults or s.id in extra_avoid or s.id in prev:
                        continue
                    if n.id in drop_exc_of and s.id in n.exc_succ:
                        continue
                    prev[s.id] = n
                    queue.append(s)
            return None
        # nodes whose exceptional edge is accounted for separately
        rie_calls = {n.id for n in cfg.live_nodes() if any(isinstance(x, ast.Call) and call_name(x) == "self._raise_if_errors" for x in n.walk())}
        explicit_raises = [n for n in cfg.live_nodes() if n.kind == "stmt" and isinstance(n.ast, ast.Raise)]
        # normal return paths: ignore every exceptional edge
        all_ids = {n.id for n in cfg.live_nodes()}
        p = path_to(cfg.exit, drop_exc_of=all_ids)
        ck.ob("C13.2", fn, fn.node, p is None, f"{name}: every normal return leaves the state DEFAULT",
              detail=("path to a return without `self._state = AsyncState.DEFAULT`: lines " + ",".join(str(x.lineno) for x in p if x.lineno)) if p else "",
              construct=f"{name}: normal exits")
        for r in explicit_raises:
            if r.id in cfg._region([g.true_succ], g):
                continue
            # path to this raise avoiding DEFAULT
            pr = path_to(r, drop_exc_of=all_ids)
            exc = ast.unparse(r.ast.exc)[:60] if r.ast.exc is not None else "raise"
            ck.ob("C13.2", fn, r.ast, pr is None, f"{name}: the state is DEFAULT before `raise {exc.split('(')[0]}`",
                  detail="the explicit raise is reached without resetting the state")
        ck.ob("C13.2", fn, fn.node, rie_ok or not rie_calls, f"{name}: a worker error re-raised by _raise_if_errors leaves the state DEFAULT",
              construct=f"{name}: worker-error exit")
        # (c) implicit exceptions
        p = path_to(cfg.rexit, drop_exc_of=rie_calls)
        escaping = []
        if p is not None:
            # list the statements after the poll whose exception escapes with the state still WAITING
            for n in cfg.live_nodes():
                if n.id in rie_calls or n.kind in ("entry", "exit", "rexit", "join"):
                    continue
                if cfg.rexit.id in {s.id for s in n.succ if s.id in n.exc_succ} and n.id not in cfg._region([g.true_succ], g) and not (n.kind == "stmt" and isinstance(n.ast, ast.Raise)):
                    # reachable from start without DEFAULT?
                    if path_to(n, drop_exc_of=all_ids) is not None or n in start_nodes:
                        escaping.append(n)
        lines = sorted({n.lineno for n in escaping})
        ck.ob("C13.2", fn, fn.node, p is None,
              f"{name}: an exception raised between the guard and the end (broken pipe, EOF from a killed worker, malformed result) leaves the state DEFAULT",
              detail=f"statements that may raise with the state still {const}: lines {lines}; the environment then rejects every further call "
                     f"and close() re-enters {name}() on the stale state",
              construct=f"{name}: implicit-exception exits leave the pending state")
        # C13.4 timeout branch: the tests that branch on the answer of the poll (the call itself, negated or not, or a local holding it)
        polls = [n for n in cfg.live_nodes() if n.kind == "test" and (any(isinstance(x, ast.Call) and call_name(x) == "self._poll_pipe_envs" for x in n.walk())
                                                                      or _poll_answer(cfg, n)[0] is not None)]
        okp = False
        for t in polls:
            okp = _failed_poll_times_out(cfg, t)
            ck.ob("C13.4", fn, t.ast, okp, f"{name}: a failed poll resets the state and raises multiprocessing.TimeoutError")
            call = _poll_answer(cfg, t)[0] or [x for x in t.walk() if isinstance(x, ast.Call) and call_name(x) == "self._poll_pipe_envs"][0]
            ck.ob("C13.4", fn, call, bool(call.args) and dotted(call.args[0]) == "timeout", f"{name}: the caller's timeout is the one polled with")
            recvs = _io_nodes(cfg, kinds=("recv",))
            ck.ob("C13.4", fn, t.ast, all(cfg.dominates(t, r) for r in recvs), f"{name}: nothing is received before the poll succeeded")
        ck.ob("C13.4", fn, fn.node, bool(polls), f"{name}: polls the pipes with a timeout before receiving", construct=f"{name}: poll")
    _success_flags(ck, repo, cls)
    _poll(ck, repo, cls)
    _worker(ck, repo)
    _close(ck, repo, cls)
    from ._c13_r3b import run_r3b
    run_r3b(ck, repo)
    from ._c13_r5 import run_r5
    run_r5(ck, repo)


def _queue_fields(cfg: CFG, n: Node, e: ast.AST, path: Tuple[int, ...] = (), seen: Optional[Set] = None, source=None) -> Set[str]:
    """Where the value of expression e at node n comes from: "item[i]..." = field i of a `self.error_queue.get()` result (or of a call accepted by
    the predicate `source`), "none" = the constant None, "?" = anything else.  Names are followed through their reaching definitions, tuples
    through packing, unpacking and slicing with constant bounds."""
    seen = set() if seen is None else seen
    key = (n.id, ast.dump(e), path)
    if key in seen:
        return set()
    seen.add(key)
    if isinstance(e, ast.Name):
        out: Set[str] = set()
        for d in cfg.defs_reaching(n, e.id):
            v = cfg.value_of_def(d, e.id)
            out |= {"?"} if v is None else _queue_fields(cfg, d, v, path, seen, source)
        return out
    if isinstance(e, ast.Subscript) and isinstance(const_value(e.slice), int) and not isinstance(const_value(e.slice), bool):
        return _queue_fields(cfg, n, e.value, (const_value(e.slice),) + path, seen, source)
    if isinstance(e, ast.Subscript) and isinstance(e.slice, ast.Slice) and path and path[0] >= 0 and (e.slice.step is None or const_value(e.slice.step) == 1):
        # field i of `x[a:b]` is field a + i of x (constant, non-negative bounds; i < b - a)
        lo, hi = (0 if b is None else const_value(b) for b in (e.slice.lower, e.slice.upper))
        if type(lo) is int and lo >= 0 and (e.slice.upper is None or (type(hi) is int and hi >= 0 and lo + path[0] < hi)):
            return _queue_fields(cfg, n, e.value, (lo + path[0],) + path[1:], seen, source)
        return {"?"}
    if isinstance(e, (ast.Tuple, ast.List)) and path and not any(isinstance(x, ast.Starred) for x in e.elts):
        return _queue_fields(cfg, n, e.elts[path[0]], path[1:], seen, source) if -len(e.elts) <= path[0] < len(e.elts) else {"?"}
    if isinstance(e, ast.Call) and (call_name(e) == "self.error_queue.get" if source is None else source(e)):
        return {"item" + "".join(f"[{i}]" for i in path)}
    if isinstance(e, ast.Constant) and e.value is None:
        return {"none"}
    return {"?"}


def _raise_if_errors(ck: Check, repo: Repo, fn: Fn) -> bool:
    cfg = CFG(fn.node)
    raises = [n for n in cfg.live_nodes() if n.kind == "stmt" and isinstance(n.ast, ast.Raise)]
    defaults = _state_assigns(cfg, "DEFAULT")
    ok = bool(raises) and all(any(cfg.dominates(d, r) for d in defaults) for r in raises)
    ck.ob("C13.2", fn, raises[0].ast if raises else fn.node, ok, "_raise_if_errors sets the state to DEFAULT before it re-raises the worker's exception")
    for r in raises:
        e = r.ast.exc
        okr = isinstance(e, ast.Call) and isinstance(e.func, ast.Name) and len(e.args) == 1
        if okr:
            # callee and argument are fields 1 and 2 of an item taken from the error queue, followed through the definitions that reach the raise
            # (unpacked in place, or carried out of the drain loop in a tuple / two locals; a `None` initialiser in front of the loop is not a source)
            okr = _queue_fields(cfg, r, e.func) - {"none"} == {"item[1]"} and _queue_fields(cfg, r, e.args[0]) - {"none"} == {"item[2]"}
        ck.ob("C13.3", fn, r.ast, okr, "the parent re-raises the worker's exception type with the worker's exception value (queue item fields 1 and 2)")
    # early return when no error; count = num_envs - sum(successes)
    src = ast.unparse(fn.node)
    ck.ob("C13.3", fn, fn.node, has(src, 'if all($successes):\n    return'), "no queue access when every worker succeeded", construct="all(successes) early return")
    ck.ob("C13.3", fn, fn.node, has(src, 'self.num_envs - sum($successes)'), "one queue item is drained per failed worker", construct="num_errors = num_envs - sum(successes)")
    closes = [c for c in calls_in(fn.node) if last_attr(c) == "close" and "parent_pipes" in ast.unparse(c)]
    nulls = [n for n in walk_no_nested(fn.node) if isinstance(n, ast.Assign) and "self.parent_pipes[" in ast.unparse(n.targets[0]) and const_value(n.value) is None and isinstance(n.value, ast.Constant)]
    okc = bool(closes) and bool(nulls) and ast.unparse(closes[0].func.value) == ast.unparse(nulls[0].targets[0]) and closes[0].lineno < nulls[0].lineno
    ck.ob("C13.3", fn, closes[0] if closes else fn.node, okc, "the failed worker's pipe is closed and then set to None (indexed by the reported worker index)")
    return ok


class _Deref(Exception):
    """the evaluated turn uses a pipe slot that is None"""


class _PipeTurn:
    """One turn of a loop over the parent pipes, evaluated for a pipe in a given condition.  `facts` fixes some of: "none" (the slot is None),
    "closed" (`<pipe>.closed`), "poll" (the answer of `<pipe>.poll(...)`); everything else is unknown and both outcomes are followed.  Tests are
    evaluated with Python's short-circuit rules, locals assigned in the turn carry their truth value.  Result: `outcomes` (subset of
    "return True" / "return False" / "return ?" / "next" (the loop goes on to the next pipe) / "break" / "raise" / "?"), `events` ("poll": the
    pipe was polled) and `unbounded` (a poll without a time limit: no argument, or the constant None)."""

    def __init__(self, pipes: Set[str], facts: Dict[str, bool]):
        self.pipes, self.facts = pipes, facts
        self.outcomes: Set[str] = set()
        self.events: Set[str] = set()
        self.unbounded = False

    def _is_pipe(self, e: ast.AST) -> bool:
        return isinstance(e, ast.Name) and e.id in self.pipes

    def ev(self, e: Optional[ast.AST], env: Dict[str, Optional[bool]]) -> Optional[bool]:
        if e is None:
            return None
        if isinstance(e, ast.Constant):
            return bool(e.value)
        if isinstance(e, ast.Name):
            if self._is_pipe(e):
                return None if self.facts.get("none") is None else not self.facts["none"]
            return env.get(e.id)
        if isinstance(e, ast.UnaryOp) and isinstance(e.op, ast.Not):
            v = self.ev(e.operand, env)
            return None if v is None else not v
        if isinstance(e, ast.BoolOp):
            stop = isinstance(e.op, ast.Or)
            res: Optional[bool] = not stop
            for x in e.values:
                v = self.ev(x, env)
                if v is stop:
                    return stop
                if v is None:
                    res = None
            return res
        if isinstance(e, ast.IfExp):
            t = self.ev(e.test, env)
            if t is None:
                a, b = self.ev(e.body, env), self.ev(e.orelse, env)
                return a if a == b else None
            return self.ev(e.body if t else e.orelse, env)
        if isinstance(e, ast.Compare) and len(e.ops) == 1 and isinstance(e.ops[0], (ast.Is, ast.IsNot, ast.Eq, ast.NotEq)):
            l, r = e.left, e.comparators[0]
            for a, b in ((l, r), (r, l)):
                if self._is_pipe(a) and isinstance(b, ast.Constant) and b.value is None:
                    none = self.facts.get("none")
                    return None if none is None else (none if isinstance(e.ops[0], (ast.Is, ast.Eq)) else not none)
        if isinstance(e, ast.Attribute) and self._is_pipe(e.value):
            if self.facts.get("none"):
                raise _Deref()
            return self.facts.get("closed") if e.attr == "closed" else None
        if isinstance(e, ast.Call) and isinstance(e.func, ast.Attribute) and self._is_pipe(e.func.value):
            if self.facts.get("none"):
                raise _Deref()
            for a in list(e.args) + [k.value for k in e.keywords]:
                self.ev(a, env)
            if e.func.attr == "poll":
                self.events.add("poll")
                lim = get_kw(e, "timeout", 0)
                if lim is None or (isinstance(lim, ast.Constant) and lim.value is None):
                    self.unbounded = True
                return self.facts.get("poll")
            return None
        for x in ast.iter_child_nodes(e):
            if isinstance(x, ast.expr):
                self.ev(x, env)
        return None

    def _stmts(self, stmts: List[ast.stmt], env: Dict[str, Optional[bool]]) -> Set[str]:
        for i, s in enumerate(stmts):
            if isinstance(s, ast.If):
                v = self.ev(s.test, env)
                out: Set[str] = set()
                for br in ([s.body] if v is True else [s.orelse] if v is False else [s.body, s.orelse]):
                    e2 = dict(env)
                    try:
                        o = self._stmts(br, e2)
                        if "next" in o:
                            o = (o - {"next"}) | self._stmts(stmts[i + 1:], e2)
                    except _Deref:
                        o = {"raise"}
                    out |= o
                return out
            if isinstance(s, ast.Return):
                v = self.ev(s.value, env) if s.value is not None else False
                return {"return ?" if v is None else f"return {v}"}
            if isinstance(s, ast.Raise):
                return {"raise"}
            if isinstance(s, ast.Continue):
                return {"next"}
            if isinstance(s, ast.Break):
                return {"break"}
            if isinstance(s, (ast.Assign, ast.AnnAssign)) and getattr(s, "value", None) is not None:
                v = self.ev(s.value, env)
                for t in (s.targets if isinstance(s, ast.Assign) else [s.target]):
                    for x in ast.walk(t):
                        if isinstance(x, ast.Name):
                            env[x.id] = v if isinstance(t, ast.Name) else None
            elif isinstance(s, (ast.Expr, ast.AugAssign, ast.Assert, ast.Pass)):
                for x in ast.iter_child_nodes(s):
                    if isinstance(x, ast.expr):
                        self.ev(x, env)
            else:
                return {"?"}  # a nested loop / try / with in the turn: not evaluated
        return {"next"}

    def run(self, body: List[ast.stmt]) -> "_PipeTurn":
        try:
            self.outcomes = self._stmts(body, {})
        except _Deref:
            self.outcomes = {"raise"}
        return self


def _poll(ck: Check, repo: Repo, cls: Cls) -> None:
    fn = cls.methods.get("_poll_pipe_envs")
    if fn is None:
        raise AnalysisError("_poll_pipe_envs not found")
    cfg = CFG(fn.node)
    src = ast.unparse(fn.node)
    ck.ob("C13.4", fn, fn.node, has(src, 'if $timeout is None:\n    return True'), "no timeout means wait indefinitely (documented)", construct="timeout None")
    over = [l for l, _ in _loops_over(fn.node, "parent_pipes")]
    loops = [n for n in cfg.live_nodes() if n.kind == "for" and ("self.parent_pipes" in ast.unparse(n.ast.iter) or n.ast in over)]
    ck.ob("C13.4", fn, loops[0].ast.iter if loops else fn.node, len(loops) == 1, "every pipe is polled")
    if loops:
        loop = loops[0].ast
        body = ast.Module(body=loop.body, type_ignores=[])
        # the pipe is the loop's element variable (computed); $delta / $end_time are whatever the budget locals are called
        pv = sorted(_elem_vars(ast.For(target=loop.target, iter=loop.iter, body=[], orelse=[]), "parent_pipes", scope=fn.node))
        # what one turn of the loop does for a pipe in a given condition, whichever way the tests are grouped, ordered or named: the turn is
        # evaluated on the three facts about the pipe (missing / closed / answer of poll) with short-circuit semantics
        missing = _PipeTurn(set(pv), {"none": True}).run(loop.body)
        closed = _PipeTurn(set(pv), {"none": False, "closed": True}).run(loop.body)
        silent = _PipeTurn(set(pv), {"none": False, "closed": False, "poll": False}).run(loop.body)
        ck.ob("C13.4", fn, loop, missing.outcomes == {"return False"}, "a missing pipe (failed worker) makes the poll fail instead of raising",
              detail="" if missing.outcomes == {"return False"} else f"with the pipe slot None one turn of the loop ends in {sorted(missing.outcomes)}"
                     + (" (the None slot is dereferenced: AttributeError instead of a timeout)" if "raise" in missing.outcomes else ""))
        ok_cs = closed.outcomes == {"return False"} and "poll" not in closed.events and silent.outcomes == {"return False"} and "poll" in silent.events and not silent.unbounded
        ck.ob("C13.4", fn, loop, ok_cs, "a closed or silent pipe makes the poll fail",
              detail="" if ok_cs else f"closed pipe: {sorted(closed.outcomes)}{' after polling it' if 'poll' in closed.events else ''}; open pipe whose poll(<remaining time>) "
                                      f"is False: {sorted(silent.outcomes)}{' (poll without a time limit)' if silent.unbounded else ''}")
        ck.ob("C13.4", fn, loop, has(body, 'max($end_time - time.perf_counter(), 0)', env_key=loop), "the remaining time budget is shared by all pipes (never negative)")


def _worker(ck: Check, repo: Repo) -> None:
    fn = repo.fn(AV, "_async_worker")
    tries = [n for n in fn.node.body if isinstance(n, ast.Try)]
    ck.ob("C13.3", fn, fn.node, len(tries) == 1, "the worker's command loop is wrapped by exactly one try statement", construct="try in _async_worker")
    if len(tries) != 1:
        return
    t = tries[0]
    loops = [s for s in t.body if isinstance(s, ast.While)]
    ck.ob("C13.3", fn, t, len(loops) == 1 and len(t.body) == 1, "the whole command loop is inside the try")
    ok = False
    cfg = CFG(fn.node)
    for h in t.handlers:
        names = [dotted(x) for x in (h.type.elts if isinstance(h.type, ast.Tuple) else [h.type])] if h.type is not None else ["BaseException"]
        if "Exception" in names or "BaseException" in names:
            ok = True
            puts = [c for c in calls_in(h) if call_name(c) == "error_queue.put"]
            okp = len(puts) == 1 and isinstance(puts[0].args[0], ast.Tuple) and len(puts[0].args[0].elts) == 4 and dotted(puts[0].args[0].elts[0]) == "index"
            ck.ob("C13.3", fn, puts[0] if puts else h, okp, "the handler reports (index, type, value, trace) on the error queue")
            if okp:
                # type and value come from sys.exc_info() called in this handler (fields 0 and 1 of its result, followed through the definitions that reach
                # the put: unpacked, sliced, indexed, or used in place), or are `type(<e>)` / `<e>` of the exception the handler has bound (`except ... as <e>`)
                el = puts[0].args[0].elts
                pn = cfg.node_of(puts[0])
                inside = {id(x) for x in ast.walk(h)}
                bound = lambda x: isinstance(x, ast.Name) and h.name is not None and x.id == h.name and pn is not None \
                    and all(d.kind == "except" and d.ast is h for d in cfg.defs_reaching(pn, x.id)) and bool(cfg.defs_reaching(pn, x.id))
                part = lambda x: set() if pn is None else _queue_fields(cfg, pn, x, source=lambda c: call_name(c) == "sys.exc_info" and id(c) in inside and not c.args and not c.keywords)
                ok_t = part(el[1]) == {"item[0]"} or (isinstance(el[1], ast.Call) and call_name(el[1]) == "type" and len(el[1].args) == 1 and not el[1].keywords and bound(el[1].args[0]))
                ok_v = part(el[2]) == {"item[1]"} or bound(el[2])
                ck.ob("C13.3", fn, puts[0], ok_t and ok_v, "type and value are those of the active exception")
            sends = [c for c in calls_in(h) if call_name(c) == "pipe.send"]
            oks = len(sends) == 1 and isinstance(sends[0].args[0], ast.Tuple) and const_value(sends[0].args[0].elts[1]) is False
            ck.ob("C13.3", fn, sends[0] if sends else h, oks, "the handler answers the pending request with success=False so the parent does not block")
            if puts and sends:
                ck.ob("C13.3", fn, sends[0], puts[0].lineno < sends[0].lineno, "the error is queued before the failure is signalled")
    ck.ob("C13.3", fn, t, ok, "the handler catches every Exception of the sub-environment", construct="except clause of the worker")
    # the environment is the local bound to the result of the `env_fn` parameter
    envs = {x.id for s in walk_no_nested(fn.node) if isinstance(s, ast.Assign) and isinstance(s.value, ast.Call) and call_name(s.value) == "env_fn"
            for x in s.targets if isinstance(x, ast.Name)}
    fin = [c for s in t.finalbody for c in _method_calls_on(s, envs, "close")]
    ck.ob("C13.3", fn, t, bool(fin), "the worker always closes its environment (finally)", construct="finally: env.close()")
    # successful answers carry True; unknown commands raise
    for c in calls_in(loops[0] if loops else fn.node):
        if call_name(c) == "pipe.send" and isinstance(c.args[0], ast.Tuple):
            ck.ob("C13.3", fn, c, const_value(c.args[0].elts[1]) is True, "a normal answer carries success=True")
    src = ast.unparse(fn.node)
    ck.ob("C13.3", fn, fn.node, "raise RuntimeError(f'Received unknown command" in src or 'raise RuntimeError(f"Received unknown command' in src, "an unknown command is an error, not silently ignored",
          construct="unknown command branch")


def _is_wait_method(cfg: CFG, n: Optional[Node], e: ast.AST, seen: Optional[Set] = None) -> bool:
    """e (evaluated at node n) denotes one of the environment's own *_wait methods: `self.<family>_wait`, `getattr(self, <name ending in _wait>)`,
    an entry of a table / a choice whose alternatives all are, or a local every reaching definition of which is."""
    seen = set() if seen is None else seen
    if n is None or (n.id, id(e)) in seen:
        return False
    seen.add((n.id, id(e)))
    if isinstance(e, ast.Attribute):
        return dotted(e.value) == "self" and e.attr in WAIT
    if isinstance(e, ast.Call) and call_name(e) == "getattr":
        return len(e.args) >= 2 and dotted(e.args[0]) == "self" and "_wait" in ast.unparse(e.args[1])
    if isinstance(e, ast.IfExp):
        return _is_wait_method(cfg, n, e.body, seen) and _is_wait_method(cfg, n, e.orelse, seen)
    if isinstance(e, ast.Dict):
        return bool(e.values) and all(k is not None and _is_wait_method(cfg, n, v, seen) for k, v in zip(e.keys, e.values))
    if isinstance(e, (ast.Tuple, ast.List)):
        return bool(e.elts) and all(_is_wait_method(cfg, n, v, seen) for v in e.elts)
    if isinstance(e, ast.Subscript):
        return _is_wait_method(cfg, n, e.value, seen)
    if isinstance(e, ast.Name):
        ds = cfg.defs_reaching(n, e.id)
        return bool(ds) and all(cfg.value_of_def(d, e.id) is not None and _is_wait_method(cfg, d, cfg.value_of_def(d, e.id), seen) for d in ds)
    return False


def _is_callers_timeout(cfg: CFG, n: Optional[Node], e: Optional[ast.AST], seen: Optional[Set] = None) -> bool:
    """e (evaluated at node n) is the `timeout` parameter of the function: the parameter itself on at least one path, on the others the constant 0 of
    the `terminate` choice (checked on its own) — through copies, conditional expressions and conditional assignments."""
    def walk(n: Node, e: ast.AST, seen: Set) -> Optional[bool]:
        # None = not the timeout; False = the constant 0 only; True = reaches the parameter
        if isinstance(e, ast.Constant):
            return False if (e.value == 0 and type(e.value) is int) else None
        if isinstance(e, ast.IfExp):
            a, b = walk(n, e.body, seen), walk(n, e.orelse, seen)
            return None if a is None or b is None else (a or b)
        if not isinstance(e, ast.Name):
            return None
        if (n.id, e.id) in seen:
            return False
        seen.add((n.id, e.id))
        res = False
        ds = cfg.defs_reaching(n, e.id)
        if not ds:
            return None
        for d in ds:
            if d.kind == "entry":
                r: Optional[bool] = True if e.id == "timeout" else None
            else:
                v = cfg.value_of_def(d, e.id)
                r = None if v is None else walk(d, v, seen)
            if r is None:
                return None
            res = res or r
        return res
    return n is not None and e is not None and walk(n, e, set()) is True


def _open_facts(e: ast.AST, pol: bool, v: str) -> Set[str]:
    """What a test with the given outcome says about pipe variable v: "there" (`v is not None`), "open" (`not v.closed`)."""
    while isinstance(e, ast.UnaryOp) and isinstance(e.op, ast.Not):
        e, pol = e.operand, not pol
    if isinstance(e, ast.BoolOp) and isinstance(e.op, ast.And if pol else ast.Or):
        return set().union(*[_open_facts(x, pol, v) for x in e.values])
    if isinstance(e, ast.Compare) and len(e.ops) == 1 and isinstance(e.ops[0], (ast.IsNot, ast.NotEq) if pol else (ast.Is, ast.Eq)):
        a, b = e.left, e.comparators[0]
        if any(isinstance(x, ast.Name) and x.id == v and isinstance(y, ast.Constant) and y.value is None for x, y in ((a, b), (b, a))):
            return {"there"}
    if not pol and isinstance(e, ast.Attribute) and e.attr == "closed" and isinstance(e.value, ast.Name) and e.value.id == v:
        return {"open"}
    return set()


def _pipes_selected(cfg: CFG, n: Optional[Node], it: ast.AST, depth: int = 0) -> Optional[Set[str]]:
    """The iterable `it` (evaluated at node n) yields elements of self.parent_pipes: the facts known about each of them (see _open_facts) — none for the
    container itself, those of the filter for a comprehension over it (directly or through locals bound once).  None: not (known to be) the pipes."""
    if n is None or depth > 4:
        return None
    if dotted(it) == "self.parent_pipes":
        return set()
    if isinstance(it, ast.Name):
        ds = cfg.defs_reaching(n, it.id)
        v = cfg.value_of_def(ds[0], it.id) if len(ds) == 1 else None
        return None if v is None else _pipes_selected(cfg, ds[0], v, depth + 1)
    if isinstance(it, ast.Call) and call_name(it) in ("list", "tuple") and len(it.args) == 1 and not it.keywords:
        return _pipes_selected(cfg, n, it.args[0], depth + 1)
    if isinstance(it, (ast.ListComp, ast.GeneratorExp)) and len(it.generators) == 1 and isinstance(it.generators[0].target, ast.Name) \
            and isinstance(it.elt, ast.Name) and it.elt.id == it.generators[0].target.id:
        g = it.generators[0]
        inner = _pipes_selected(cfg, n, g.iter, depth + 1)
        return None if inner is None else inner.union(*[_open_facts(c, True, g.target.id) for c in g.ifs])
    return None


def _on_open_pipe(cfg: CFG, fn: ast.AST, c: ast.Call) -> bool:
    """The receiver of call c is the element variable of an enclosing loop over the parent pipes, and at the call it is known to be neither None nor closed."""
    n = cfg.node_of(c)
    v = c.func.value.id
    if n is None:
        return False
    facts: Optional[Set[str]] = None
    for loop in [l for l in ast.walk(fn) if isinstance(l, ast.For) and any(x is c for x in ast.walk(l))]:
        if v in _elem_vars(ast.For(target=loop.target, iter=loop.iter, body=[], orelse=[]), "parent_pipes", scope=fn):
            facts = set()
        elif isinstance(loop.target, ast.Name) and loop.target.id == v:
            facts = _pipes_selected(cfg, cfg.node_of(loop.iter), loop.iter)
        if facts is not None:
            inside = {id(x) for x in ast.walk(loop)}
            for test, pol, tn in cfg.guards_at(n):
                if id(tn.stmt) in inside:
                    facts = facts | _open_facts(test, pol, v)
            return {"there", "open"} <= facts
    return False


def _close(ck: Check, repo: Repo, cls: Cls) -> None:
    fn = cls.methods.get("close_extras")
    if fn is None:
        raise AnalysisError("close_extras not found")
    cfg = CFG(fn.node)
    # pending call awaited inside try / except mp.TimeoutError -> terminate
    tries = [n for n in walk_no_nested(fn.node) if isinstance(n, ast.Try)]
    ok = False
    for t in tries:
        src = ast.unparse(t)
        if has(src, 'self._state != AsyncState.DEFAULT') and "_wait" in src:
            # the handler must name the exception the *_wait methods raise (multiprocessing.TimeoutError is NOT the builtin TimeoutError) or one of its bases
            raised = set()
            for wn in ("reset_wait", "step_wait", "call_wait"):
                wm = cls.methods.get(wn)
                for r in (ast.walk(wm.node) if wm is not None else []):
                    if isinstance(r, ast.Raise) and r.exc is not None:
                        d = dotted(r.exc.func) if isinstance(r.exc, ast.Call) else dotted(r.exc)
                        if "Timeout" in d:
                            raised.add(d)
            accepted = raised | {"Exception", "BaseException", "mp.ProcessError", "multiprocessing.ProcessError"}
            hs = [h for h in t.handlers if h.type is not None and any(dotted(x) in accepted for x in (h.type.elts if isinstance(h.type, ast.Tuple) else [h.type]))]
            ck.note("C13.5_timeout_raised_by_waits", sorted(raised))
            ok = bool(hs) and any(isinstance(s, ast.Assign) and dotted(s.targets[0]) == "terminate" and const_value(s.value) is True for s in hs[0].body)
            # the call of the pending wait method, however it is selected (by name through getattr, from a table keyed by the state, by a
            # ladder of direct calls, through a local): every such call gets the `timeout` parameter of close_extras as its time limit
            calls = [c for c in calls_in(t) if _is_wait_method(cfg, cfg.node_of(c), c.func)]
            ck.ob("C13.5", fn, calls[0] if calls else t, bool(calls) and all(_is_callers_timeout(cfg, cfg.node_of(c), get_kw(c, "timeout", 0)) for c in calls),
                  "a pending call is awaited with the caller's timeout")
    ck.ob("C13.5", fn, tries[0] if tries else fn.node, ok, "a timeout while waiting for the pending call switches to terminate()")
    # (either spelling of the choice: conditional expression or if / else statement; the two locals are whatever they are called, but distinct)
    choices = _choices(fn.node)
    ck.ob("C13.5", fn, fn.node, any(isinstance(t, ast.Name) and isinstance(c, ast.Name) and c.id != t.id and isinstance(a, ast.Constant) and const_value(a) == 0 and type(a.value) is int
                                     and isinstance(b, ast.Name) and b.id == t.id for _, t, c, a, b in choices), "terminate=True does not wait", construct="timeout = 0 if terminate")
    # terminate branch (the `if terminate:` statement that acts; a choice of a value spelled as a statement is not it)
    tests = [n for n in cfg.live_nodes() if n.kind == "test" and dotted(n.ast) == "terminate" and not any(n.stmt is s for s, _, _, _, _ in choices)]
    okt = False
    for t in tests:
        body = ast.Module(body=t.stmt.body, type_ignores=[])
        okt = any(_method_calls_on(l, vs, "terminate") for l, vs in _loops_over(body, "processes"))
    ck.ob("C13.5", fn, tests[0].ast if tests else fn.node, okt, "terminate: every live worker process is terminated")
    # graceful branch: send close to every open pipe, then receive the acknowledgement
    if tests:
        els = tests[0].stmt.orelse
        # every send / receive of the branch goes to an element of self.parent_pipes that is known to be open at that point (not None, not closed): by the
        # tests around the call or by the filter of the list the loop runs over; the close message is sent and an answer is received
        gm = ast.Module(body=els, type_ignores=[])
        sites = [c for c in calls_in(gm) if isinstance(c.func, ast.Attribute) and c.func.attr in ("send", "recv") and isinstance(c.func.value, ast.Name)]
        open_sites = [c for c in sites if _on_open_pipe(cfg, fn.node, c)]
        ck.ob("C13.5", fn, els[0] if els else fn.node, bool(sites) and len(open_sites) == len(sites)
              and any(c.func.attr == "send" and has(c, "$p.send(('close', None))") for c in open_sites) and any(c.func.attr == "recv" for c in open_sites),
              "graceful: close is sent to, and acknowledged by, every pipe that is still open (failed workers skipped)")
    # closing pipes and joining post-dominate the entry (normal paths)
    pipe_vars, proc_vars = _elem_vars(fn.node, "parent_pipes"), _elem_vars(fn.node, "processes")
    closes = [cfg.node_of(c) for c in _method_calls_on(fn.node, pipe_vars, "close")]
    joins = [cfg.node_of(c) for c in _method_calls_on(fn.node, proc_vars, "join")]
    def on_all(nodes):
        if not nodes or nodes[0] is None:
            return False
        n = nodes[0]
        loops = [l for l in cfg.live_nodes() if l.kind == "for" and any(x is n.stmt for x in ast.walk(l.ast))]
        return bool(loops) and cfg.postdominates(loops[0], cfg.entry)
    ck.ob("C13.5", fn, closes[0].ast if closes and closes[0] else fn.node, on_all(closes),
          "every normal path closes all parent pipes that still exist")
    ck.ob("C13.5", fn, joins[0].ast if joins and joins[0] else fn.node, on_all(joins), "every normal path joins every worker process")
    # exceptional paths
    ecfg = CFG(fn.node, exceptional=True)
    ejoins = [n for n in ecfg.live_nodes() if any(isinstance(x, ast.Call) and isinstance(x.func, ast.Attribute) and x.func.attr == "join"
                                                   and isinstance(x.func.value, ast.Name) and x.func.value.id in proc_vars for x in n.walk())]
    jl = [l for l in ecfg.live_nodes() if l.kind == "for" and ejoins and any(x is ejoins[0].stmt for x in ast.walk(l.ast))]
    avoid = {l.id for l in jl}
    p = ecfg.path_avoiding(ecfg.entry, {ecfg.rexit.id}, avoid) if jl else None
    ck.ob("C13.5", fn, fn.node, jl != [] and p is None,
          "an exception while closing (broken pipe to a killed worker, error other than a timeout from the pending wait) still ends in joining / terminating every worker",
          detail=("exception escaping at lines " + ",".join(str(x.lineno) for x in (p or [])[-3:]) +
                  ": close() raises, `closed` stays False and the surviving workers keep running"),
          construct="close_extras: exceptional exits skip terminate/join")
    # base class close(): idempotent + flag
    bc = repo.fn(PV, "PettingZooVecEnv.close")
    src = ast.unparse(bc.node)
    ck.ob("C13.5", bc, bc.node, has(src, 'if self.closed:\n    return'), "close() on a closed environment returns at once", construct="closed early return")
    bcfg = CFG(bc.node)
    ce = [bcfg.node_of(c) for c in calls_in(bc.node) if call_name(c) == "self.close_extras"]
    fl = [n for n in bcfg.live_nodes() if n.kind == "stmt" and isinstance(n.ast, ast.Assign) and dotted(n.ast.targets[0]) == "self.closed" and const_value(n.ast.value) is True]
    ck.ob("C13.5", bc, fl[0].ast if fl else bc.node, bool(ce) and bool(fl) and bcfg.dominates(ce[0], fl[0]), "the closed flag is set after the resources were released")
    ar = repo.cls(AV, "AsyncPettingZooVecEnv").methods.get("_assert_is_running")
    src = ast.unparse(ar.node) if ar else ""
    ck.ob("C13.1", ar or bc, (ar or bc).node, has(src, 'if self.closed:\n    ...') and has(src, 'raise ClosedEnvironmentError'), "use after close raises ClosedEnvironmentError", construct="_assert_is_running")


_AV = "agilerl/vector/pz_async_vec_env.py"
_PV = "agilerl/vector/pz_vec_env.py"
_CLOSE_SRC = "    def close(self, **kwargs: Any) -> None:\n        \"\"\"\n        Clean up the environments' resources.\n        \"\"\"\n        if self.closed:\n            return\n\n        self.close_extras(**kwargs)"
_REAP_SRC = "        for pipe in self.parent_pipes:\n            if pipe is not None:\n                pipe.close()\n        for process in self.processes:\n            process.join()"
_TIMEOUT_SRC = "        if not self._poll_pipe_envs(timeout):\n            self._state = AsyncState.DEFAULT\n            raise mp.TimeoutError(\n                f\"The call to `call_wait`"
_GRACEFUL_SRC = "            for pipe in self.parent_pipes:\n                if (pipe is not None) and (not pipe.closed):\n                    pipe.send((\"close\", None))\n\n            for pipe in self.parent_pipes:\n                if (pipe is not None) and (not pipe.closed):\n                    pipe.recv()\n"
_REPORT_SRC = "        error_type, error_message, _ = sys.exc_info()\n        trace = traceback.format_exc()\n        error_queue.put((index, error_type, error_message, trace))"
VARIANTS = [
    ("close-catches-builtin-timeout", _AV, "        except mp.TimeoutError:\n            terminate = True", "        except TimeoutError:\n            terminate = True", "fire", "C13.5"),
    ("step-wait-stops-at-first-failed-worker", _AV, "            if success:\n                for agent in self.agents:\n                    rewards[agent].append(env_step_return[0][agent])", "            if not success:\n                break\n            if success:\n                for agent in self.agents:\n                    rewards[agent].append(env_step_return[0][agent])", "fire", "C13.3"),
    ("step-async-no-guard", _AV, "        self._assert_is_running()\n        if self._state != AsyncState.DEFAULT:\n            raise AlreadyPendingCallError(\n                f\"Calling `step_async` while",
     "        self._assert_is_running()\n        if False:\n            raise AlreadyPendingCallError(\n                f\"Calling `step_async` while", "fire", "C13.1"),
    ("step-async-wrong-family", _AV, "        self._state = AsyncState.WAITING_STEP\n", "        self._state = AsyncState.WAITING_CALL\n", "fire", "C13.1"),
    ("call-async-state-before-send", _AV, "        for pipe in self.parent_pipes:\n            pipe.send((\"_call\", (name, args, kwargs)))\n\n        self._state = AsyncState.WAITING_CALL",
     "        self._state = AsyncState.WAITING_CALL\n        for pipe in self.parent_pipes:\n            pipe.send((\"_call\", (name, args, kwargs)))\n", "fire", "C13.1"),
    ("step-wait-guard-wrong-state", _AV, "        if self._state != AsyncState.WAITING_STEP:\n            raise NoAsyncCallError(", "        if self._state == AsyncState.DEFAULT:\n            raise NoAsyncCallError(", "fire", "C13.1"),
    ("step-wait-no-reset-on-return", _AV, "        self._raise_if_errors(successes)\n        self._state = AsyncState.DEFAULT\n        return (\n            (\n                {\n                    agent: deepcopy(self.observations[agent])\n                    for agent in self.observations.keys()\n                }\n                if self.copy\n                else self.observations\n            ),\n            {agent: np.array(rew)",
     "        self._raise_if_errors(successes)\n        return (\n            (\n                {\n                    agent: deepcopy(self.observations[agent])\n                    for agent in self.observations.keys()\n                }\n                if self.copy\n                else self.observations\n            ),\n            {agent: np.array(rew)", "fire", "C13.2"),
    ("call-wait-timeout-keeps-state", _AV, "        if not self._poll_pipe_envs(timeout):\n            self._state = AsyncState.DEFAULT\n            raise mp.TimeoutError(\n                f\"The call to `call_wait`",
     "        if not self._poll_pipe_envs(timeout):\n            raise mp.TimeoutError(\n                f\"The call to `call_wait`", "fire", "C13"),
    ("raise-if-errors-keeps-state", _AV, "                self._state = AsyncState.DEFAULT\n                raise exctype(value)", "                raise exctype(value)", "fire", "C13.2"),
    ("raise-generic-exception", _AV, "                raise exctype(value)", "                raise RuntimeError(value)", "fire", "C13.3"),
    ("worker-no-failure-answer", _AV, "        error_queue.put((index, error_type, error_message, trace))\n        pipe.send((None, False))", "        error_queue.put((index, error_type, error_message, trace))", "fire", "C13.3"),
    ("worker-env-not-closed", _AV, "    finally:\n        env.close()", "    finally:\n        pass", "fire", "C13.3"),
    ("poll-blocks-on-none", _AV, "            if pipe is None:\n                return False\n", "", "fire", "C13.4"),
    ("close-no-join", _AV, "        for process in self.processes:\n            process.join()", "        pass", "fire", "C13.5"),
    ("close-timeout-ignored", _AV, "        except mp.TimeoutError:\n            terminate = True", "        except mp.TimeoutError:\n            pass", "fire", "C13.5"),
    ("close-not-idempotent", _PV, "        if self.closed:\n            return\n\n        self.close_extras(**kwargs)", "        self.close_extras(**kwargs)", "fire", "C13.5"),
    ("set-attr-ignores-success", _AV, "        _, successes = zip(*[pipe.recv() for pipe in self.parent_pipes])\n        self._raise_if_errors(successes)\n\n    def close_extras",
     "        for pipe in self.parent_pipes:\n            pipe.recv()\n\n    def close_extras", "fire", "C13.3"),
    ("wait-try-finally-ok", _AV, "        results, successes = zip(*[pipe.recv() for pipe in self.parent_pipes])\n        self._raise_if_errors(successes)\n        self._state = AsyncState.DEFAULT\n        return results",
     "        try:\n            results, successes = zip(*[pipe.recv() for pipe in self.parent_pipes])\n            self._raise_if_errors(successes)\n        finally:\n            self._state = AsyncState.DEFAULT\n        return results", "silent", None),
    # the choice of the timeout spelled as a statement instead of a conditional expression
    ("close-timeout-choice-if-statement-ok", _AV, "        timeout = 0 if terminate else timeout\n", "        if terminate:\n            timeout = 0\n        else:\n            timeout = timeout\n", "silent", None),
    ("close-timeout-choice-one-armed-ok", _AV, "        timeout = 0 if terminate else timeout\n", "        if terminate:\n            timeout = 0\n", "silent", None),
    ("close-timeout-choice-negated-ok", _AV, "        timeout = 0 if terminate else timeout\n", "        if not terminate:\n            timeout = timeout\n        else:\n            timeout = 0\n", "silent", None),
    ("close-terminate-waits-if-statement", _AV, "        timeout = 0 if terminate else timeout\n", "        if terminate:\n            timeout = None\n        else:\n            timeout = timeout\n", "fire", "C13.5"),
    ("close-terminate-waits", _AV, "        timeout = 0 if terminate else timeout\n", "        timeout = None if terminate else timeout\n", "fire", "C13.5"),
    ("close-timeout-dropped-if-statement", _AV, "        timeout = 0 if terminate else timeout\n", "        if terminate:\n            timeout = 0\n        else:\n            timeout = None\n", "fire", "C13.5"),
    ("close-graceful-no-acknowledgement", _AV, "            for pipe in self.parent_pipes:\n                if (pipe is not None) and (not pipe.closed):\n                    pipe.recv()\n", "", "fire", "C13.5"),
    # behaviour-preserving renames of locals (the rules must go by role, not by spelling)
    ("poll-locals-renamed-ok", _AV, "        for pipe in self.parent_pipes:\n            delta = max(end_time - time.perf_counter(), 0)\n\n            if pipe is None:\n                return False\n            if pipe.closed or (not pipe.poll(delta)):\n                return False\n",
     "        for conn in self.parent_pipes:\n            remaining = max(end_time - time.perf_counter(), 0)\n\n            if conn is None:\n                return False\n            if conn.closed or (not conn.poll(remaining)):\n                return False\n", "silent", None),
    ("close-locals-renamed-ok", _AV, "        for pipe in self.parent_pipes:\n            if pipe is not None:\n                pipe.close()\n        for process in self.processes:\n            process.join()",
     "        for conn in self.parent_pipes:\n            if conn is not None:\n                conn.close()\n        for worker in self.processes:\n            worker.join()", "silent", None),
    # ---- C13.6: the options of close() reach close_extras
    ("close-timeout-accepted-but-not-forwarded", _PV, _CLOSE_SRC, _CLOSE_SRC.replace("self, **kwargs: Any", "self, timeout: Optional[float] = None, terminate: bool = False").replace("(**kwargs)", "(terminate=terminate)"), "fire", "C13.6"),
    ("close-timeout-forwarded-as-constant", _PV, _CLOSE_SRC, _CLOSE_SRC.replace("self, **kwargs: Any", "self, timeout: Optional[float] = None, terminate: bool = False").replace("(**kwargs)", "(timeout=None, terminate=terminate)"), "fire", "C13.6"),
    ("close-options-swapped", _PV, _CLOSE_SRC, _CLOSE_SRC.replace("self, **kwargs: Any", "self, timeout: Optional[float] = None, terminate: bool = False").replace("(**kwargs)", "(terminate, timeout)"), "fire", "C13.6"),
    ("close-kwargs-not-passed-on", _PV, "        self.close_extras(**kwargs)", "        self.close_extras()", "fire", "C13.6"),
    ("close-explicit-options-forwarded-ok", _PV, _CLOSE_SRC, _CLOSE_SRC.replace("self, **kwargs: Any", "self, timeout: Optional[float] = None, terminate: bool = False").replace("(**kwargs)", "(timeout=timeout, terminate=terminate)"), "silent", None),
    ("close-explicit-options-positional-ok", _PV, _CLOSE_SRC, _CLOSE_SRC.replace("self, **kwargs: Any", "self, timeout: Optional[float] = None, terminate: bool = False").replace("(**kwargs)", "(timeout, terminate)"), "silent", None),
    ("close-one-option-named-rest-in-kwargs-ok", _PV, _CLOSE_SRC, _CLOSE_SRC.replace("self, **kwargs: Any", "self, terminate: bool = False, **kwargs: Any").replace("(**kwargs)", "(terminate=terminate, **kwargs)"), "silent", None),
    ("close-kwargs-through-a-local-ok", _PV, "        self.close_extras(**kwargs)", "        options = dict(kwargs)\n        self.close_extras(**options)", "silent", None),
    ("close-options-collected-in-a-dict-ok", _PV, _CLOSE_SRC, _CLOSE_SRC.replace("self, **kwargs: Any", "self, timeout: Optional[float] = None, terminate: bool = False").replace("        self.close_extras(**kwargs)", "        options = {\"timeout\": timeout, \"terminate\": terminate}\n        self.close_extras(**options)"), "silent", None),
    # ---- C13.7: terminating / joining a worker does not depend on its pipe
    ("close-join-only-workers-with-a-pipe", _AV, _REAP_SRC, "        for pipe, process in zip(self.parent_pipes, self.processes):\n            if pipe is not None:\n                pipe.close()\n                process.join()", "fire", "C13.7"),
    ("close-join-skipped-by-continue", _AV, _REAP_SRC, "        for pipe, process in zip(self.parent_pipes, self.processes):\n            if pipe is None:\n                continue\n            pipe.close()\n            process.join()", "fire", "C13.7"),
    ("close-join-indexed-pipe-test", _AV, "        for process in self.processes:\n            process.join()", "        for i, process in enumerate(self.processes):\n            if self.parent_pipes[i] is not None:\n                process.join()", "fire", "C13.7"),
    ("close-terminate-only-workers-with-a-pipe", _AV, "            for process in self.processes:\n                if process.is_alive():\n                    process.terminate()",
     "            for pipe, process in zip(self.parent_pipes, self.processes):\n                if pipe is not None and process.is_alive():\n                    process.terminate()", "fire", "C13.7"),
    ("close-merged-loop-join-outside-the-pipe-test-ok", _AV, _REAP_SRC, "        for pipe, process in zip(self.parent_pipes, self.processes):\n            if pipe is not None:\n                pipe.close()\n            process.join()", "silent", None),
    ("close-terminate-liveness-in-a-local-ok", _AV, "            for process in self.processes:\n                if process.is_alive():\n                    process.terminate()",
     "            for worker in self.processes:\n                running = worker.is_alive()\n                if not running:\n                    continue\n                worker.terminate()", "silent", None),
    # ---- the benign refactoring of round 3, one piece at a time
    ("poll-missing-and-closed-in-one-test-ok", _AV, "            delta = max(end_time - time.perf_counter(), 0)\n\n            if pipe is None:\n                return False\n            if pipe.closed or (not pipe.poll(delta)):\n                return False\n",
     "            if pipe is None or pipe.closed:\n                return False\n            remaining = max(end_time - time.perf_counter(), 0)\n            if not pipe.poll(remaining):\n                return False\n", "silent", None),
    ("poll-closed-tested-before-missing", _AV, "            if pipe is None:\n                return False\n            if pipe.closed or (not pipe.poll(delta)):\n                return False\n",
     "            if pipe.closed or pipe is None:\n                return False\n            if not pipe.poll(delta):\n                return False\n", "fire", "C13.4"),
    ("poll-closed-pipe-is-polled", _AV, "            if pipe.closed or (not pipe.poll(delta)):\n                return False\n", "            if not pipe.poll(delta):\n                return False\n", "fire", "C13.4"),
    ("poll-without-time-limit", _AV, "            if pipe.closed or (not pipe.poll(delta)):\n                return False\n", "            if pipe.closed or (not pipe.poll(None)):\n                return False\n", "fire", "C13.4"),
    ("close-wait-from-a-table-ok", _AV, "                function = getattr(self, f\"{self._state.value}_wait\")\n                function(timeout)",
     "                pending_wait = {\n                    AsyncState.WAITING_RESET: self.reset_wait,\n                    AsyncState.WAITING_STEP: self.step_wait,\n                    AsyncState.WAITING_CALL: self.call_wait,\n                }[self._state]\n                pending_wait(timeout)", "silent", None),
    ("close-wait-from-a-table-without-timeout", _AV, "                function = getattr(self, f\"{self._state.value}_wait\")\n                function(timeout)",
     "                pending_wait = {\n                    AsyncState.WAITING_RESET: self.reset_wait,\n                    AsyncState.WAITING_STEP: self.step_wait,\n                    AsyncState.WAITING_CALL: self.call_wait,\n                }[self._state]\n                pending_wait()", "fire", "C13.5"),
    ("close-wait-timeout-through-a-local-ok", _AV, "                function(timeout)", "                limit = timeout\n                function(timeout=limit)", "silent", None),
    ("raise-hoisted-out-of-the-drain-loop-ok", _AV, "        for i in range(num_errors):\n            index, exctype, value, trace = self.error_queue.get()\n", "        last = None\n        for i in range(num_errors):\n            index, kind, payload, trace = self.error_queue.get()\n            last = (kind, payload)\n            exctype, value = last\n", "silent", None),
    ("raise-value-and-trace-exchanged", _AV, "                raise exctype(value)", "                raise exctype(trace)", "fire", "C13.3"),
    # ---- the benign refactorings of round 4, one piece at a time
    # the timeout block with the poll answer tested positively / held in a local: the "failed" side is the else branch or the fall-through
    ("wait-timeout-on-the-else-branch-ok", _AV, _TIMEOUT_SRC, "        if self._poll_pipe_envs(timeout):\n            pass\n        else:\n            self._state = AsyncState.DEFAULT\n            raise mp.TimeoutError(\n                f\"The call to `call_wait`", "silent", None),
    ("wait-timeout-answer-in-a-local-ok", _AV, _TIMEOUT_SRC, "        answered = self._poll_pipe_envs(timeout)\n        if not answered:\n            self._state = AsyncState.DEFAULT\n            raise mp.TimeoutError(\n                f\"The call to `call_wait`", "silent", None),
    ("wait-timeout-raised-when-the-poll-succeeded", _AV, _TIMEOUT_SRC, "        if self._poll_pipe_envs(timeout):\n            self._state = AsyncState.DEFAULT\n            raise mp.TimeoutError(\n                f\"The call to `call_wait`", "fire", "C13.4"),
    ("wait-timeout-else-branch-keeps-state", _AV, _TIMEOUT_SRC, "        if self._poll_pipe_envs(timeout):\n            pass\n        else:\n            raise mp.TimeoutError(\n                f\"The call to `call_wait`", "fire", "C13.4"),
    ("wait-timeout-state-reset-on-the-wrong-branch", _AV, _TIMEOUT_SRC, "        if self._poll_pipe_envs(timeout):\n            self._state = AsyncState.DEFAULT\n        else:\n            raise mp.TimeoutError(\n                f\"The call to `call_wait`", "fire", "C13.4"),
    ("wait-timeout-builtin-exception", _AV, _TIMEOUT_SRC, "        if not self._poll_pipe_envs(timeout):\n            self._state = AsyncState.DEFAULT\n            raise TimeoutError(\n                f\"The call to `call_wait`", "fire", "C13.4"),
    # the open pipes of the graceful shutdown computed once
    ("close-graceful-open-pipes-listed-once-ok", _AV, _GRACEFUL_SRC, "            pipes = [p for p in self.parent_pipes if p is not None and not p.closed]\n            for pipe in pipes:\n                pipe.send((\"close\", None))\n\n            for pipe in pipes:\n                pipe.recv()\n", "silent", None),
    ("close-graceful-open-test-split-ok", _AV, _GRACEFUL_SRC, "            for pipe in self.parent_pipes:\n                if pipe is None or pipe.closed:\n                    continue\n                pipe.send((\"close\", None))\n\n            for pipe in (p for p in self.parent_pipes if p is not None):\n                if not pipe.closed:\n                    pipe.recv()\n", "silent", None),
    ("close-graceful-listed-pipes-may-be-closed", _AV, _GRACEFUL_SRC, "            pipes = [p for p in self.parent_pipes if p is not None]\n            for pipe in pipes:\n                pipe.send((\"close\", None))\n\n            for pipe in pipes:\n                pipe.recv()\n", "fire", "C13.5"),
    ("close-graceful-acknowledgement-from-missing-pipes", _AV, _GRACEFUL_SRC, "            pipes = [p for p in self.parent_pipes if p is not None and not p.closed]\n            for pipe in pipes:\n                pipe.send((\"close\", None))\n\n            for pipe in self.parent_pipes:\n                pipe.recv()\n", "fire", "C13.5"),
    # the worker's report: exc_info sliced / indexed instead of unpacked into three locals, or taken from the exception the handler binds
    ("worker-exc-info-sliced-ok", _AV, _REPORT_SRC, "        error_type, error_value = sys.exc_info()[:2]\n        error_queue.put((index, error_type, error_value, traceback.format_exc()))", "silent", None),
    ("worker-exc-info-indexed-ok", _AV, _REPORT_SRC, "        info = sys.exc_info()\n        error_queue.put((index, info[0], info[1], traceback.format_exc()))", "silent", None),
    ("worker-exception-bound-by-the-handler-ok", _AV, "    except (KeyboardInterrupt, Exception):\n" + _REPORT_SRC, "    except (KeyboardInterrupt, Exception) as err:\n        error_queue.put((index, type(err), err, traceback.format_exc()))", "silent", None),
    ("worker-exc-info-slice-shifted", _AV, _REPORT_SRC, "        error_type, error_value = sys.exc_info()[1:]\n        error_queue.put((index, error_type, error_value, traceback.format_exc()))", "fire", "C13.3"),
    ("worker-exc-info-type-and-value-exchanged", _AV, _REPORT_SRC, "        error_value, error_type = sys.exc_info()[:2]\n        error_queue.put((index, error_type, error_value, traceback.format_exc()))", "fire", "C13.3"),
    ("worker-reports-the-type-of-the-type", _AV, _REPORT_SRC, "        error_type, error_value = sys.exc_info()[:2]\n        error_queue.put((index, type(error_type), error_value, traceback.format_exc()))", "fire", "C13.3"),
]


def _success_flags(ck: Check, repo: Repo, cls: Cls) -> None:
    """Every method that receives worker answers hands their success flags to _raise_if_errors."""
    from ..terms import TermBuilder, mentions
    n_sites = 0
    for name, m in cls.methods.items():
        if name in ("close_extras", "_raise_if_errors"):
            continue
        pipes = _elem_vars(m.node, "parent_pipes")
        recvs = [c for c in calls_in(m.node, nested=True) if last_attr(c) == "recv" and isinstance(c.func, ast.Attribute) and _is_pipe(c.func.value, pipes)]
        if not recvs:
            continue
        n_sites += 1
        cfg = CFG(m.node)
        tb = TermBuilder(repo, m, cfg=cfg, depth=0)
        checks = [c for c in calls_in(m.node) if call_name(c) == "self._raise_if_errors"]
        ok = False
        detail = "no call of self._raise_if_errors(...)"
        for c in checks:
            n = cfg.node_of(c)
            t = tb.term(c.args[0], n) if c.args and n is not None else None
            from_recv = t is not None and mentions(tb, t, lambda a: (a.kind == "call" and a.name == "recv") or (a.kind == "comp" and "recv" in a.key))
            on_all = n is not None and cfg.postdominates(n, cfg.entry) or (n is not None and not [g for g in cfg.guards_at(n) if "_state" not in ast.unparse(g[0]) and "poll" not in ast.unparse(g[0])])
            ok = from_recv and on_all
            detail = f"argument derives from the received answers: {from_recv}; on every path after receiving: {on_all}"
        ck.ob("C13.3", m, recvs[0], ok, f"{name}: the success flags of the received answers are checked by _raise_if_errors (a failed worker's "
                                         "exception reaches the caller and its pipe is retired)", detail=detail)
        # every worker's answer is received: the receive loop is not left early (an unread answer desynchronises the error count and the next call)
        for lp in [x for x in ast.walk(m.node) if isinstance(x, ast.For) and any(r in list(ast.walk(x)) for r in recvs)]:
            exits = [x for x in ast.walk(lp) if isinstance(x, (ast.Break, ast.Return))]
            ck.ob("C13.3", m, exits[0] if exits else lp, not exits, f"{name}: the loop that receives the workers' answers reads every pipe (no break / return inside)",
                  detail=f"`{type(exits[0]).__name__.lower()}` at line {exits[0].lineno}: the answers of the remaining workers stay in their pipes, fewer flags than workers reach "
                         "_raise_if_errors (it then waits for errors that were never queued) and the next call reads stale answers" if exits else "",
                  construct=f"{name}: receive loop reads every pipe")
    ck.floor("C13.3", n_sites, 4, "methods receiving worker answers (reset_wait, step_wait, call_wait, set_attr)")
