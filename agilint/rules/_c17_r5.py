"""C17.8 – C17.9 (helper module of c17), added after the fifth round of seeded changes.

* C17.8  the buffer that receives the per-step stores `A[t] = ...` of the recursion is floating point whatever the dtype of the rewards: a store into an
         integer tensor truncates every estimate (while the carried A_(t+1) keeps its fraction), so the advantages and returns are no longer the values
         of the recursion for integer-valued rewards.  Decided from the allocation that reaches the backward loop: an explicit floating dtype, a cast
         (`.float()` ...), a default-dtype allocator (`torch.zeros(shape)`), or `zeros_like` / `new_zeros` of a tensor that is itself floating point on
         every path that reaches the allocation.
* C17.9  the recursion reads the mutable hyper-parameters at learn time: every `self.<attr>` read inside the backward loop is, in the constructor, a plain
         copy of one constructor parameter (the hyper-parameter itself, which mutation re-assigns) — an attribute computed in `__init__` from gamma /
         gae_lambda goes stale when a hyper-parameter mutation changes them.
"""
from __future__ import annotations

import ast
from typing import List, Optional, Set, Tuple

from ..cfg import CFG, Node
from ..core import Fn, Repo, dotted, get_kw, short
from ..report import Check

FLOAT_DTYPES = {"float", "float16", "float32", "float64", "double", "half", "bfloat16", "FloatTensor", "DoubleTensor", "HalfTensor"}
CASTS = {"float", "double", "half", "bfloat16"}
DEFAULT_FLOAT_ALLOCATORS = {"zeros", "ones", "empty", "rand", "randn"}
LIKE = {"zeros_like", "ones_like", "empty_like", "full_like", "rand_like", "randn_like", "clone"}
NEW = {"new_zeros", "new_ones", "new_empty", "new_full", "new_tensor"}
KEEPS_DTYPE = {"reshape", "view", "squeeze", "unsqueeze", "cpu", "cuda", "clone", "detach", "contiguous", "transpose", "permute", "flatten", "swapaxes", "expand",
               "repeat", "requires_grad_", "view_as", "reshape_as", "expand_as"}


def _dtype_is_float(e: Optional[ast.AST]) -> Optional[bool]:
    """True / False when `e` names a dtype, None when it is not a dtype expression"""
    if e is None:
        return None
    d = dotted(e)
    if not d:
        return None
    last = d.split(".")[-1]
    if last in FLOAT_DTYPES:
        return True
    if last in {"int", "long", "int8", "int16", "int32", "int64", "uint8", "bool", "short", "LongTensor", "IntTensor", "BoolTensor"}:
        return False
    return None


def is_float(cfg: CFG, e: ast.AST, at: Node, depth: int = 0, seen: Optional[Set[Tuple[str, int]]] = None) -> bool:
    """is the tensor `e` (evaluated at `at`) floating point on every path, independent of the dtypes of the function's inputs?"""
    seen = seen if seen is not None else set()
    if depth > 12:
        return False
    if isinstance(e, ast.Constant):
        return isinstance(e.value, float)
    if isinstance(e, ast.Name):
        defs = cfg.defs_reaching(at, e.id)
        if not defs:
            return False
        for d in defs:
            if (e.id, d.id) in seen:
                continue  # a cycle adds no new source
            seen.add((e.id, d.id))
            v = cfg.value_of_def(d, e.id)
            if v is None or not is_float(cfg, v, d, depth + 1, seen):
                return False
        return True
    if isinstance(e, ast.IfExp):
        return is_float(cfg, e.body, at, depth + 1, seen) and is_float(cfg, e.orelse, at, depth + 1, seen)
    if isinstance(e, ast.Subscript):
        return not hasattr(e, "_unpack_len") and is_float(cfg, e.value, at, depth + 1, seen)
    if isinstance(e, ast.UnaryOp):
        return is_float(cfg, e.operand, at, depth + 1, seen)
    if isinstance(e, ast.BinOp):
        # type promotion: a floating operand (or true division) makes the result floating
        return isinstance(e.op, ast.Div) or is_float(cfg, e.left, at, depth + 1, seen) or is_float(cfg, e.right, at, depth + 1, seen)
    if isinstance(e, ast.Call):
        kw = _dtype_is_float(get_kw(e, "dtype"))
        if kw is not None:
            return kw
        f = e.func
        name = f.attr if isinstance(f, ast.Attribute) else (f.id if isinstance(f, ast.Name) else "")
        recv = f.value if isinstance(f, ast.Attribute) else None
        is_lib = recv is not None and dotted(recv) in ("torch", "np", "numpy")
        if not is_lib and recv is not None:
            if name in CASTS and not e.args:
                return True
            if name in ("to", "type", "astype"):
                for a in e.args:
                    k = _dtype_is_float(a)
                    if k is not None:
                        return k
                return is_float(cfg, recv, at, depth + 1, seen)  # .to(device)
            if name in NEW or name in KEEPS_DTYPE:
                return is_float(cfg, recv, at, depth + 1, seen)
            return False
        if is_lib:
            for a in e.args[1:]:
                k = _dtype_is_float(a)
                if k is not None:
                    return k
            if name in DEFAULT_FLOAT_ALLOCATORS:
                return True
            if name in LIKE or name in KEEPS_DTYPE or name in ("as_tensor", "tensor", "from_numpy", "asarray", "array"):
                return bool(e.args) and is_float(cfg, e.args[0], at, depth + 1, seen)
        return False
    return False


def _float_buffer(ck: Check, repo: Repo, learners) -> None:
    from ._c17_r3b import _in, gae_model
    ck.rule("C17.8", "the advantages are the values of the recursion (A_t = delta_t + gamma lambda (1 - d_{t+1}) A_{t+1}) for every reward sequence, integer-valued "
                     "ones included: the buffer that receives the per-step stores is floating point independent of the reward dtype — allocated with a floating "
                     "dtype / cast, or like a tensor that is floating point on every path reaching the allocation (an integer buffer truncates each estimate)")
    n = 0
    for modname, q, depth in learners:
        fn = repo.fn(modname, q)
        m = gae_model(repo, fn, depth)
        cfg, R = m.cfg, m.R
        allocs = [d for d in cfg.defs_reaching(R.loop, R.buf) if not _in(R.loop, d) and d is not R.loop]
        ck.floor("C17.8", len(allocs), 1, "allocation of the buffer the recursion stores into, reaching the backward loop", fn=fn)
        for d in allocs:
            n += 1
            v = cfg.value_of_def(d, R.buf)
            ok = v is not None and is_float(cfg, v, d)
            ck.ob("C17.8", fn, d.ast if d.ast is not None else fn.node, ok, f"{fn.qualname}: the buffer `{R.buf}` the recursion stores into is floating point whatever the reward dtype",
                  detail="" if ok else f"`{short(v, 80) if v is not None else '?'}` takes its dtype from the rollout: with integer rewards every `{short(R.target, 30)} = ...` "
                                       "truncates the estimate while the carried A_(t+1) keeps its fraction",
                  construct=f"{fn.qualname}: dtype of the advantages buffer")
    ck.floor("C17.8", n, 2, "advantage buffers of the on-policy learners")


def _plain_copies(init: Fn) -> Tuple[dict, Set[str]]:
    """self.<attr> assignments of the constructor: attr -> list of rhs; and the constructor's parameters"""
    out: dict = {}
    for x in ast.walk(init.node):
        if isinstance(x, ast.Assign):
            for t in x.targets:
                if isinstance(t, ast.Attribute) and isinstance(t.value, ast.Name) and t.value.id == "self":
                    out.setdefault(t.attr, []).append(x.value)
        elif isinstance(x, ast.AnnAssign) and x.value is not None and isinstance(x.target, ast.Attribute) and isinstance(x.target.value, ast.Name) \
                and x.target.value.id == "self":
            out.setdefault(x.target.attr, []).append(x.value)
    return out, set(init.params)


def _live_hyperparameters(ck: Check, repo: Repo, learners) -> None:
    from ._c17_r3b import _in, gae_model
    ck.rule("C17.9", "`every gamma and lambda`, also after a hyper-parameter mutation: the recursion reads the hyper-parameters themselves at learn time — a `self.<attr>` "
                     "read inside the backward loop that the constructor assigns is the hyper-parameter itself, never a value computed there from "
                     "another of gamma / gae_lambda (such a cache goes stale when gamma or gae_lambda is mutated)")
    HP = {"gamma", "gae_lambda"}
    n = 0
    for modname, q, depth in learners:
        fn = repo.fn(modname, q)
        if fn.cls is None or "__init__" not in fn.cls.methods:
            continue
        init = fn.cls.methods["__init__"]
        assigned, params = _plain_copies(init)
        m = gae_model(repo, fn, depth)
        R = m.R
        reads = {}
        # expressions evaluated at learn time that feed the loop: the loop itself and the values of the locals it reads that are bound before it
        exprs, seen_defs, names = [R.loop.ast], set(), [(x.id, 0) for x in ast.walk(R.loop.ast) if isinstance(x, ast.Name) and isinstance(x.ctx, ast.Load)]
        while names:
            nm, lvl = names.pop()
            for d in m.cfg.defs_reaching(R.loop, nm):
                v = m.cfg.value_of_def(d, nm)
                if (nm, d.id) in seen_defs or v is None or _in(R.loop, d) or lvl > 3:
                    continue
                seen_defs.add((nm, d.id))
                exprs.append(v)
                names += [(x.id, lvl + 1) for x in ast.walk(v) if isinstance(x, ast.Name) and isinstance(x.ctx, ast.Load)]
        for e in exprs:
            for x in ast.walk(e):
                if isinstance(x, ast.Attribute) and isinstance(x.ctx, ast.Load) and isinstance(x.value, ast.Name) and x.value.id == "self" and x.attr in assigned:
                    reads.setdefault(x.attr, x)
        for attr in sorted(reads):
            n += 1
            # a value computed from a hyper-parameter OTHER than the attribute's own (self.gae_lambda = float(gae_lambda) is still the hyper-parameter itself)
            derived = [v for v in assigned[attr]
                       if any(((isinstance(y, ast.Name) and y.id in HP and y.id in params) or (isinstance(y, ast.Attribute) and y.attr in HP))
                              and (y.id if isinstance(y, ast.Name) else y.attr) != attr for y in ast.walk(v))]
            ck.ob("C17.9", fn, reads[attr], not derived, f"{fn.qualname}: `self.{attr}` read by the recursion is a hyper-parameter itself, not a value cached from gamma / gae_lambda in __init__",
                  detail="" if not derived else f"__init__ computes `self.{attr} = {short(derived[0], 60)}` once: after a mutation of gamma / gae_lambda the recursion keeps the old product",
                  construct=f"{fn.qualname}: self.{attr} in the GAE recursion")
    ck.floor("C17.9", n, 2, "self attributes read inside the backward loops")


def run_r5(ck: Check, repo: Repo) -> None:
    from .c17 import LEARNERS
    _float_buffer(ck, repo, LEARNERS)
    _live_hyperparameters(ck, repo, LEARNERS)
