"""C04.12 (helper module of c04), added after the third round of seeded changes.

An existing module that is re-created by calling its class (`self.encoder_cls(**d)`, `module_cls(**d)`, `self.__class__(**d)`, `type(x)(**d)`)
must be given its *complete* constructor description — `init_dict` / `get_init_dict()`.  `net_config` is by construction the description
minus the entries the enclosing network supplies itself (`name`, `device`, `num_inputs`, ...): a custom encoder rebuilt from it falls back to
the class defaults for those, and with another `name` none of the old parameter keys matches, so `preserve_parameters` carries nothing over.
"""
from __future__ import annotations

import ast
from typing import List, Optional, Set

from ..cfg import CFG, Node
from ..core import Fn, Repo, call_name, calls_in, dotted, last_attr, short
from ..report import Check

SITES = [("agilerl.networks.base", None), ("agilerl.modules.base", None), ("agilerl.hpo.mutation", None)]


def _class_valued(e: ast.AST) -> bool:
    """an expression that denotes a class: type(x), x.__class__, an attribute `<...>_cls`, a mapping entry / .get() under a key ending in `_cls`"""
    if isinstance(e, ast.Call) and call_name(e) == "type" and len(e.args) == 1:
        return True
    if isinstance(e, ast.Attribute) and (e.attr == "__class__" or e.attr.endswith("_cls")):
        return True
    if isinstance(e, ast.Subscript):
        k = e.slice
        if isinstance(k, ast.Constant) and isinstance(k.value, str) and k.value.endswith("_cls"):
            return True
        if isinstance(k, ast.JoinedStr) and k.values and isinstance(k.values[-1], ast.Constant) and str(k.values[-1].value).endswith("_cls"):
            return True
    if isinstance(e, ast.Call) and isinstance(e.func, ast.Attribute) and e.func.attr == "get" and e.args:
        return _class_valued(ast.Subscript(value=e.func.value, slice=e.args[0], ctx=ast.Load()))
    if isinstance(e, ast.IfExp):
        return _class_valued(e.body) and _class_valued(e.orelse)
    return False


def _is_class_call(c: ast.Call, cfg: Optional[CFG] = None) -> bool:
    """the callee is a class held in a variable / attribute (not a class named in the source): by what the callee IS, never by how a local is spelled"""
    f = c.func
    if _class_valued(f):
        return True
    if isinstance(f, ast.Name) and cfg is not None:
        at = cfg.node_of(c)
        if at is None:
            return False
        defs = cfg.defs_reaching(at, f.id)
        vals = [cfg.value_of_def(d, f.id) for d in defs if d.kind != "entry"]
        if vals and all(v is not None and _class_valued(v) for v in vals) and not any(d.kind == "entry" for d in defs):
            return True
        # the loop variable of `for cls_, d in zip(<classes>, <descriptions>)` where <classes> is class-valued
        for d in defs:
            if d.kind == "for" and isinstance(d.ast.iter, ast.Call) and call_name(d.ast.iter) == "zip" and isinstance(d.ast.target, ast.Tuple):
                for tgt, src in zip(d.ast.target.elts, d.ast.iter.args):
                    if isinstance(tgt, ast.Name) and tgt.id == f.id and isinstance(src, ast.Name):
                        sv = [cfg.value_of_def(x, src.id) for x in cfg.defs_reaching(d, src.id)]
                        if sv and all(v is not None and _class_valued(v) for v in sv):
                            return True
    return False


def _sources(cfg: CFG, at: Node, e: ast.AST, depth: int = 0, seen: Optional[Set[int]] = None) -> List[ast.AST]:
    """Expressions a splatted mapping comes from: through local definitions, copy.deepcopy / dict(...) / .copy() and conditional expressions."""
    seen = seen if seen is not None else set()
    if id(e) in seen or depth > 5:
        return [e]
    seen.add(id(e))
    if isinstance(e, ast.IfExp):
        return _sources(cfg, at, e.body, depth + 1, seen) + _sources(cfg, at, e.orelse, depth + 1, seen)
    if isinstance(e, ast.Call) and (call_name(e) in ("copy.deepcopy", "deepcopy", "copy.copy", "dict") and e.args):
        return _sources(cfg, at, e.args[0], depth + 1, seen)
    if isinstance(e, ast.Call) and isinstance(e.func, ast.Attribute) and e.func.attr == "copy" and not e.args:
        return _sources(cfg, at, e.func.value, depth + 1, seen)
    if isinstance(e, ast.Name):
        out: List[ast.AST] = []
        for d in cfg.defs_reaching(at, e.id):
            v = cfg.value_of_def(d, e.id)
            if v is not None:
                out += _sources(cfg, d, v, depth + 1, seen)
        return out or [e]
    return [e]


def run_r3(ck: Check, repo: Repo) -> None:
    ck.rule("C04.12", "a module that is re-created by calling its class is given its complete constructor description (init_dict / get_init_dict()), never the "
                      "reduced net_config: the entries net_config leaves out (name, device, ...) would fall back to the class defaults, and with another name no "
                      "parameter key of the old module matches the new one")
    n = 0
    for modname, _ in SITES:
        mod = repo.mod(modname)
        fns: List[Fn] = list(mod.functions.values()) + [m for c in mod.classes.values() for m in c.methods.values()]
        for fn in fns:
            cfg = None
            for c in calls_in(fn.node):
                splats = [k.value for k in c.keywords if k.arg is None]
                if not splats:
                    continue
                cfg = cfg or CFG(fn.node)
                if not _is_class_call(c, cfg):
                    continue
                at = cfg.node_of(c)
                if at is None:
                    continue
                n += 1
                srcs = [s for sp in splats for s in _sources(cfg, at, sp)]
                reduced = [s for s in srcs if any(isinstance(x, ast.Attribute) and x.attr == "net_config" for x in ast.walk(s))]
                ck.ob("C04.12", fn, c, not reduced, f"{fn.qualname}: `{short(c, 50)}` re-creates the module from a complete constructor description",
                      detail=f"the keyword mapping comes from `{short(reduced[0], 60)}`: net_config omits the entries the enclosing network passes itself (name, device, ...)"
                      if reduced else "", construct=f"{fn.qualname}: description given to `{short(c.func, 40)}(**...)`")
    ck.floor("C04.12", n, 4, "class calls with a splatted constructor description")
