"""C07.9 — checkpointed tensors carry no autograd history (helper module of c07).

A plain attribute that is a tensor computed *from the parameters of a registered network* inside the autograd graph
(e.g. a snapshot `torch.cat([w.flatten() for w in net.parameters()])`) loses that history when it is pickled: the
restored agent holds a constant where the original holds a graph node, so the same loss back-propagates differently
and continued learning diverges.  Such snapshots must be detached (or taken under torch.no_grad()).
"""
from __future__ import annotations

import ast
from typing import List, Optional

from ..cfg import CFG, Node
from ..core import Fn, Repo, call_name, dotted, last_attr, short, walk_no_nested
from ..registry import ALGOS, extract
from ..report import Check

_INT_VALUED = {"numel", "size", "dim", "nelement", "item"}
_DETACHERS = {"detach", "detach_", "clone_detached", "numpy", "tolist", "item"}


def _is_parameter_collection(cfg: Optional[CFG], at: Optional[Node], it: ast.AST, depth: int = 0) -> bool:
    """Is the iterable <something>.parameters() / .named_parameters(), or a local collection of such parameters: a temporary bound to a
    list() / tuple() copy of one, or to a comprehension over one whose elements are tensors (`[w for w in net.parameters() if w.requires_grad]`)?
    Locals are followed through their reaching definitions (every definition that reaches must qualify)."""
    if isinstance(it, ast.Call) and last_attr(it) in ("parameters", "named_parameters"):
        return True
    if depth > 5:
        return False
    if isinstance(it, ast.Call) and isinstance(it.func, ast.Name) and it.func.id in ("list", "tuple", "sorted", "reversed") and len(it.args) == 1:
        return _is_parameter_collection(cfg, at, it.args[0], depth + 1)
    if isinstance(it, (ast.ListComp, ast.GeneratorExp, ast.SetComp)):
        return _built_from_parameters(it, cfg, at, depth + 1)
    if isinstance(it, ast.Name) and cfg is not None and at is not None:
        defs = cfg.defs_reaching(at, it.id)
        vals = [(d, cfg.value_of_def(d, it.id)) for d in defs]
        return bool(vals) and all(v is not None and _is_parameter_collection(cfg, d, v, depth + 1) for d, v in vals)
    return False


def _built_from_parameters(v: ast.AST, cfg: Optional[CFG] = None, at: Optional[Node] = None, depth: int = 0) -> bool:
    """Does the value contain an iteration over <something>.parameters() — directly or through a local collection of those parameters — whose
    element expression is tensor valued?"""
    for x in ast.walk(v):
        if isinstance(x, (ast.ListComp, ast.GeneratorExp, ast.SetComp)):
            for g in x.generators:
                if _is_parameter_collection(cfg, at, g.iter, depth):
                    elt = x.elt
                    if isinstance(elt, ast.Call) and last_attr(elt) in _INT_VALUED:
                        continue
                    return True
    return False


def _detached(v: ast.AST) -> bool:
    # outermost call chain ends in .detach() / torch.no_grad context handled by the caller / .data
    cur = v
    while isinstance(cur, ast.Call) and isinstance(cur.func, ast.Attribute):
        if cur.func.attr in _DETACHERS:
            return True
        cur = cur.func.value
    if isinstance(cur, ast.Attribute) and cur.attr == "data":
        return True
    # every element detached: [w.detach().flatten() for w in ...] / w.data
    for x in ast.walk(v):
        if isinstance(x, (ast.ListComp, ast.GeneratorExp)):
            if any(isinstance(y, ast.Call) and last_attr(y) in _DETACHERS for y in ast.walk(x.elt)) or any(isinstance(y, ast.Attribute) and y.attr == "data" for y in ast.walk(x.elt)):
                return True
    return False


def _under_no_grad(fn: Fn, node: ast.AST) -> bool:
    for w in ast.walk(fn.node):
        if isinstance(w, ast.With) and any(isinstance(i.context_expr, ast.Call) and call_name(i.context_expr) in ("torch.no_grad", "torch.inference_mode") for i in w.items):
            if any(x is node for x in ast.walk(w)):
                return True
    return any(isinstance(d, ast.Call) and call_name(d) in ("torch.no_grad", "torch.inference_mode") or dotted(d) in ("torch.no_grad", "torch.inference_mode") for d in fn.node.decorator_list)


def autograd_free_snapshots(ck: Check, repo: Repo, filtered) -> None:
    n = 0
    for modname, cname in ALGOS:
        reg = extract(repo, modname, cname)
        for m in reg.cls.methods.values():
            cfg: Optional[CFG] = None
            for a in walk_no_nested(m.node):
                if not (isinstance(a, ast.Assign) and len(a.targets) == 1 and isinstance(a.targets[0], ast.Attribute) and dotted(a.targets[0].value) == "self"):
                    continue
                attr = a.targets[0].attr
                if filtered(attr):
                    continue
                if cfg is None:
                    cfg = CFG(m.node)
                if not _built_from_parameters(a.value, cfg, cfg.node_of(a)):
                    continue
                n += 1
                ok = _detached(a.value) or _under_no_grad(m, a)
                ck.ob("C07.9", m, a, ok, f"{cname}.{attr}: a checkpointed tensor computed from network parameters is taken outside the autograd graph",
                      detail=f"`{short(a, 90)}` keeps the graph to the live parameters; pickling drops it, so the restored agent holds a constant where the original "
                             "holds a graph node (the bandits' regulariser ||theta - theta_0|| has zero gradient before the save and a non-zero one after loading): "
                             "continued learning on identical batches diverges",
                      construct=f"{cname}.{m.name}: snapshot self.{attr}")
    ck.floor("C07.9", n, 2, "public tensor attributes computed from network parameters")
