"""C08 — value-based learning uses the Bellman target and really tracks its target net.

Decided: shape and terminal masking of the target as a polynomial normal form over origin-tagged
atoms; semi-gradient; soft-update formula, pairing with the registry, non-vacuity (typestate),
and that it runs on every learn path.  Not decided: numeric value of loss / weights.
"""
from __future__ import annotations

import ast
from typing import Dict, Iterable, List, Optional, Set, Tuple

from ..cfg import CFG
from ..core import get_kw, AnalysisError, Cls, Fn, Repo, call_name, calls_in, dotted, last_attr, short, walk_no_nested
from ..registry import AlgoRegistry, extract
from ..report import Check
from ..terms import Atom, Poly, TermBuilder, for_binding

VALUE_BASED = [
    ("agilerl.algorithms.dqn", "DQN"),
    ("agilerl.algorithms.cqn", "CQN"),
    ("agilerl.algorithms.dqn_rainbow", "RainbowDQN"),
    ("agilerl.algorithms.ddpg", "DDPG"),
    ("agilerl.algorithms.td3", "TD3"),
    ("agilerl.algorithms.maddpg", "MADDPG"),
    ("agilerl.algorithms.matd3", "MATD3"),
]


# ------------------------------------------------------------------------------------------------ helpers
def net_attr_of_callee(tb: TermBuilder, a: Atom, reg: AlgoRegistry) -> Optional[str]:
    """If call atom `a` invokes a registered network, return that network attribute name."""
    if a.kind != "call" or not a.sub:
        return None
    known = set(reg.eval_attrs()) | set(reg.shared_attrs())
    head = a.sub[0]
    if head.key() == "self" and a.name in known:
        return a.name
    if len(head.t) == 1 and head.is_const() is False:
        (m, c), = head.t.items()
        if len(m) == 1 and m[0][1] == 1 and c == 1:
            h = tb.atoms.get(m[0][0])
            while h is not None:
                if h.kind == "attr" and h.name.startswith("self.") and h.name[5:] in known:
                    # only a direct call (not a method of the network such as .parameters())
                    if a.name in ("<dyn>",) or not _is_method_call(a):
                        return h.name[5:]
                    return None
                if h.kind == "idx" and h.sub and len(h.sub[0].t) == 1:
                    (m2, _), = h.sub[0].t.items()
                    if len(m2) == 1:
                        h = tb.atoms.get(m2[0][0])
                        continue
                break
    return None


def _is_method_call(a: Atom) -> bool:
    n = a.node
    return isinstance(n, ast.Call) and isinstance(n.func, ast.Attribute) and not (
        isinstance(n.func.value, ast.Name) and n.func.value.id == "self"
    )


def walk_atoms(tb: TermBuilder, p: Poly, under_ng: bool = False, path: Tuple[str, ...] = (), _seen: Optional[Set[str]] = None
               ) -> Iterable[Tuple[Atom, bool, Tuple[str, ...]]]:
    _seen = _seen if _seen is not None else set()
    for k in sorted(p.atoms()):
        a = tb.atoms.get(k)
        if a is None:
            continue
        ng = under_ng or a.nograd
        yield a, ng, path
        tag = k + "|" + ">".join(path[-3:])
        if tag in _seen:
            continue
        _seen.add(tag)
        for s in a.sub:
            yield from walk_atoms(tb, s, ng, path + (a.name or a.kind,), _seen)


def role_atoms(tb: TermBuilder, p: Poly, role: str, reg: AlgoRegistry) -> Set[str]:
    """Top-level atoms of p that are *data* carrying the given role (no network call inside)."""
    out = set()
    for k in p.atoms():
        a = tb.atoms.get(k)
        if a is None or f"role:{role}" not in a.origins:
            continue
        has_net = a.kind == "call" and net_attr_of_callee(tb, a, reg) is not None
        if not has_net:
            for b, _, _ in walk_atoms(tb, Poly.atom(k)):
                if b.kind == "call" and net_attr_of_callee(tb, b, reg) is not None:
                    has_net = True
                    break
        roles = {o[5:] for o in a.origins if o.startswith("role:")}
        if not has_net and roles == {role}:
            out.add(k)
    return out


def monos_with_role(tb: TermBuilder, p: Poly, role: str) -> List[str]:
    out = []
    for m, c in p.t.items():
        for k, _ in m:
            a = tb.atoms.get(k)
            if a is not None and f"role:{role}" in a.origins:
                out.append("*".join(kk for kk, _ in m)[:200])
                break
    return out


def is_gamma(tb: TermBuilder, k: str) -> bool:
    a = tb.atoms.get(k)
    if a is None:
        return False
    o = a.origins
    return "attr:self.gamma" in o and not any(x.startswith("role:") for x in o)


# ------------------------------------------------------------------------------------------------ rules
def run(ck: Check, repo: Repo) -> None:
    from ._c08_r3 import run_r3, run_r3_first
    run_r3_first(ck, repo)  # nested C18 check first (it resets the per-run pattern environments)
    ck.not_decided += [
        "the numeric value of the loss; equality of target weights after n learn steps (runtime values)",
        "Rainbow: that the projected distribution term is unaffected by next_obs when done (needs sum p = 1; see C18)",
    ]
    ck.trusted += ["Tensor.copy_ writes in place", "nn.Module.parameters() yields registered nn.Parameters only",
                   "tensordict to_module(M) with plain tensors leaves M without registered parameters (the comment in DQN.init_hook says so)"]
    ck.rule("C08.1", "the loss target normalises to reward + gamma^k * Q_shared(next_obs...) when done=0; the value comes from "
                     "shared (target) networks of the registry, the eval net may only select (arg-max); the prediction is the "
                     "eval network of the same group")
    ck.rule("C08.2", "terminal masking: substituting done=1 into the target's polynomial normal form leaves no monomial that "
                     "depends on next_obs")
    ck.rule("C08.3", "semi-gradient: every shared-network call feeding the target is under torch.no_grad() or detached")
    ck.rule("C08.4", "the soft update runs on every learn path on which the (last / delayed) optimizer steps, for exactly the "
                     "(eval, shared) pairs of the registry")
    ck.rule("C08.5", "the value written into the target parameter is polynomially identical to tau*eval + (1-tau)*target with "
                     "tau = self.tau")
    ck.rule("C08.6", "the soft update is not vacuous: the zipped iterables are the live holders of the parameters "
                     "(typestate: a module that received a detached TensorDict via to_module has no parameters())")
    ck.rule("C08.7", "batch coherence: at every call of a loss helper the observation, action, reward, next observation and done flag "
                     "handed over come from one and the same sampled batch, each in its own slot")
    ck.rule("C08.8", "target networks own their tensors: what is installed into a target / shadow network (to_module of a TensorDict taken from an online network, "
                     "load_state_dict of an online network's state) is a deep copy, never a view of the online network — otherwise every optimizer step of the online "
                     "network moves the target by the full step and the soft update has nothing left to do")
    _targets_owned(ck, repo)
    run_r3(ck, repo)
    n_loss = 0
    n_soft = 0
    for modname, cname in VALUE_BASED:
        reg = extract(repo, modname, cname)
        cls = reg.cls
        if cname == "RainbowDQN":
            n_loss += _rainbow_target(ck, repo, reg)
        else:
            n_loss += _criterion_targets(ck, repo, reg)
        n_soft += _soft_update(ck, repo, reg)
        _batch_coherence(ck, repo, reg)
        _hook_reinstalls(ck, repo, reg)
    ck.floor("C08.1", n_loss, 9, "loss-target sites over 7 value-based learners")
    ck.floor("C08.5", n_soft, 7, "soft-update functions")


def _loss_sites(cls: Cls) -> List[Tuple[Fn, ast.Call]]:
    out = []
    for m in cls.methods.values():
        for c in calls_in(m.node):
            if call_name(c) == "self.criterion" and len(c.args) >= 2:
                out.append((m, c))
    return out


def _check_target(ck: Check, tb: TermBuilder, reg: AlgoRegistry, fn: Fn, site: ast.AST, T: Poly, pred: Optional[Poly], label: str) -> None:
    from ..terms import expand_phi

    alts = expand_phi(tb, T)
    for i, Ta in enumerate(alts):
        _check_target_alt(ck, tb, reg, fn, site, Ta, pred, label if len(alts) == 1 else f"{label} (variant {i + 1}/{len(alts)})")


def _check_target_alt(ck: Check, tb: TermBuilder, reg: AlgoRegistry, fn: Fn, site: ast.AST, T: Poly, pred: Optional[Poly], label: str) -> None:
    cname = reg.cls.name
    D = role_atoms(tb, T, "done", reg)
    ck.ob("C08.2", fn, site, bool(D), f"{label}: the target depends on the batch's done flag",
          detail="no atom with origin role:done occurs in the target's normal form")
    if not D:
        return
    T1 = T.subst({k: Poly.const(1) for k in D})
    leak = monos_with_role(tb, T1, "next_obs")
    ck.ob("C08.2", fn, site, not leak,
          f"{label}: with done=1 no term of the target depends on the next observation",
          detail=("surviving next_obs-dependent monomial(s): " + " ; ".join(x[:160] for x in leak[:2])) if leak else
          f"done atoms {sorted(D)} substituted by 1: next_obs terms cancel")
    R1 = role_atoms(tb, T1, "reward", reg)
    ck.ob("C08.2", fn, site, len(R1) == 1 and T1 == Poly.atom(next(iter(R1))),
          f"{label}: with done=1 the target is exactly the reward",
          detail=f"target at done=1: {T1.key()[:200]}")
    T0 = T.subst({k: Poly.const(0) for k in D})
    # shape: reward + gamma^k * Q
    R = role_atoms(tb, T0, "reward", reg)
    rest = T0
    ok_r = len(R) == 1
    if ok_r:
        rk = next(iter(R))
        ok_r = T0.t.get(((rk, 1),)) == 1
        rest = T0 - Poly.atom(rk)
    ck.ob("C08.1", fn, site, ok_r, f"{label}: the target contains the reward exactly once, with coefficient 1",
          detail=f"reward atoms: {sorted(R)}; normal form at done=0: {T0.key()[:300]}")
    ok_shape = len(rest.t) == 1
    qatoms: List[str] = []
    if ok_shape:
        (m, c), = rest.t.items()
        g = [(k, e) for k, e in m if is_gamma(tb, k)]
        q = [(k, e) for k, e in m if not is_gamma(tb, k)]
        ok_shape = c == 1 and len(g) >= 1 and all(e >= 1 for _, e in g) and len(q) == 1 and q[0][1] == 1
        qatoms = [k for k, _ in q]
    ck.ob("C08.1", fn, site, ok_shape,
          f"{label}: besides the reward the target is gamma (the agent's discount) times one bootstrapped value",
          detail=f"remainder at done=0: {rest.key()[:300]}")
    if not (ok_shape and qatoms):
        return
    Q = Poly.atom(qatoms[0])
    qa = tb.atoms[qatoms[0]]
    ck.ob("C08.1", fn, site, "role:next_obs" in qa.origins, f"{label}: the bootstrapped value is computed from the next observation",
          detail=f"origins: {sorted(o for o in qa.origins if o.startswith('role:'))}")
    shared = set(reg.shared_attrs())
    outer_value_nets: List[str] = []
    bad_value: List[str] = []
    n_shared_calls = 0
    for a, ng, path in walk_atoms(tb, Q):
        net = net_attr_of_callee(tb, a, reg)
        if net is None:
            continue
        selector = "argmax" in path
        if net in shared:
            n_shared_calls += 1
            ck.ob("C08.3", fn, a.node if a.node is not None else site, ng,
                  f"{label}: call of target network `{net}` is outside the autograd graph (no_grad / detach)",
                  construct=f"{label}: {net}(...) in target")
            if not any(p in shared or p in reg.eval_attrs() for p in path):
                outer_value_nets.append(net)
        else:
            if not selector:
                bad_value.append(net)
            else:
                # double Q-learning: the online network only SELECTS the action — on the same (next) observation the target network is evaluated on
                roles = sorted(o[5:] for o in a.origins if o.startswith("role:"))
                ck.ob("C08.1", fn, a.node if a.node is not None else site, "next_obs" in roles and "obs" not in roles,
                      f"{label}: the action that selects the bootstrapped value is the online network's arg-max on the NEXT observation",
                      detail=f"the selecting call of `{net}` depends on {roles}: the target evaluates Q_target(s', argmax_a Q(s, a)) instead of Q_target(s', argmax_a Q(s', a))",
                      construct=f"{label}: selector {net}(...) input")
    ck.ob("C08.1", fn, site, n_shared_calls >= 1 and not bad_value,
          f"{label}: every network that contributes a *value* to the target is a shared (target) network of the registry",
          detail=(f"eval network(s) {bad_value} used in value position (only arg-max selection is allowed)" if bad_value else
                  f"shared calls: {n_shared_calls}"))
    if pred is not None:
        pnets = []
        for a, ng, path in walk_atoms(tb, pred):
            net = net_attr_of_callee(tb, a, reg)
            if net is not None and not any(p in reg.eval_attrs() or p in shared for p in path):
                pnets.append(net)
        ok = len(set(pnets)) == 1 and pnets[0] in reg.eval_attrs()
        ck.ob("C08.1", fn, site, ok, f"{label}: the prediction is the output of one eval network", detail=f"networks in prediction: {pnets}")
        if ok:
            g = reg.group_of(pnets[0])
            want = set(g.shared) if g else set()
            ck.ob("C08.1", fn, site, bool(want & set(outer_value_nets)),
                  f"{label}: the target bootstraps from the target network of the trained network's own group",
                  detail=f"prediction by `{pnets[0]}` (group shared={sorted(want)}), target value from {sorted(set(outer_value_nets))}")
            praw = tb.roles(pred)
            ck.ob("C08.1", fn, site, "obs" in praw and "next_obs" not in praw,
                  f"{label}: the prediction is evaluated on the current observation (and action), not the next one",
                  detail=f"roles in prediction: {sorted(praw)}")


def _criterion_targets(ck: Check, repo: Repo, reg: AlgoRegistry) -> int:
    sites = _loss_sites(reg.cls)
    n = 0
    builders: Dict[str, TermBuilder] = {}
    for fn, c in sites:
        tb = builders.setdefault(fn.qualname, TermBuilder(repo, fn))
        node = tb.cfg.node_of(c)
        if node is None:
            continue
        T = tb.term(c.args[1], node)
        P = tb.term(c.args[0], node)
        _check_target(ck, tb, reg, fn, c, T, P, f"{reg.cls.name} loss {n + 1}")
        n += 1
    if n == 0:
        raise AnalysisError(f"{reg.cls.name}: no self.criterion(pred, target) site found")
    return n


def _rainbow_target(ck: Check, repo: Repo, reg: AlgoRegistry) -> int:
    fn = reg.cls.methods.get("_dqn_loss")
    if fn is None:
        raise AnalysisError("RainbowDQN._dqn_loss not found")
    tb = TermBuilder(repo, fn)
    # the support term: the value that is clamped to [v_min, v_max]
    clamps = [c for c in calls_in(fn.node) if last_attr(c) in ("clamp", "clip") and isinstance(c.func, ast.Attribute)]
    site = None
    for c in clamps:
        node = tb.cfg.node_of(c)
        t = tb.term(c.func.value, node)
        if "role:reward" in tb.origins(t):
            site = (c, node, t)
            break
    if site is None:
        raise AnalysisError("RainbowDQN._dqn_loss: clamped support term (t_z) not found")
    c, node, T = site
    label = "RainbowDQN support target"
    D = role_atoms(tb, T, "done", reg)
    ck.ob("C08.2", fn, c, bool(D), f"{label}: depends on the done flag")
    if D:
        T1 = T.subst({k: Poly.const(1) for k in D})
        sup = [m for m in T1.t if any("attr:self.support" in tb.atoms[k].origins for k, _ in m if k in tb.atoms)]
        ck.ob("C08.2", fn, c, not sup, f"{label}: with done=1 the shifted support collapses to the reward (no bootstrapping)",
              detail=f"at done=1: {T1.key()[:200]}")
        T0 = T.subst({k: Poly.const(0) for k in D})
        R = role_atoms(tb, T0, "reward", reg)
        ok = len(R) == 1 and len(T0.t) == 2
        if ok:
            rest = T0 - Poly.atom(next(iter(R)))
            (m, cf), = rest.t.items() if len(rest.t) == 1 else [((), 0)]
            names = set()
            for k, e in m:
                a = tb.atoms.get(k)
                names |= set(a.origins) if a else set()
            ok = cf == 1 and "attr:self.support" in names and "attr:self.gamma" in names
        ck.ob("C08.1", fn, c, ok, f"{label}: at done=0 it is reward + gamma^k * support", detail=f"{T0.key()[:300]}")
    # source distribution from the shared net, action selected by eval net
    shared = set(reg.shared_attrs())
    n_sh = 0
    for call in calls_in(fn.node):
        nd = tb.cfg.node_of(call)
        if nd is None:
            continue
        d = call_name(call)
        if d.startswith("self.") and d[5:] in shared:
            n_sh += 1
            t = tb.term(call, nd)
            ck.ob("C08.3", fn, call, tb.in_nograd(nd), f"RainbowDQN: target network call `{d}` runs under no_grad")
            ck.ob("C08.1", fn, call, "next_obs" in tb.roles(t) and "obs" not in tb.roles(t),
                  "RainbowDQN: the target distribution is evaluated on the next observation", detail=f"roles {sorted(tb.roles(t))}")
    ck.ob("C08.1", fn, fn.node, n_sh >= 1, "RainbowDQN: the source distribution comes from the shared (target) network",
          construct="shared network calls in _dqn_loss")
    return 1


# ------------------------------------------------------------------------------------------------ soft update
def _through_temps(cfg: CFG, at, e: ast.AST, limit: int = 6):
    """(expression, CFG node where it is evaluated) that `e` stands for at node `at`: a local name is replaced by the expression it was bound to for
    as long as exactly one plain binding reaches — a value handed over directly and the same value handed over through a single-definition temporary
    are one program to the rules.  Parameters, loop variables and names with several reaching definitions are left as they are."""
    cur = e
    for _ in range(limit):
        if not isinstance(cur, ast.Name) or at is None:
            break
        defs = cfg.defs_reaching(at, cur.id)
        if len(defs) != 1 or defs[0].kind != "stmt" or defs[0] is at:
            break
        v = cfg.value_of_def(defs[0], cur.id)
        if v is None:
            break
        cur, at = v, defs[0]
    return cur, at


def _zip_of(cfg: CFG, loop: ast.For) -> Optional[Tuple[ast.Call, object]]:
    """The `zip(...)` call a loop iterates (written in the loop header or bound to a local first) and the node at which it is evaluated."""
    it, at = _through_temps(cfg, cfg.node_of(loop.iter), loop.iter)
    if isinstance(it, ast.Call) and call_name(it) == "zip":
        return it, at
    return None


def _find_soft_update(cls: Cls) -> List[Tuple[Fn, ast.For, ast.Call]]:
    out = []
    for m in cls.methods.values():
        cfg: Optional[CFG] = None
        for n in walk_no_nested(m.node):
            if not isinstance(n, ast.For):
                continue
            if isinstance(n.iter, ast.Name):
                cfg = cfg or CFG(m.node)
                is_zip = _zip_of(cfg, n) is not None
            else:
                is_zip = isinstance(n.iter, ast.Call) and call_name(n.iter) == "zip"
            if is_zip:
                for c in calls_in(n):
                    if last_attr(c) in ("copy_", "lerp_", "mul_", "add_") and isinstance(c.func, ast.Attribute):
                        out.append((m, n, c))
                        break
    return out


def _paramless_modules(repo: Repo, cls: Cls) -> Dict[str, Tuple[str, Optional[str], Optional[str]]]:
    """module attr -> (holder attr of the installed TensorDict, eval-view attr, source eval module)
    for every `<TD>.to_module(self.M)` in the class where TD holds detached (non-Parameter) tensors."""
    out: Dict[str, Tuple[str, Optional[str], Optional[str]]] = {}
    for m in cls.methods.values():
        stores = {}
        for n in sorted((x for x in walk_no_nested(m.node) if isinstance(x, (ast.Assign, ast.AnnAssign))), key=lambda x: x.lineno):
            if isinstance(n, ast.Assign) and len(n.targets) == 1:
                k, v = dotted(n.targets[0]), n.value
            elif isinstance(n, ast.AnnAssign) and n.value is not None:
                k, v = dotted(n.target), n.value
            else:
                continue
            # prefer the definition that derives from from_module / clone of one (the installing chain)
            if k not in stores or "from_module" in ast.unparse(v) or ".clone()" in ast.unparse(v):
                stores[k] = v
        for c in calls_in(m.node):
            if last_attr(c) == "to_module" and c.args and dotted(c.args[0]).startswith("self."):
                mod = dotted(c.args[0])[5:]
                td = dotted(c.func.value)  # local name of the TensorDict
                chain = ast.unparse(stores.get(td, ast.Constant(value=None)))
                src_name = None
                detached = False
                # follow one level: target_params = param_vals.clone().lock_(); param_vals = from_module(self.actor).detach()
                texts = [chain]
                for nm, v in stores.items():
                    if nm and nm in chain:
                        texts.append(ast.unparse(v))
                for t in texts:
                    if ".detach()" in t or ".data" in t:
                        detached = True
                    if "from_module(self." in t:
                        src_name = t.split("from_module(self.")[1].split(")")[0]
                if not detached:
                    continue
                holder = None
                view = None
                for nm, v in stores.items():
                    if nm.startswith("self.") and isinstance(v, ast.Name):
                        if v.id == td:
                            holder = nm[5:]
                        else:
                            vt = ast.unparse(stores.get(v.id, ast.Constant(value=None)))
                            if "from_module(self." in vt and ".clone()" not in vt:
                                view = nm[5:]
                out[mod] = (holder or "", view, src_name)
    return out


def _soft_update(ck: Check, repo: Repo, reg: AlgoRegistry) -> int:
    cls = reg.cls
    cname = cls.name
    found = _find_soft_update(cls)
    if not found:
        raise AnalysisError(f"{cname}: no soft-update loop (zip + in-place write) found")
    paramless = _paramless_modules(repo, cls)
    ck.note(f"{cname}_paramless_modules", {k: list(v) for k, v in paramless.items()})
    learn = cls.methods.get("learn")
    if learn is None:
        raise AnalysisError(f"{cname}.learn not found")
    lcfg = CFG(learn.node)
    ltb = TermBuilder(repo, learn, cfg=lcfg)
    covered: Set[Tuple[str, str]] = set()
    for fn, loop, write in found:
        tb = TermBuilder(repo, fn, depth=0)
        wnode = tb.cfg.node_of(write)
        # receiver loop variable (the tensor written to may be bound to a local first: `dst = target_param.data; dst.copy_(...)`)
        tgt_names = [t.id if isinstance(t, ast.Name) else None for t in (loop.target.elts if isinstance(loop.target, ast.Tuple) else [loop.target])]
        recv = write.func.value
        while isinstance(recv, ast.Attribute):
            recv = recv.value
        if isinstance(recv, ast.Name) and recv.id not in tgt_names:
            recv = _through_temps(tb.cfg, wnode, recv)[0]
            while isinstance(recv, ast.Attribute):
                recv = recv.value
        if not isinstance(recv, ast.Name):
            raise AnalysisError(f"{fn.qualname}: in-place write receiver is not a loop variable")
        # the zipped iterables, each looked at through single-definition temporaries (`a = X.values(); b = Y.values(); zip(a, b)` is `zip(X.values(), Y.values())`)
        zp = _zip_of(tb.cfg, loop)
        if zp is None or recv.id not in tgt_names or len(tgt_names) != 2 or len(zp[0].args) != 2 or zp[0].keywords:
            raise AnalysisError(f"{fn.qualname}: unexpected soft-update loop shape")
        zargs = [_through_temps(tb.cfg, zp[1], a)[0] for a in zp[0].args]
        zipped = ast.Call(func=ast.Name(id="zip", ctx=ast.Load()), args=zargs, keywords=[])
        ti = tgt_names.index(recv.id)
        ei = 1 - ti
        t_iter, e_iter = zargs[ti], zargs[ei]
        # ---- C08.5 formula
        Tt = tb.term(ast.Name(id=tgt_names[ti], ctx=ast.Load()), wnode)
        Et = tb.term(ast.Name(id=tgt_names[ei], ctx=ast.Load()), wnode)
        tau = tb.term(ast.parse("self.tau", mode="eval").body, wnode)
        spec = tau * Et + (Poly.const(1) - tau) * Tt
        la = last_attr(write)
        if la == "copy_":
            V = tb.term(write.args[0], wnode)
        elif la == "lerp_":
            a, w = tb.term(write.args[0], wnode), tb.term(write.args[1], wnode)
            V = Tt + w * (a - Tt)
        else:
            V = tb.term(write, wnode)
            if la == "mul_" or la == "add_":
                # t.mul_(1-tau).add_(e, alpha=tau) chains are evaluated by the term builder as method arithmetic
                V = tb.term(ast.Call(func=ast.Attribute(value=write.func.value, attr=la.rstrip("_"), ctx=ast.Load()), args=write.args, keywords=write.keywords), wnode)
        ck.ob("C08.5", fn, write, V == spec,
              f"{cname}: the target parameter receives tau*eval + (1-tau)*target",
              detail=f"written value normalises to {V.key()[:200]}; expected {spec.key()[:200]}")
        # ---- resolve (eval, target) module pairs per call site
        pairs = _resolve_pairs(repo, reg, fn, e_iter, t_iter, learn, ltb, ck)
        for (e_attr, t_attr, e_kind, t_kind, site_fn, site) in pairs:
            covered.add((e_attr, t_attr))
            is_pair = (e_attr, t_attr) in reg.pairs()
            ck.ob("C08.4", site_fn, site, is_pair,
                  f"{cname}: soft update blends an eval network into the shared network of the same registry group",
                  detail=f"updates `{t_attr}` from `{e_attr}`; registry pairs: {reg.pairs()}",
                  construct=f"{cname}: soft update {e_attr} -> {t_attr}")
            # ---- C08.6 typestate
            if t_attr in paramless:
                holder, view, src = paramless[t_attr]
                ok = t_kind == f"td:{holder}" and (e_kind == f"td:{view}" or e_kind == "params")
                if e_kind == "params" and t_kind.startswith("td:"):
                    ok = False  # order/structure of .parameters() and TensorDict.values() differ
                ck.ob("C08.6", fn, loop.iter, ok,
                      f"{cname}: `{t_attr}` has no registered parameters after to_module(); the soft update must iterate the "
                      f"installed TensorDict (`self.{holder}`) against the live view of `{e_attr}`",
                      detail=f"loop iterates eval side as {e_kind}, target side as {t_kind}; `{t_attr}.parameters()` is empty, "
                             "so zip() yields nothing and the target network never moves",
                      construct=f"{cname}: {short(zipped, 140)}")
            else:
                ok = t_kind == "params" and e_kind == "params"
                ck.ob("C08.6", fn, loop.iter, ok,
                      f"{cname}: the soft update zips parameters() of `{e_attr}` with parameters() of `{t_attr}`",
                      detail=f"eval side {e_kind}, target side {t_kind}", construct=f"{cname}: {short(zipped, 140)} [{e_attr}->{t_attr}]")
            # ---- C08.4 runs on every path
            _on_every_path(ck, reg, learn, lcfg, site_fn, site, e_attr, t_attr)
    missing = [p for p in reg.pairs() if p not in covered]
    ck.ob("C08.4", learn, learn.node, not missing,
          f"{cname}: every (eval, shared) pair of the registry is soft-updated by learn()",
          detail=f"not updated: {missing}", construct=f"{cname}: registry pairs {reg.pairs()}")
    return len(found)


def _iter_kind(e: ast.AST) -> Tuple[Optional[ast.AST], str]:
    """(module/holder expression, kind) for `X.parameters()` / `self.H.values(...)` / `self.H.flatten_keys().values()`."""
    if isinstance(e, ast.Call) and isinstance(e.func, ast.Attribute):
        if e.func.attr == "parameters" and not e.args:
            return e.func.value, "params"
        if e.func.attr in ("values",):
            base = e.func.value
            while isinstance(base, ast.Call) and isinstance(base.func, ast.Attribute):
                base = base.func.value
            if dotted(base).startswith("self."):
                return base, "td:" + dotted(base)[5:]
    return None, "unknown:" + short(e, 60)


def _resolve_pairs(repo: Repo, reg: AlgoRegistry, fn: Fn, e_iter: ast.AST, t_iter: ast.AST, learn: Fn, ltb: TermBuilder, ck: Check):
    e_mod, e_kind = _iter_kind(e_iter)
    t_mod, t_kind = _iter_kind(t_iter)
    paramless = _paramless_modules(repo, reg.cls)

    def attr_of_direct(x: Optional[ast.AST], kind: str, side: str) -> Optional[str]:
        if x is None:
            return None
        d = dotted(x)
        if kind == "params" and d.startswith("self."):
            return d[5:]
        if kind.startswith("td:"):
            h = kind[3:]
            for mod, (holder, view, src) in paramless.items():
                if side == "t" and holder == h:
                    return mod
                if side == "e" and view == h:
                    return src
        return None

    params = fn.named_params[1:]
    out = []
    e_direct, t_direct = attr_of_direct(e_mod, e_kind, "e"), attr_of_direct(t_mod, t_kind, "t")
    sites = [c for c in calls_in(learn.node) if call_name(c) == f"self.{fn.name}"]
    if not sites:
        # may be called from a helper of learn
        for m in reg.cls.methods.values():
            if m is not fn and m is not learn:
                sites += [c for c in calls_in(m.node) if call_name(c) == f"self.{fn.name}"]
    if e_direct is not None and t_direct is not None:
        for c in sites:
            out.append((e_direct, t_direct, e_kind, t_kind, learn, c))
        if not sites:
            ck.ob("C08.4", learn, learn.node, False, f"{reg.cls.name}: learn() invokes the soft update `{fn.name}`",
                  detail=f"no call of self.{fn.name}() in learn() or its helpers: the target network `{t_direct}` is never updated",
                  construct=f"{reg.cls.name}: call of {fn.name} from learn")
        return out
    # parameters bound at call sites
    from ..terms import bind_arg

    for c in sites:
        node = ltb.cfg.node_of(c)
        bound = [bind_arg(fn, c, x.id) if isinstance(x, ast.Name) and x.id in params else None for x in (e_mod, t_mod)]
        # a call in the body of a loop over a literal table of (eval, target) rows is one call per row
        for row, at in _rows_of_literal_loop(ltb.cfg, node, c, bound):
            res = [_root_attr(ltb, ltb.term(arg, at)) if (arg is not None and at is not None) else None for arg in row]
            if res[0] and res[1]:
                out.append((res[0], res[1], e_kind, t_kind, learn, c))
            else:
                raise AnalysisError(f"{fn.qualname}: cannot resolve the networks passed at {short(c)}")
    return out


def _row_member(target: ast.AST, value: ast.AST, name: str) -> Optional[ast.AST]:
    """the member of the literal row `value` that the loop target `target` binds to `name` (None when the row is not a literal of the target's shape)."""
    if isinstance(target, ast.Name):
        return value if target.id == name else None
    if isinstance(target, (ast.Tuple, ast.List)) and isinstance(value, (ast.Tuple, ast.List)) and len(target.elts) == len(value.elts) \
            and not any(isinstance(x, ast.Starred) for x in list(target.elts) + list(value.elts)):
        for t, v in zip(target.elts, value.elts):
            r = _row_member(t, v, name)
            if r is not None:
                return r
    return None


def _rows_of_literal_loop(cfg: CFG, node, call: ast.Call, args: List[Optional[ast.AST]]) -> List[Tuple[List[Optional[ast.AST]], object]]:
    """The argument lists `call` (at `node`) is executed with, each with the node at which its expressions are evaluated.  Normally that is
    [(args, node)].  When arguments are variables of ONE enclosing `for` over a non-empty literal tuple / list (written in the header or bound to a
    single-definition temporary) whose rows are literals of the target's shape, the loop is the same program as one call per row, in order: the
    result has one entry per row with the loop variables replaced by the row's members (evaluated where the table is built)."""
    heads: Dict[int, object] = {}
    which: Dict[int, str] = {}
    for i, a in enumerate(args):
        if a is None or node is None:
            continue
        a, at = _through_temps(cfg, node, a)
        if isinstance(a, ast.Name) and at is not None:
            defs = cfg.defs_reaching(at, a.id)
            if len(defs) == 1 and defs[0].kind == "for" and isinstance(defs[0].ast, ast.For) and any(x is call for b in defs[0].ast.body for x in ast.walk(b)):
                heads[defs[0].id] = defs[0]
                which[i] = a.id
    if len(heads) != 1:
        return [(args, node)]
    head = next(iter(heads.values()))
    table, at = _through_temps(cfg, head, head.ast.iter)
    if not isinstance(table, (ast.Tuple, ast.List)) or not table.elts or any(isinstance(x, ast.Starred) for x in table.elts):
        return [(args, node)]
    rows = []
    for r in table.elts:
        row = [(_row_member(head.ast.target, r, which[i]) if i in which else a) for i, a in enumerate(args)]
        if any(i in which and row[i] is None for i in range(len(args))):
            return [(args, node)]
        rows.append((row, at))
    return rows


def _root_attr(tb: TermBuilder, p: Optional[Poly]) -> Optional[str]:
    if p is None or len(p.t) != 1:
        return None
    (m, c), = p.t.items()
    if len(m) != 1:
        return None
    a = tb.atoms.get(m[0][0])
    while a is not None:
        if a.kind == "attr" and a.name.startswith("self."):
            return a.name[5:]
        if a.kind == "idx" and a.sub:
            p2 = a.sub[0]
            if len(p2.t) == 1:
                (m2, _), = p2.t.items()
                if len(m2) == 1:
                    a = tb.atoms.get(m2[0][0])
                    continue
        return None
    return None


def _on_every_path(ck: Check, reg: AlgoRegistry, learn: Fn, lcfg: CFG, site_fn: Fn, site: ast.AST, e_attr: str, t_attr: str) -> None:
    cname = reg.cls.name
    if not isinstance(site, ast.Call) or site_fn is not learn:
        return
    n = lcfg.node_of(site)
    if n is None:
        ck.ob("C08.4", learn, site, False, f"{cname}: soft update of `{t_attr}` is reachable in learn()")
        return
    # the target that this step's loss bootstraps from is the one held when learn() was entered: the soft update comes after an optimizer step
    def _is_opt_step(c: ast.Call) -> bool:
        return last_attr(c) == "step" and isinstance(c.func, ast.Attribute) and "optimizer" in dotted(c.func.value)
    steps = [lcfg.node_of(c) for c in calls_in(learn.node) if _is_opt_step(c)]
    # ... or a helper of the class that steps an optimizer (DQN.update, *_learn_individual)
    for c in calls_in(learn.node):
        nm = call_name(c)
        if nm.startswith("self.") and nm.count(".") == 1:
            hm = reg.cls.methods.get(nm[5:])
            if hm is not None and any(_is_opt_step(x) for x in calls_in(hm.node, nested=True)):
                steps.append(lcfg.node_of(c))
    steps = [x for x in steps if x is not None]
    if steps:
        after_step = any(lcfg.dominates(x, n) or (n.id in lcfg.reachable_from(x) and x.id not in lcfg.reachable_from(n)) for x in steps)
        ck.ob("C08.4", learn, site, after_step, f"{cname}: the soft update of `{t_attr}` follows the optimizer step of the same learn() call",
              detail="the soft update runs before the loss is computed: the target network used for this step's Bellman target is tau*online + (1-tau)*target, not the target "
                     "the agent held when learn() was called",
              construct=f"{cname}: soft update {e_attr}->{t_attr} after the optimizer step")
    guards = [(g, pol) for g, pol, _ in lcfg.guards_at(n)]
    delayed = [g for g, pol in guards if "policy_freq" in ast.unparse(g) and pol]
    other = [(g, pol) for g, pol in guards if "policy_freq" not in ast.unparse(g)]
    # enclosing loops are fine (per-agent loops); conditions other than the policy delay are not
    ck.ob("C08.4", learn, site, not other,
          f"{cname}: soft update of `{t_attr}` is not skipped under any condition other than the policy delay",
          detail="guarded by " + "; ".join((("" if pol else "not ") + short(g, 80)) for g, pol in other),
          construct=f"{cname}: guards of soft update {e_attr}->{t_attr}")
    # must post-dominate entry (non-delayed) or the branch entry (delayed)
    if delayed:
        # the delayed actor optimizer must step under the same condition (same normalised test)
        # a condition written in a helper of learn() is compared after its parameters have been replaced by the expressions
        # learn() passes for them, so that both sides speak about learn()'s own variables (whatever they are called)
        test_txt = {ast.unparse(g) for g in delayed}
        opt_tests: Set[str] = set()
        actor_opts = [o.name for o in reg.opts if any(g.policy and g.eval in o.networks for g in reg.groups)]
        for m in reg.cls.methods.values():
            mcfg = CFG(m.node)
            for c in calls_in(m.node):
                if last_attr(c) == "step" and isinstance(c.func, ast.Attribute):
                    rn = dotted(c.func.value)
                    if rn.split(".")[-1].startswith("actor_optimizer"):
                        nn = mcfg.node_of(c)
                        for g, pol, _ in (mcfg.guards_at(nn) if nn else []):
                            if "policy_freq" in ast.unparse(g) and pol:
                                opt_tests |= _as_seen_from(learn, m, g)
        ck.ob("C08.4", learn, site, bool(opt_tests) and test_txt <= opt_tests,
              f"{cname}: the delayed soft update and the delayed actor step use the same policy-delay condition",
              detail=f"soft update under {sorted(test_txt)}, actor step under {sorted(opt_tests)}",
              construct=f"{cname}: delay condition of soft update {e_attr}->{t_attr}")
    else:
        # walk out of enclosing loops: the call must post-dominate the loop body entry, the loop must post-dominate entry
        anchor = n
        pm = {}
        ok = True
        # find enclosing For statements
        encl = [s for s in ast.walk(learn.node) if isinstance(s, (ast.For, ast.While)) and any(x is site for x in ast.walk(s))]
        if encl:
            inner = encl[-1]
            first = lcfg.node_of(inner.body[0]) if inner.body else None
            ok = first is not None and lcfg.postdominates(n, first)
            loopnode = [x for x in lcfg.live_nodes() if x.kind in ("for", "test") and x.stmt is encl[0]]
            anchor = loopnode[0] if loopnode else n
        ok = ok and lcfg.postdominates(anchor, lcfg.entry)
        ck.ob("C08.4", learn, site, ok,
              f"{cname}: every normal path through learn() performs the soft update of `{t_attr}`",
              detail="there is a path from the entry of learn() to a return that bypasses the soft update",
              construct=f"{cname}: soft update {e_attr}->{t_attr} on all paths")


def _as_seen_from(caller: Fn, m: Fn, g: ast.AST) -> Set[str]:
    """Texts of expression g (of method m) in the vocabulary of `caller`: g itself when m is the caller, otherwise g with every
    parameter of m replaced by the argument bound to it, once per call `self.m(...)` in the caller."""
    if m is caller:
        return {ast.unparse(g)}
    import copy
    from ..terms import bind_arg

    class _Subst(ast.NodeTransformer):
        def __init__(self, call: ast.Call):
            self.call = call
            self.ok = True

        def visit_Name(self, x: ast.Name) -> ast.AST:
            if x.id in m.named_params[1:]:
                arg = bind_arg(m, self.call, x.id)
                if arg is None:
                    self.ok = False
                    return x
                return copy.deepcopy(arg)
            return x

    out: Set[str] = set()
    for c in calls_in(caller.node):
        if call_name(c) == f"self.{m.name}":
            sub = _Subst(c)
            g2 = sub.visit(copy.deepcopy(g))
            if sub.ok:
                out.add(ast.unparse(ast.fix_missing_locations(g2)))
    # not called from the caller directly (reached through another helper): compared as written, as before
    return out or {ast.unparse(g)}


_D = "agilerl/algorithms/dqn.py"
_C = "agilerl/algorithms/cqn.py"
_DD = "agilerl/algorithms/ddpg.py"
_T3 = "agilerl/algorithms/td3.py"
_MA = "agilerl/algorithms/maddpg.py"
_MT = "agilerl/algorithms/matd3.py"
_R = "agilerl/algorithms/dqn_rainbow.py"
VARIANTS = [
    ("dqn-soft-update-before-the-loss", _D, "        loss = self.update(obs, actions, rewards, next_obs, dones)\n\n        # soft update target network\n        self.soft_update()\n", "        self.soft_update()\n        loss = self.update(obs, actions, rewards, next_obs, dones)\n", "fire", "C08.4"),
    ("shared-encoder-shallow-clone", "agilerl/utils/algo_utils.py", "        target_params: TensorDict = param_vals.clone().lock_()\n        target_params.to_module(other.encoder)", "        target_params: TensorDict = param_vals.clone(recurse=False).lock_()\n        target_params.to_module(other.encoder)", "fire", "C08.8"),
    ("dqn-target-installed-without-clone", _D, "        target_params: TensorDict = param_vals.clone().lock_()\n", "        target_params: TensorDict = param_vals.lock_()\n", "fire", "C08.8"),
    ("reinit-shared-assign-true", "agilerl/hpo/mutation.py", "            module.load_state_dict(state_dict, strict=False)\n", "            module.load_state_dict(state_dict, strict=False, assign=True)\n", "fire", "C08.8"),
    ("cqn-double-selects-on-current-state", "agilerl/algorithms/cqn.py", "            q_idx = self.actor(next_states).argmax(dim=1).unsqueeze(1)", "            q_idx = self.actor(states).argmax(dim=1).unsqueeze(1)", "fire", "C08.1"),
    ("dqn-no-mask", _D, "y_j = rewards + self.gamma * q_target * (1 - dones)", "y_j = rewards + self.gamma * q_target", "fire", "C08.2"),
    ("dqn-mask-inverted", _D, "y_j = rewards + self.gamma * q_target * (1 - dones)", "y_j = rewards + self.gamma * q_target * dones", "fire", "C08"),
    ("dqn-mask-on-reward", _D, "y_j = rewards + self.gamma * q_target * (1 - dones)", "y_j = (rewards + self.gamma * q_target) * (1 - dones)", "fire", "C08.2"),
    ("dqn-commuted-ok", _D, "y_j = rewards + self.gamma * q_target * (1 - dones)", "not_done = 1.0 - dones\n            y_j = not_done * q_target * self.gamma + rewards", "silent", None),
    ("dqn-where-ok", _D, "y_j = rewards + self.gamma * q_target * (1 - dones)", "y_j = rewards + torch.where(dones.bool(), torch.zeros_like(q_target), self.gamma * q_target)", "silent", None),
    ("dqn-eval-net-target", _D, "q_target = self.actor_target(next_obs).max(axis=1)[0].unsqueeze(1)", "q_target = self.actor(next_obs).max(axis=1)[0].unsqueeze(1)", "fire", "C08.1"),
    ("dqn-obs-not-next", _D, "q_target = self.actor_target(next_obs).max(axis=1)[0].unsqueeze(1)", "q_target = self.actor_target(obs).max(axis=1)[0].unsqueeze(1)", "fire", "C08.1"),
    ("dqn-tau-swapped", _D, "self.tau * eval_param.data + (1.0 - self.tau) * target_param.data", "(1.0 - self.tau) * eval_param.data + self.tau * target_param.data", "fire", "C08.5"),
    ("dqn-lerp-form-ok", _D, "self.tau * eval_param.data + (1.0 - self.tau) * target_param.data", "target_param.data + self.tau * (eval_param.data - target_param.data)", "silent", None),
    ("dqn-soft-update-removed", _D, "        # soft update target network\n        self.soft_update()\n        return loss.item()", "        return loss.item()", "fire", "C08.4"),
    ("dqn-soft-update-conditional", _D, "        # soft update target network\n        self.soft_update()\n        return loss.item()", "        if self.double:\n            self.soft_update()\n        return loss.item()", "fire", "C08.4"),
    ("dqn-vacuous-update", _D, "self.param_vals.values(True, True), self.target_params.values(True, True)", "self.actor.parameters(), self.actor_target.parameters()", "fire", "C08.6"),
    ("dqn-gamma-squared", _D, "y_j = rewards + self.gamma * q_target * (1 - dones)", "y_j = rewards + self.gamma * self.tau * q_target * (1 - dones)", "fire", "C08.1"),
    ("cqn-no-detach", _C, "self.actor_target(next_states).detach().max(axis=1)[0].unsqueeze(1)", "self.actor_target(next_states).max(axis=1)[0].unsqueeze(1)", "fire", "C08.3"),
    ("cqn-no-mask", _C, "q_target = rewards + self.gamma * q_target_next * (1 - dones)", "q_target = rewards + self.gamma * q_target_next", "fire", "C08.2"),
    ("ddpg-critic-not-target", _DD, "q_value_next_state = self.critic_target(next_obs, next_actions)", "q_value_next_state = self.critic(next_obs, next_actions)", "fire", "C08.1"),
    ("ddpg-actor-not-target", _DD, "next_actions = self.actor_target(next_obs)", "next_actions = self.actor(next_obs)", "fire", "C08.1"),
    ("ddpg-crosswired-soft-update", _DD, "self.soft_update(self.critic, self.critic_target)", "self.soft_update(self.actor, self.critic_target)", "fire", "C08.4"),
    ("ddpg-missing-critic-update", _DD, "            self.soft_update(self.critic, self.critic_target)\n", "", "fire", "C08.4"),
    ("ddpg-mask-dropped", _DD, "y_j = rewards + ((1 - dones) * self.gamma * q_value_next_state)", "y_j = rewards + (self.gamma * q_value_next_state)", "fire", "C08.2"),
    ("td3-one-critic-target", _T3, "q_value_next_state = torch.min(q_value_next_state_1, q_value_next_state_2)", "q_value_next_state = torch.min(q_value_next_state_2, q_value_next_state_2)", "fire", "C08.1"),
    ("td3-target-outside-nograd", _T3, "            q_value_next_state_2 = self.critic_target_2(next_states, next_actions)\n\n            q_value_next_state = torch.min",
     "            pass\n        q_value_next_state_2 = self.critic_target_2(next_states, next_actions)\n        if True:\n            q_value_next_state = torch.min", "fire", "C08.3"),
    ("td3-soft-update-swapped-args", _T3, "self.soft_update(self.critic_2, self.critic_target_2)", "self.soft_update(self.critic_target_2, self.critic_2)", "fire", "C08.4"),
    ("maddpg-wrong-agent-done", _MA, "rewards[agent_id] + (1 - dones[agent_id]) * self.gamma * q_value_next_state", "rewards[agent_id] + self.gamma * q_value_next_state", "fire", "C08.2"),
    ("maddpg-zip-misaligned", _MA, "        for actor, actor_target, critic, critic_target in zip(\n            self.actors, self.actor_targets, self.critics, self.critic_targets\n        ):",
     "        for actor, actor_target, critic, critic_target in zip(\n            self.actors, self.critic_targets, self.critics, self.actor_targets\n        ):", "fire", "C08.4"),
    ("matd3-min-dropped", _MT, "rewards[agent_id] + (1 - dones[agent_id]) * self.gamma * q_value_next_state", "rewards[agent_id] + (1 - dones[agent_id]) * q_value_next_state", "fire", "C08.1"),
    ("matd3-delay-condition-differs", _MT, "        self.learn_counter[agent_id] += 1\n        if self.learn_counter[agent_id] % self.policy_freq == 0:", "        self.learn_counter[agent_id] += 1\n        if self.learn_counter[agent_id] % self.policy_freq == 1:", "fire", "C08.4"),
    ("matd3-delay-counter-of-other-agent", _MT, "        self.learn_counter[agent_id] += 1\n        if self.learn_counter[agent_id] % self.policy_freq == 0:", "        self.learn_counter[agent_id] += 1\n        if self.learn_counter[idx] % self.policy_freq == 0:", "fire", "C08.4"),
    ("rainbow-no-mask", _R, "t_z = rewards + (1 - dones) * gamma * self.support", "t_z = rewards + gamma * self.support", "fire", "C08.2"),
    ("rainbow-eval-dist", _R, "target_q_dist = self.actor_target(next_states, q=False)", "target_q_dist = self.actor(next_states, q=False)", "fire", "C08.1"),
    ("rainbow-soft-update-before-step", _R, "        # soft update target network\n        self.soft_update()\n        self.actor.reset_noise()", "        self.actor.reset_noise()", "fire", "C08.4"),
]


# the Bellman-target block of DQN.update and the rest of the method (one contiguous anchor: the variants below move the block into private helpers, which
# have to be added after the end of the method).  NOTE: the names of those helpers must occur only inside the VARIANTS expressions (the front end treats every
# identifier of the analyser's source outside VARIANTS as an anchor of some rule).
_UPD_OLD = (
    "        with torch.no_grad():\n"
    "            if self.double:  # Double Q-learning\n"
    "                q_idx = self.actor(next_obs).argmax(dim=1).unsqueeze(1)\n"
    "                q_target = (\n"
    "                    self.actor_target(next_obs).gather(dim=1, index=q_idx).detach()\n"
    "                )\n"
    "            else:\n"
    "                q_target = self.actor_target(next_obs).max(axis=1)[0].unsqueeze(1)\n"
    "\n"
    "            # target, if terminal then y_j = rewards\n"
    "            y_j = rewards + self.gamma * q_target * (1 - dones)\n"
    "\n"
    "        if actions.ndim == 1:\n"
    "            actions = actions.unsqueeze(-1)\n"
    "\n"
    "        # Compute Q-values for actions taken and loss\n"
    "        q_eval = self.actor(obs).gather(1, actions.long())\n"
    "        loss: torch.Tensor = self.criterion(q_eval, y_j)\n"
    "\n"
    "        # zero gradients, perform a backward pass, and update the weights\n"
    "        self.optimizer.zero_grad()\n"
    "        if self.accelerator is not None:\n"
    "            self.accelerator.backward(loss)\n"
    "        else:\n"
    "            loss.backward()\n"
    "\n"
    "        self.optimizer.step()\n"
    "        return loss.detach()\n"
)
_SOFT_OLD = (
    "        for eval_param, target_param in zip(\n"
    "            self.param_vals.values(True, True), self.target_params.values(True, True)\n"
    "        ):\n"
    "            target_param.data.copy_(\n"
    "                self.tau * eval_param.data + (1.0 - self.tau) * target_param.data\n"
    "            )\n"
)
# target computed by private helpers the front end cannot inline (`return` inside `with torch.no_grad()`, early return for the plain case, keepdim=True instead
# of unsqueeze, no redundant detach): followed interprocedurally by the term builder, parameters bound to the arguments of the call
VARIANTS += (lambda new: [(nm, _D, _UPD_OLD, new.replace(a, b), expect, rule) for nm, a, b, expect, rule in [
    ("dqn-target-in-helpers-ok", "", "", "silent", None),
    ("dqn-target-in-helpers-no-mask", "return rewards + self.gamma * next_value * not_done", "return rewards + self.gamma * next_value", "fire", "C08.2"),
    ("dqn-target-in-helpers-mask-inverted", "not_done = 1 - dones", "not_done = dones", "fire", "C08"),
    ("dqn-target-in-helpers-current-obs-passed", "self._td_target(rewards, next_obs, dones)", "self._td_target(rewards, obs, dones)", "fire", "C08.1"),
    ("dqn-target-in-helpers-reward-for-done", "self._td_target(rewards, next_obs, dones)", "self._td_target(rewards, next_obs, rewards)", "fire", "C08"),
    ("dqn-target-in-helpers-eval-net-value", "return self.actor_target(next_obs).gather(dim=1, index=greedy_idx)", "return self.actor(next_obs).gather(dim=1, index=greedy_idx)", "fire", "C08.1"),
    ("dqn-target-in-helpers-plain-case-eval-net", "return self.actor_target(next_obs).max(dim=1, keepdim=True)[0]", "return self.actor(next_obs).max(dim=1, keepdim=True)[0]", "fire", "C08.1"),
    ("dqn-target-in-helpers-value-outside-nograd", "        with torch.no_grad():\n            next_value = self._next_state_value(next_obs)\n",
     "        next_value = self._next_state_value(next_obs)\n        with torch.no_grad():\n", "fire", "C08.3"),
    ("dqn-target-in-helpers-tau-for-gamma", "self.gamma * next_value * not_done", "self.tau * next_value * not_done", "fire", "C08.1"),
]])(
    "        y_j = self._td_target(rewards, next_obs, dones)\n"
    "\n"
    "        if actions.ndim == 1:\n"
    "            actions = actions.unsqueeze(-1)\n"
    "\n"
    "        q_eval = self.actor(obs).gather(1, actions.long())\n"
    "        loss: torch.Tensor = self.criterion(q_eval, y_j)\n"
    "\n"
    "        self.optimizer.zero_grad()\n"
    "        if self.accelerator is not None:\n"
    "            self.accelerator.backward(loss)\n"
    "        else:\n"
    "            loss.backward()\n"
    "\n"
    "        self.optimizer.step()\n"
    "        return loss.detach()\n"
    "\n"
    "    def _next_state_value(self, next_obs):\n"
    "        if not self.double:\n"
    "            return self.actor_target(next_obs).max(dim=1, keepdim=True)[0]\n"
    "\n"
    "        greedy_idx = self.actor(next_obs).argmax(dim=1, keepdim=True)\n"
    "        return self.actor_target(next_obs).gather(dim=1, index=greedy_idx)\n"
    "\n"
    "    def _td_target(self, rewards, next_obs, dones):\n"
    "        with torch.no_grad():\n"
    "            next_value = self._next_state_value(next_obs)\n"
    "            not_done = 1 - dones\n"
    "            return rewards + self.gamma * next_value * not_done\n"
)
# soft update with the zipped iterables, the mixed tensor and the written tensor bound to locals first
VARIANTS += [
    ("dqn-soft-update-through-locals-ok", _D, _SOFT_OLD,
     "        online_leaves = self.param_vals.values(True, True)\n        target_leaves = self.target_params.values(True, True)\n"
     "        for eval_param, target_param in zip(online_leaves, target_leaves):\n"
     "            mixed = self.tau * eval_param.data + (1.0 - self.tau) * target_param.data\n            target_param.data.copy_(mixed)\n", "silent", None),
    ("dqn-soft-update-zip-and-receiver-through-locals-ok", _D, _SOFT_OLD,
     "        pairs = zip(self.param_vals.values(True, True), self.target_params.values(True, True))\n"
     "        for eval_param, target_param in pairs:\n"
     "            dst = target_param.data\n            dst.copy_(self.tau * eval_param.data + (1.0 - self.tau) * dst)\n", "silent", None),
    ("dqn-soft-update-through-locals-vacuous", _D, _SOFT_OLD,
     "        online_leaves = self.actor.parameters()\n        target_leaves = self.actor_target.parameters()\n"
     "        for eval_param, target_param in zip(online_leaves, target_leaves):\n"
     "            mixed = self.tau * eval_param.data + (1.0 - self.tau) * target_param.data\n            target_param.data.copy_(mixed)\n", "fire", "C08.6"),
    ("dqn-soft-update-through-locals-tau-swapped", _D, _SOFT_OLD,
     "        online_leaves = self.param_vals.values(True, True)\n        target_leaves = self.target_params.values(True, True)\n"
     "        for eval_param, target_param in zip(online_leaves, target_leaves):\n"
     "            mixed = (1.0 - self.tau) * eval_param.data + self.tau * target_param.data\n            target_param.data.copy_(mixed)\n", "fire", "C08.5"),
]


# ------------------------------------------------------------------------------------------------ C08.7
def _batch_root(tb: TermBuilder, p: Poly) -> Set[str]:
    """Names of the function parameters (batches) a term is read from."""
    out = set()
    for a, _, _ in walk_atoms(tb, p):
        if a.kind == "param":
            out.add(a.name)
    return out


def _batch_coherence(ck: Check, repo: Repo, reg: AlgoRegistry) -> None:
    cls = reg.cls
    learn = cls.methods.get("learn")
    if learn is None:
        return
    tb = TermBuilder(repo, learn)
    helpers = {m.name for m in cls.methods.values() if m.name in ("update", "_dqn_loss", "_learn_individual", "learn_individual")}
    for c in calls_in(learn.node):
        d = call_name(c)
        if not (d.startswith("self.") and d[5:] in helpers):
            continue
        n = tb.cfg.node_of(c)
        if n is None:
            continue
        roles = []
        roots = []
        for a in list(c.args) + [k.value for k in c.keywords]:
            t = tb.term(a, n)
            r = tb.roles(t)
            if r:
                roles.append((short(a, 30), sorted(r)))
                roots.append((short(a, 30), sorted(_batch_root(tb, t))))
        single = [x for x in roles if len(x[1]) == 1]
        seen = [x[1][0] for x in single]
        ck.ob("C08.7", learn, c, seen.count("reward") == 1 and seen.count("done") == 1,
              f"{cls.name}: reward and done flag are each handed to {d[5:]}() exactly once", detail=f"roles by argument: {roles}")
        rs = {tuple(x[1]) for x in roots if x[1]}
        ck.ob("C08.7", learn, c, len(rs) == 1, f"{cls.name}: all experience arguments of this {d[5:]}() call are read from the same batch",
              detail=f"batch objects by argument: {roots}")
        # positional agreement with the callee's own use of its parameters
        callee = cls.methods[d[5:]]
        from ..terms import bind_arg
        for pname in callee.named_params[1:]:
            arg = bind_arg(callee, c, pname)
            if arg is None:
                continue
            r = tb.roles(tb.term(arg, n))
            want = _param_role(repo, callee, pname)
            if want and len(r) == 1:
                ck.ob("C08.7", learn, c, r == {want}, f"{cls.name}: the argument bound to `{pname}` of {d[5:]}() carries the `{want}` field of the batch",
                      detail=f"carries {sorted(r)}", construct=f"{short(c, 60)} :: {pname}")


def _param_role(repo: Repo, callee: Fn, pname: str) -> Optional[str]:
    """Role a helper's parameter plays, decided by majority over all call sites in the class (Engler-style)."""
    cls = callee.cls
    votes: Dict[str, int] = {}
    from ..terms import bind_arg
    for m in cls.methods.values():
        if m is callee:
            continue
        tb = None
        for c in calls_in(m.node):
            if call_name(c) == f"self.{callee.name}":
                tb = tb or TermBuilder(repo, m)
                n = tb.cfg.node_of(c)
                arg = bind_arg(callee, c, pname)
                if arg is None or n is None:
                    continue
                r = tb.roles(tb.term(arg, n))
                if len(r) == 1:
                    k = next(iter(r))
                    votes[k] = votes.get(k, 0) + 1
    if not votes:
        return None
    best = max(votes.items(), key=lambda kv: kv[1])
    total = sum(votes.values())
    return best[0] if best[1] * 2 > total or total == 1 else None


# ------------------------------------------------------------------------------------------------ C08.8
def _chain(e: ast.AST) -> Tuple[ast.AST, List[ast.Call]]:
    """base expression and the method calls applied on top of it, innermost first: from_module(x).detach().clone().lock_() -> (from_module(x), [detach, clone, lock_])"""
    calls: List[ast.Call] = []
    cur = e
    while isinstance(cur, ast.Call) and isinstance(cur.func, ast.Attribute):
        calls.append(cur)
        cur = cur.func.value
    return cur, list(reversed(calls))


def _deep_clone_in(calls: List[ast.Call]) -> bool:
    for c in calls:
        if c.func.attr in ("clone", "copy") or call_name(c) in ("copy.deepcopy",):
            rec = get_kw(c, "recurse", 0)
            if rec is None or (isinstance(rec, ast.Constant) and rec.value is True):
                return True
    return False


def _targets_owned(ck: Check, repo: Repo) -> None:
    n = 0
    sites: List[Tuple[Fn, ast.Call]] = []
    for m in repo.mods.values():
        if not (m.name.startswith("agilerl.algorithms") or m.name == "agilerl.utils.algo_utils"):
            continue
        for f in list(m.functions.values()) + [x for c in m.classes.values() for x in c.methods.values()]:
            for c in calls_in(f.node, nested=True):
                if last_attr(c) == "to_module" and c.args:
                    sites.append((f, c))
    for f, c in sites:
        cfg = CFG(f.node)
        node = cfg.node_of(c)
        src = c.func.value
        # resolve the installed TensorDict through single-definition locals down to from_module(...)
        chain_calls: List[ast.Call] = []
        cur: ast.AST = src
        guard = 0
        while guard < 6:
            guard += 1
            base, calls = _chain(cur)
            chain_calls = calls + chain_calls
            if isinstance(base, ast.Name) and node is not None:
                defs = cfg.defs_reaching(node, base.id)
                vals = [cfg.value_of_def(d, base.id) for d in defs]
                vals = [v for v in vals if v is not None]
                if len(vals) >= 1 and all(ast.dump(v) == ast.dump(vals[0]) for v in vals):
                    cur = vals[0]
                    node = defs[0]
                    continue
            break
        from_online = isinstance(base, ast.Call) and call_name(base).split(".")[-1] == "from_module"
        if not from_online:
            continue
        n += 1
        ck.ob("C08.8", f, c, _deep_clone_in(chain_calls), f"{f.qualname}: the TensorDict installed into `{short(c.args[0], 30)}` is a deep copy of the source network's parameters",
              detail=f"chain on top of {short(base, 40)}: {[x.func.attr + ('(' + ', '.join(ast.unparse(k) for k in x.keywords) + ')' if x.keywords else '()') for x in chain_calls]} — without a deep "
                     "clone the installed tensors are views of the live source parameters: the target network follows every optimizer step of the online network",
              construct=f"{f.qualname}: ownership of the TensorDict installed into {short(c.args[0], 30)}")
    ck.floor("C08.8", n, 2, "TensorDicts taken from a network and installed into another one")
    # state dicts loaded into re-created target networks: load_state_dict(assign=True) makes the parameters alias the given tensors
    k = 0
    for q in ("Mutations.load_state_dicts", "Mutations.reinit_from_mutated"):
        f = repo.fn("agilerl.hpo.mutation", q)
        for c in calls_in(f.node, nested=True):
            if last_attr(c) != "load_state_dict":
                continue
            k += 1
            a = get_kw(c, "assign")
            ck.ob("C08.8", f, c, a is None or (isinstance(a, ast.Constant) and a.value is False),
                  f"{q}: the re-created target network copies the eval network's state (load_state_dict without assign=True)",
                  detail="assign=True replaces the target's parameters by the tensors of the state dict, i.e. by the storage of the online network: target == online from then on, "
                         "the soft update is a no-op",
                  construct=f"{q}: {short(c, 60)}")
    ck.floor("C08.8", k, 2, "load_state_dict calls re-creating shared networks")


# ------------------------------------------------------------------------------------------------ C08.6 (hook)
def _hook_reinstalls(ck: Check, repo: Repo, reg: AlgoRegistry) -> None:
    cls = reg.cls
    for m in cls.methods.values():
        tms = [c for c in calls_in(m.node) if last_attr(c) == "to_module" and c.args and dotted(c.args[0]).startswith("self.") and dotted(c.args[0])[5:] in reg.shared_attrs()]
        if not tms:
            continue
        cfg = CFG(m.node)
        for c in tms:
            n = cfg.node_of(c)
            ok = n is not None and cfg.postdominates(n, cfg.entry)
            ck.ob("C08.6", m, c, ok,
                  f"{cls.name}.{m.name}: on every path the target tensors are (re)installed into `{dotted(c.args[0])[5:]}` — the hook runs after clone, "
                  "load and mutation have replaced that module",
                  detail="a path returns without to_module(): the soft update then writes into tensors the (new) target module does not use")
            # the holder attribute must be bound to the TensorDict that was installed, on every path
            td = dotted(c.func.value)
            holders = [x for x in cfg.live_nodes() if x.kind == "stmt" and isinstance(x.ast, ast.Assign) and isinstance(x.ast.value, ast.Name)
                       and x.ast.value.id == td and dotted(x.ast.targets[0]).startswith("self.")]
            ck.ob("C08.6", m, c, bool(holders) and all(cfg.postdominates(h, cfg.entry) or _in_finally(m, h) for h in holders),
                  f"{cls.name}.{m.name}: the installed TensorDict is kept on the agent (for the soft update) on every path")


def _in_finally(fn: Fn, node) -> bool:
    for t in ast.walk(fn.node):
        if isinstance(t, ast.Try):
            for s in t.finalbody:
                if any(x is node.ast for x in ast.walk(s)):
                    return True
    return False
VARIANTS += [
    ("matd3-one-counter-for-all-agents", "agilerl/algorithms/matd3.py", "        self.learn_counter[agent_id] += 1\n        if self.learn_counter[agent_id] % self.policy_freq == 0:", "        self.learn_counter += 1\n        if self.learn_counter % self.policy_freq == 0:", "fire", "C08.9"),
    ("td3-critics-read-actions-after-noise-was-drawn-into-them", "agilerl/algorithms/td3.py", "        # Compute the Q values\n        q_value_1 = self.critic_1(states, actions)\n        q_value_2 = self.critic_2(states, actions)\n\n        with torch.no_grad():\n            next_actions = self.actor_target(next_states)\n            noise = actions.data.normal_(0, policy_noise)",
     "        with torch.no_grad():\n            next_actions = self.actor_target(next_states)\n            noise = actions.data.normal_(0, policy_noise)\n        q_value_1 = self.critic_1(states, actions)\n        q_value_2 = self.critic_2(states, actions)\n        with torch.no_grad():", "fire", "C08.10"),
    ("td3-noise-drawn-into-a-copy-ok", "agilerl/algorithms/td3.py", "            noise = actions.data.normal_(0, policy_noise)", "            noise = torch.empty_like(actions).normal_(0, policy_noise)", "silent", None),
]
VARIANTS += [
    ("rsnorm-n-step-batch-not-normalised", "agilerl/wrappers/agent.py", "        if n_experiences is not None and is_tensor_collection(n_experiences):\n            n_experiences[\"obs\"] = self.normalize_observation(n_experiences[\"obs\"])\n            n_experiences[\"next_obs\"] = self.normalize_observation(\n                n_experiences[\"next_obs\"]\n            )\n", "", "fire", "C08.12"),
    ("rsnorm-n-step-batch-next-obs-only", "agilerl/wrappers/agent.py", "            n_experiences[\"obs\"] = self.normalize_observation(n_experiences[\"obs\"])\n", "", "fire", "C08.12"),
]
# ---- round 4: soft-update call sites in a loop over a literal table of (eval, target) rows (one call per row)
_T3_UPDATES = "            self.soft_update(self.actor, self.actor_target)\n            self.soft_update(self.critic_1, self.critic_target_1)\n            self.soft_update(self.critic_2, self.critic_target_2)\n"
VARIANTS += [
    ("td3-soft-updates-as-table-loop-ok", _T3, _T3_UPDATES,
     "            for net, target in (\n                (self.actor, self.actor_target),\n                (self.critic_1, self.critic_target_1),\n                (self.critic_2, self.critic_target_2),\n            ):\n                self.soft_update(net, target)\n", "silent", None),
    ("td3-soft-updates-table-in-a-temporary-keyword-call-ok", _T3, _T3_UPDATES,
     "            table = [(self.actor_target, self.actor), (self.critic_target_1, self.critic_1), (self.critic_target_2, self.critic_2)]\n            for dst, src in table:\n                self.soft_update(target=dst, net=src)\n", "silent", None),
    ("td3-soft-update-table-crosses-the-critics", _T3, _T3_UPDATES,
     "            for net, target in (\n                (self.actor, self.actor_target),\n                (self.critic_1, self.critic_target_1),\n                (self.critic_2, self.critic_target_1),\n            ):\n                self.soft_update(net, target)\n", "fire", "C08.4"),
    ("td3-soft-update-table-misses-a-critic", _T3, _T3_UPDATES,
     "            for net, target in (\n                (self.actor, self.actor_target),\n                (self.critic_1, self.critic_target_1),\n            ):\n                self.soft_update(net, target)\n", "fire", "C08.4"),
    ("td3-soft-update-table-rows-reversed", _T3, _T3_UPDATES,
     "            for net, target in (\n                (self.actor_target, self.actor),\n                (self.critic_target_1, self.critic_1),\n                (self.critic_target_2, self.critic_2),\n            ):\n                self.soft_update(net, target)\n", "fire", "C08.4"),
]
