"""C04 — mutations reuse learned weights; an unchanged architecture computes the same."""
from __future__ import annotations

import ast
from typing import Dict, List, Optional, Set, Tuple

from ..cfg import CFG, Node
from ..core import AnalysisError, Cls, Fn, Repo, call_name, calls_in, const_value, dotted, get_kw, last_attr, short, walk_no_nested
from ..domains import conjuncts
from ..report import Check
from ..terms import Poly, TermBuilder, mentions, single_atom
from ..util import self_attr_stores

MB = "agilerl.modules.base"
PRESERVERS = ("preserve_parameters", "shrink_preserve_parameters")


def run(ck: Check, repo: Repo) -> None:
    ck.not_decided += ["equality of outputs after a no-op mutation or a clone (runtime values)",
                       "that parameter names stay stable across re-creation (depends on the layer builders)"]
    ck.trusted += ["Tensor basic slicing assignment copies values element-wise", "nn.Module.named_parameters yields (name, Parameter) for registered parameters",
                   "nn.Module.train / eval / to / requires_grad_ return the module they are called on"]
    ck.rule("C04.1", "preserve_parameters: for a parameter present in both networks, equal sizes copy the whole tensor; otherwise the common "
                     "range slice(0, min(old, new)) per dimension is copied with the same index on both sides, old -> new; nothing else filters parameters out")
    ck.rule("C04.2", "shrink_preserve_parameters: 1-D [:min_0] both sides; >=2-D [:min_0, :min_1] both sides; min_k = min(old_size[k], new_size[k])")
    ck.rule("C04.3", "every re-creation site calls a preserve function with old = the attribute being replaced, new = the network built in this call, "
                     "and stores the result back into that same attribute")
    ck.rule("C04.4", "a shared network re-created after a mutation loads the state dict of the eval network it shadows (C02.3 mechanism)")
    ck.rule("C04.5", "EvolvableModule.clone loads the parent's state dict; a swallowed shape error is acceptable only for classes whose "
                     "constructor description is faithful (C03.4)")
    ck.rule("C04.6", "every override of clone() on a module passes every constructor parameter from self and transfers the parameters the class creates itself")
    ck.rule("C04.7", "an unchanged architecture is rebuilt as it was constructed: the builder call in recreate_network has the same keyword set and values "
                     "as the one in __init__ (activation, normalisation, noise flags ... decide the function computed by the carried-over weights)")
    from .c03 import _build_agreement
    _build_agreement(ck, repo, "C04.7")
    ck.rule("C04.8", "cloning a network rebuilds the same architecture: a config default that EvolvableNetwork.__init__ derives from a possibly absent key resolves "
                     "identically on the description (net_config) from which the clone is built")
    from ._c01_extra import description_idempotent
    description_idempotent(ck, repo, "C04.8")
    ck.rule("C04.9", "network heads are rebuilt under the names they were built with: build_network_head (construction) and recreate_network (rebuild) call the "
                     "head builder with the same keyword values — preserve_parameters matches old and new parameters by key, and the key starts with that name")
    _head_agreement(ck, repo)
    ck.rule("C04.10", "a description property that can answer from the live sub-modules does so whenever they exist: the stored constructor argument is returned only "
                      "while the sub-modules have not been built yet")
    _live_description(ck, repo)
    ck.rule("C04.11", "a rebuild does not touch the live weights before they are carried over: no function that recreate_network runs re-initialises "
                      "parameters reached through `self` (only freshly built, still local modules may be initialised)")
    _no_reinit_of_live(ck, repo)
    from ._c04_r3 import run_r3
    run_r3(ck, repo)
    pp = repo.fn(MB, "EvolvableModule.preserve_parameters")
    sp = repo.fn("agilerl.modules.cnn", "EvolvableCNN.shrink_preserve_parameters")
    _preserve_common(ck, repo, pp, "C04.1")
    _preserve_common(ck, repo, sp, "C04.2")
    _preserve_slices(ck, repo, pp)
    _shrink_slices(ck, repo, sp)
    _sites(ck, repo)
    _reinit(ck, repo)
    _clone(ck, repo)
    _clone_overrides(ck, repo)


def _through(cfg: CFG, e: ast.AST, n: Node) -> Tuple[ast.AST, Node]:
    """e with single-definition temporaries looked through: a local that exactly one plain binding reaches at n stands for the
    expression it was bound to (returned with the node of that binding, where its own names have to be read)."""
    for _ in range(8):
        if not isinstance(e, ast.Name):
            break
        defs = cfg.defs_reaching(n, e.id)
        if len(defs) != 1 or defs[0].kind != "stmt":
            break
        v = cfg.value_of_def(defs[0], e.id)
        if v is None or getattr(v, "_unpack_len", None) is not None:
            break
        e, n = v, defs[0]
    return e, n


class _Roles:
    """The values of a preserve function, identified by what they are bound to (never by the spelling of a local, never by the
    syntactic form of the lookup).  Only the two parameters (old network, new network) are taken by position; every other
    expression is classified at the CFG node where it is read, through its reaching definitions:
      key / new   : the two targets of the loop `for K, P in <new>.named_parameters()`
      table       : dict(<old>.named_parameters())  (also the equivalent dict comprehension)
      old         : table[key]  /  table.get(key)  — the same-named old parameter (`.data` of a parameter keeps its role)
      old_size    : <old>[.data].size() / .shape
      new_size    : <new>[.data].size() / .shape
    A local has a role when every definition reaching the use binds it to a value of that role (temporaries are looked through)."""

    CANON = {"table": "old_net_dict", "old": "old_param", "new": "param", "old_size": "old_size", "new_size": "new_size", "key": "key"}

    def __init__(self, fn: Fn, cfg: CFG):
        self.cfg = cfg
        self.old_p, self.new_p = fn.named_params[0], fn.named_params[1]
        self.loop: Optional[ast.For] = None
        for n in cfg.live_nodes():
            if n.kind == "for" and self.loop is None and self._named_parameters_of(n.ast.iter, n, self.new_p) \
                    and isinstance(n.ast.target, ast.Tuple) and len(n.ast.target.elts) == 2 and all(isinstance(x, ast.Name) for x in n.ast.target.elts):
                self.loop = n.ast

    def _named_parameters_of(self, e: ast.AST, n: Node, net: str) -> bool:
        """<net>.named_parameters()  (the network possibly through a temporary)"""
        return isinstance(e, ast.Call) and isinstance(e.func, ast.Attribute) and e.func.attr == "named_parameters" and not e.args and not e.keywords \
            and dotted(_through(self.cfg, e.func.value, n)[0]) == net

    def kind(self, e: Optional[ast.AST], n: Node, _d: int = 0) -> Optional[str]:
        """The role of expression e read at node n (None: no role)."""
        if e is None or _d > 12:
            return None
        if isinstance(e, ast.Name):
            kinds: Set[Optional[str]] = set()
            for d in self.cfg.defs_reaching(n, e.id):
                if d.kind == "for" and self.loop is not None and d.ast is self.loop:
                    k, p = self.loop.target.elts
                    kinds.add("key" if e.id == k.id else "new" if e.id == p.id else None)
                elif d.kind == "stmt":
                    v = self.cfg.value_of_def(d, e.id)
                    kinds.add(self.kind(v, d, _d + 1) if v is not None and getattr(v, "_unpack_len", None) is None else None)
                else:
                    kinds.add(None)
            return next(iter(kinds)) if len(kinds) == 1 else None
        if isinstance(e, ast.Attribute) and e.attr == "data":
            k = self.kind(e.value, n, _d + 1)
            return k if k in ("old", "new") else None
        if isinstance(e, ast.Call) and call_name(e) == "dict" and len(e.args) == 1 and not e.keywords:
            return "table" if self._named_parameters_of(_through(self.cfg, e.args[0], n)[0], n, self.old_p) else None
        if isinstance(e, ast.DictComp) and len(e.generators) == 1 and not e.generators[0].ifs and self._named_parameters_of(e.generators[0].iter, n, self.old_p):
            t = e.generators[0].target
            ok = isinstance(t, ast.Tuple) and len(t.elts) == 2 and all(isinstance(x, ast.Name) for x in t.elts) \
                and dotted(e.key) == t.elts[0].id and dotted(e.value) == t.elts[1].id
            return "table" if ok else None
        if isinstance(e, ast.Subscript):
            # table[key]
            if self.kind(e.value, n, _d + 1) == "table" and self.kind(e.slice, n, _d + 1) == "key":
                return "old"
            return None
        if isinstance(e, ast.Call) and isinstance(e.func, ast.Attribute) and e.func.attr == "get" and not e.keywords and 1 <= len(e.args) <= 2:
            # table.get(key) / table.get(key, None): the same entry, None standing for 'absent'
            if self.kind(e.func.value, n, _d + 1) == "table" and self.kind(e.args[0], n, _d + 1) == "key" \
                    and (len(e.args) == 1 or (isinstance(e.args[1], ast.Constant) and e.args[1].value is None)):
                return "old"
            return None
        b = self._sized(e)
        if b is not None:
            return {"old": "old_size", "new": "new_size"}.get(self.kind(b, n, _d + 1))
        return None

    def has_table(self) -> bool:
        """some live binding holds the lookup table of the OLD network's parameters"""
        return any(n.kind == "stmt" and isinstance(n.ast, (ast.Assign, ast.AnnAssign)) and self.kind(n.ast.value, n) == "table" for n in self.cfg.live_nodes())

    @staticmethod
    def _sized(v: ast.AST) -> Optional[ast.AST]:
        """X for X.size() / X.data.size() / X.shape / X.data.shape"""
        if isinstance(v, ast.Call) and isinstance(v.func, ast.Attribute) and v.func.attr == "size" and not v.args and not v.keywords:
            b = v.func.value
        elif isinstance(v, ast.Attribute) and v.attr == "shape":
            b = v.value
        else:
            return None
        if isinstance(b, ast.Attribute) and b.attr == "data":
            b = b.value
        return b

    def is_rank_of_param(self, e: ast.AST, n: Node) -> bool:
        """len(param[.data].size()) / len(param.shape) / param[.data].dim() / param[.data].ndim"""
        b = None
        if isinstance(e, ast.Call) and call_name(e) == "len" and len(e.args) == 1:
            return self.kind(e.args[0], n) == "new_size"
        if isinstance(e, ast.Call) and isinstance(e.func, ast.Attribute) and e.func.attr == "dim" and not e.args and not e.keywords:
            b = e.func.value
        elif isinstance(e, ast.Attribute) and e.attr == "ndim":
            b = e.value
        return b is not None and self.kind(b, n) == "new"

    def sizes_equal(self, a: ast.AST, n: Node) -> Optional[bool]:
        """True for `old_size == new_size`, False for `old_size != new_size` (either order, sizes named or written out), None otherwise."""
        if isinstance(a, ast.Compare) and len(a.ops) == 1 and isinstance(a.ops[0], (ast.Eq, ast.NotEq)) and self.is_size_pair([a.left, a.comparators[0]], n):
            return isinstance(a.ops[0], ast.Eq)
        return None

    def is_presence_test(self, a: ast.AST, n: Node) -> bool:
        """`<old entry> is None` / `is not None`: the lookup result consulted for 'is there a parameter of that name' (what `key in table` asks)."""
        if isinstance(a, ast.Compare) and len(a.ops) == 1 and isinstance(a.ops[0], (ast.Is, ast.IsNot)):
            l, r = a.left, a.comparators[0]
            if isinstance(l, ast.Constant) and l.value is None:
                l, r = r, l
            return isinstance(r, ast.Constant) and r.value is None and self.kind(l, n) == "old" and not isinstance(l, ast.Attribute)
        return False

    def is_name_or_shape_test(self, a: ast.AST, n: Node) -> bool:
        """The conjunct consults the old lookup table (membership, or the looked-up entry compared with None), one of the two sizes,
        or the rank of the new parameter: these are the filters 'by name and shape' the property allows."""
        if self.is_presence_test(a, n):
            return True
        for x in ast.walk(a):
            if isinstance(x, (ast.Name, ast.Call, ast.Attribute)) and self.kind(x, n) in ("table", "old_size", "new_size"):
                return True
            if self.is_rank_of_param(x, n):
                return True
        return False

    def is_size_pair(self, es: List[ast.AST], n: Node) -> bool:
        return len(es) == 2 and {self.kind(es[0], n), self.kind(es[1], n)} == {"old_size", "new_size"}

    def filter_text(self, a: ast.AST, pol: bool, n: Node) -> str:
        """The conjunct as it holds on the guarded path, in one spelling: a false membership / identity / equality test is written
        with the negated operator (`'x' in k` known false -> `'x' not in k`), any other false conjunct as `not <conjunct>`."""
        from ..domains import negate_op
        if not pol and isinstance(a, ast.Compare) and len(a.ops) == 1 and isinstance(a.ops[0], (ast.In, ast.NotIn, ast.Is, ast.IsNot, ast.Eq, ast.NotEq)):
            a, pol = ast.copy_location(ast.Compare(left=a.left, ops=[negate_op(a.ops[0])()], comparators=a.comparators), a), True
        return ("" if pol else "not ") + self.canonical_text(a, n)

    def canonical_text(self, a: ast.AST, n: Node) -> str:
        """Text of a with every role-bearing local written under its role's name (so that reports and the construct key of a
        finding do not depend on how the function spells its locals; identity on the tree the names were taken from)."""
        import copy
        m: Dict[str, str] = {}
        for x in ast.walk(a):
            if isinstance(x, ast.Name):
                k = self.kind(x, n)
                if k is not None:
                    m[x.id] = self.CANON[k]
        t = copy.deepcopy(a)
        for x in ast.walk(t):
            if isinstance(x, ast.Name) and x.id in m:
                x.id = m[x.id]
        return ast.unparse(t)


def _preserve_common(ck: Check, repo: Repo, fn: Fn, rule: str) -> None:
    """Structure shared by both preserve functions."""
    params = fn.named_params
    old_p, new_p = params[0], params[1]
    cfg = CFG(fn.node)
    tb = TermBuilder(repo, fn, cfg=cfg, depth=0)
    roles = _Roles(fn, cfg)
    all_loops = [n for n in cfg.live_nodes() if n.kind == "for"]
    loops = [n for n in all_loops if isinstance(n.ast.iter, ast.Call) and last_attr(n.ast.iter) == "named_parameters"]
    ok = len(loops) == 1 and dotted(_through(cfg, loops[0].ast.iter.func.value, loops[0])[0]) == new_p
    ck.ob(rule, fn, loops[0].ast.iter if loops else fn.node, ok, f"{fn.name}: iterates (once) over the parameters of the NEW network")
    in_param_loop = {id(x) for l in loops for x in ast.walk(l.ast)}
    ck.ob(rule, fn, fn.node, roles.has_table(), f"{fn.name}: looks old parameters up by name in the OLD network", construct=f"{fn.name}: old lookup table")
    rets = [n for n in cfg.live_nodes() if n.kind == "stmt" and isinstance(n.ast, ast.Return)]
    ck.ob(rule, fn, rets[0].ast if rets else fn.node, bool(rets) and all(_is_net(cfg, r.ast.value, r, new_p) for r in rets), f"{fn.name}: returns the new network")
    # whole-tensor copy when sizes are equal
    whole = [n for n in cfg.live_nodes() if n.kind == "stmt" and isinstance(n.ast, ast.Assign) and isinstance(n.ast.targets[0], ast.Attribute)
             and n.ast.targets[0].attr == "data" and not isinstance(n.ast.targets[0].value, ast.Subscript) and id(n.ast) in in_param_loop]
    ok = False
    for n in whole:
        lt, rt = tb.term(n.ast.targets[0].value, n), tb.term(n.ast.value, n)
        g = [(roles.sizes_equal(a, t), pol) for gg, pol, t in cfg.guards_at(n) for a, pol in conjuncts(gg, pol)]
        eq = any(same is not None and same == pol for same, pol in g)
        ok = _from(tb, lt, new_p) and _from(tb, rt, old_p) and not _from(tb, rt, new_p) and eq
        ck.ob(rule, fn, n.ast, ok, f"{fn.name}: equal sizes -> the new parameter receives the old parameter's data (old -> new)")
    ck.ob(rule, fn, fn.node, bool(whole), f"{fn.name}: has a whole-tensor copy for unchanged shapes", construct=f"{fn.name}: whole copy")
    # buffers: the layer builders create modules whose function depends on registered buffers (BatchNorm running statistics)
    users = _buffer_layer_sites(repo)
    ck.note("C04_buffer_layers", users[:8])
    # both obligations hold when the function itself does it, or when it hands both networks to a function of the package that does
    # (a helper shared by the two preserve functions, defined in another module: followed interprocedurally, parameters bound to arguments)
    scopes = [(cfg, tb, old_p, new_p, None)] + _delegates(repo, fn, cfg, old_p, new_p)
    if users:
        okb, whyb, anchor = False, f"{fn.name} iterates over named_parameters() only", None
        for scfg, stb, sold, snew, call in scopes:
            if okb:
                break
            okb, why1, a1 = _buffers_carried_over(scfg, stb, sold, snew, fn.name if call is None else f"{call_name(call)} (called by {fn.name})")
            if a1 is not None and (anchor is None or okb):
                whyb, anchor = why1, a1 if call is None else call
        ck.ob(rule, fn, anchor if anchor is not None else fn.node, okb,
              f"{fn.name}: buffers of unchanged shape (BatchNorm running statistics ...) are carried over from the old network",
              detail=whyb + f"; the layer builders create buffered layers ({users[0]} ...): after a mutation that leaves the architecture unchanged the rebuilt "
                     "network would start from fresh running statistics and compute a different function in eval mode",
              construct=f"{fn.name}: buffers carried over")
    # train / eval mode: a freshly built network is in training mode; the one it replaces may be in evaluation mode (BatchNorm, dropout, noisy layers)
    mode = any(_mode_carried_over(scfg, sold, snew) for scfg, _, sold, snew, _ in scopes)
    ck.ob(rule, fn, fn.node, mode, f"{fn.name}: the rebuilt network is put into the train / eval mode of the network it replaces",
          detail="the new network stays in training mode: after module.eval() a mutation that leaves the architecture unchanged makes a BatchNorm CNN use batch statistics "
                 "again (eval outputs differed by 0.56 in the probe)",
          construct=f"{fn.name}: mode carried over")
    wextra: Set[str] = set()
    for n in whole:
        for gg, pol, t in cfg.guards_at(n):
            for a, apol in conjuncts(gg, pol):
                if roles.is_name_or_shape_test(a, t):
                    continue
                wextra.add(roles.filter_text(a, apol, t))
    for e in sorted(wextra) or [None]:
        ck.ob(rule, fn, whole[0].ast if whole else fn.node, e is None,
              f"{fn.name}: a parameter whose shape did not change is carried over whatever its name",
              detail=f"the whole-tensor copy is additionally filtered by `{e}`: parameters it excludes are re-initialised by every mutation even though "
                     "their shape is unchanged, so a mutation that leaves the architecture unchanged no longer computes the same function",
              construct=f"{fn.name}: whole-copy filter {e}")
    # filters other than `key in old` and the size comparison
    sliced = [n for n in cfg.live_nodes() if n.kind == "stmt" and isinstance(n.ast, ast.Assign) and isinstance(n.ast.targets[0], ast.Subscript) and id(n.ast) in in_param_loop]
    extra: Set[str] = set()
    for n in sliced:
        for gg, pol, t in cfg.guards_at(n):
            for a, apol in conjuncts(gg, pol):
                if roles.is_name_or_shape_test(a, t):
                    continue
                extra.add(roles.filter_text(a, apol, t))
    for e in sorted(extra) or [None]:
        ck.ob(rule, fn, fn.node, e is None,
              f"{fn.name}: no filter other than name and shape decides whether a resized parameter keeps its common range",
              detail=f"resized parameters are additionally filtered by `{e}`: a matching parameter whose size changed is left freshly initialised "
                     "(its overlapping weights are not carried over)",
              construct=f"{fn.name}: extra filter {e}")


def _buffers_carried_over(cfg: CFG, tb: TermBuilder, old_p: str, new_p: str, who: str) -> Tuple[bool, str, Optional[ast.AST]]:
    """Some loop over the buffers of the network held by parameter new_p stores into them a value derived from the network held by old_p.
    Returns (holds, reason when it does not, the loop's iterable or None when there is no such loop)."""
    bl = [n for n in cfg.live_nodes() if n.kind == "for" and isinstance(n.ast.iter, ast.Call) and last_attr(n.ast.iter) in ("named_buffers", "state_dict")
          and dotted(n.ast.iter.func.value) == new_p] + \
         [n for n in cfg.live_nodes() if n.kind == "for" and any(isinstance(c, ast.Call) and last_attr(c) == "named_buffers" and dotted(c.func.value) == new_p for c in ast.walk(n.ast.iter))]
    okb = False
    whyb = f"{who} iterates over named_parameters() only"
    for l in bl:
        tvars = {x.id for x in ast.walk(l.ast.target) if isinstance(x, ast.Name)}
        for st in ast.walk(l.ast):
            if isinstance(st, ast.Assign) and isinstance(st.targets[0], (ast.Attribute, ast.Subscript)):
                tgt_names = {x.id for x in ast.walk(st.targets[0]) if isinstance(x, ast.Name)}
                node = cfg.node_of(st)
                if node is None or not (tgt_names & tvars):
                    continue
                rt = tb.term(st.value, node)
                if _from(tb, rt, old_p) and not _from(tb, rt, new_p):
                    okb = True
            elif isinstance(st, ast.Call) and last_attr(st) == "copy_" and st.args:
                node = cfg.node_of(st)
                base_names = {x.id for x in ast.walk(st.func.value) if isinstance(x, ast.Name)}
                if node is not None and base_names & tvars and _from(tb, tb.term(st.args[0], node), old_p):
                    okb = True
        if not okb:
            whyb = f"{who} iterates over the new network's buffers but stores nothing derived from the old network into them"
    return okb, whyb, (bl[0].ast.iter if bl else None)


def _callee(repo: Repo, fn: Fn, cfg: CFG, c: ast.Call, n: Node) -> Optional[Fn]:
    """The function of the package that the call denotes, when its parameters are bound one to one to the arguments: a module-level function
    called by its (imported or local) name, or a static method called through its class `Cls.f(...)`; None otherwise."""
    f = c.func
    if isinstance(f, ast.Name) and not cfg.defs_reaching(n, f.id):
        g = repo.resolve(fn.mod, f.id)
        return g if isinstance(g, Fn) and g.cls is None else None
    if isinstance(f, ast.Attribute) and isinstance(f.value, ast.Name) and not cfg.defs_reaching(n, f.value.id):
        k = repo.resolve(fn.mod, f.value.id)
        g = repo.find_method(k, f.attr) if isinstance(k, Cls) else None
        return g if g is not None and g.has_decorator("staticmethod") else None
    return None


def _delegates(repo: Repo, fn: Fn, cfg: CFG, old_p: str, new_p: str, _depth: int = 0) -> List[Tuple[CFG, TermBuilder, str, str, ast.Call]]:
    """Calls, executed by a live statement of fn, of a function of the package (a module-level function resolved through the module's own
    definitions and imports, or a static method named through its class) that receives BOTH networks: one parameter of the callee is bound to the old network and another one to the new network
    (positionally or by keyword, either argument possibly through a temporary).  For each: the callee's CFG and terms, the names of the two
    callee parameters standing for the old / new network, and the call (callees of callees are followed, two levels)."""
    out: List[Tuple[CFG, TermBuilder, str, str, ast.Call]] = []
    for c in calls_in(fn.node):
        n = cfg.node_of(c)
        if n is None or n not in cfg.live_nodes():
            continue
        g = _callee(repo, fn, cfg, c, n)
        if g is None or g.node is fn.node or isinstance(g.node, ast.AsyncFunctionDef):
            continue
        a = g.node.args
        if a.vararg or a.kwarg or any(isinstance(x, ast.Starred) for x in c.args) or any(k.arg is None for k in c.keywords):
            continue
        names = [x.arg for x in a.posonlyargs + a.args]
        bound: Dict[str, ast.AST] = dict(zip(names, c.args))
        if len(c.args) > len(names):
            continue
        for k in c.keywords:
            if k.arg in bound or k.arg not in names + [x.arg for x in a.kwonlyargs]:
                bound = {}
                break
            bound[k.arg] = k.value
        olds = [p for p, v in bound.items() if _is_net(cfg, v, n, old_p)]
        news = [p for p, v in bound.items() if _is_net(cfg, v, n, new_p)]
        if len(olds) != 1 or len(news) != 1:
            continue
        gcfg = CFG(g.node)
        out.append((gcfg, TermBuilder(repo, g, cfg=gcfg, depth=0), olds[0], news[0], c))
        if _depth < 1:
            out += [(x[0], x[1], x[2], x[3], c) for x in _delegates(repo, g, gcfg, olds[0], news[0], _depth + 1)]
    return out


_BUFFERED = ("BatchNorm1d", "BatchNorm2d", "BatchNorm3d", "InstanceNorm2d", "InstanceNorm3d")


def _buffer_layer_sites(repo: Repo) -> List[str]:
    """Places where the repository's layer builders mention a torch layer type that registers buffers."""
    out = []
    for modname in ("agilerl.utils.evolvable_networks", "agilerl.modules.custom_components"):
        m = repo.mods.get(modname)
        if m is None:
            continue
        for n in ast.walk(m.tree):
            if isinstance(n, ast.Attribute) and n.attr in _BUFFERED and dotted(n.value) == "nn":
                out.append(f"{m.rel}:{n.lineno} nn.{n.attr}")
    return out


def _is_net(cfg: CFG, e: Optional[ast.AST], n: Node, net: str) -> bool:
    """e denotes the network held by parameter `net`: the parameter itself, a temporary bound to it, or the result of one of the
    nn.Module methods that return the module they are called on."""
    for _ in range(4):
        if e is None:
            return False
        e, n = _through(cfg, e, n)
        if isinstance(e, ast.Call) and isinstance(e.func, ast.Attribute) and e.func.attr in ("train", "eval", "to", "requires_grad_"):
            e = e.func.value
            continue
        break
    return isinstance(e, ast.Name) and e.id == net and all(d.kind == "entry" for d in cfg.defs_reaching(n, net))


def _mode_carried_over(cfg: CFG, old_p: str, new_p: str) -> bool:
    """Some live statement puts the new network into the mode of the old one: `<new>.train(<old>.training)` (positionally or as `mode=`,
    either operand possibly through a temporary), or — the new network being freshly built, hence in training mode —
    `<new>.eval()` / `<new>.train(False)` executed exactly when `<old>.training` is false."""
    for c in calls_in(cfg.fn):
        n = cfg.node_of(c)
        if n is None or not isinstance(c.func, ast.Attribute):
            continue
        if dotted(_through(cfg, c.func.value, n)[0]) != new_p or any(k.arg != "mode" for k in c.keywords) or len(c.args) + len(c.keywords) > 1:
            continue
        arg = get_kw(c, "mode", 0)
        if c.func.attr == "train" and arg is not None and dotted(_through(cfg, arg, n)[0]) == f"{old_p}.training":
            return True
        if (c.func.attr == "eval" and arg is None) or (c.func.attr == "train" and const_value(arg) is False):
            g = [(dotted(_through(cfg, a, t)[0]), pol) for gg, gpol, t in cfg.guards_at(n) for a, pol in conjuncts(gg, gpol)]
            if g == [(f"{old_p}.training", False)]:
                return True
    return False


def _from(tb: TermBuilder, p: Poly, param: str, _d: int = 0) -> bool:
    """Does the value derive from `param`?  (index expressions of subscripts are not followed: a key taken from the
    new network used to look a value up in the old network's table does not make the value 'new')"""
    if _d > 20:
        return False
    for k in p.atoms():
        a = tb.atoms.get(k)
        if a is None:
            continue
        if a.kind == "param" and a.name == param:
            return True
        # a mapping lookup m[k] / m.get(k[, default]) takes its value from the mapping (and the default), not from the key
        subs = a.sub[:1] if a.kind == "idx" else a.sub[:1] + a.sub[2:] if a.kind == "call" and a.name == "get" and isinstance(a.node, ast.Call) \
            and isinstance(a.node.func, ast.Attribute) and 2 <= len(a.sub) <= 3 and not a.node.keywords else a.sub
        if any(_from(tb, s_, param, _d + 1) for s_ in subs):
            return True
    return False


def _preserve_slices(ck: Check, repo: Repo, fn: Fn) -> None:
    cfg = CFG(fn.node)
    tb = TermBuilder(repo, fn, cfg=cfg, depth=0)
    old_p, new_p = fn.named_params[0], fn.named_params[1]
    roles = _Roles(fn, cfg)
    sliced = [n for n in cfg.live_nodes() if n.kind == "stmt" and isinstance(n.ast, ast.Assign) and isinstance(n.ast.targets[0], ast.Subscript)]
    ck.floor("C04.1", len(sliced), 1, "sliced copy in preserve_parameters", fn=fn)
    for n in sliced:
        t = n.ast.targets[0]
        v, vn = _through(cfg, n.ast.value, n)  # the value read from the old tensor, directly or through a temporary
        ok = isinstance(v, ast.Subscript) and _same_index(cfg, t.slice, n, v.slice, vn)
        ck.ob("C04.1", fn, n.ast, ok, "the same index expression is used on the new and the old tensor", detail=f"[{short(t.slice, 40)}] vs [{short(getattr(v, 'slice', v), 40)}]")
        lt, rt = tb.term(t.value, n), tb.term(v.value if isinstance(v, ast.Subscript) else v, vn)
        ck.ob("C04.1", fn, n.ast, _from(tb, lt, new_p) and not _from(tb, lt, old_p) and _from(tb, rt, old_p) and not _from(tb, rt, new_p),
              "values flow from the old network's parameter into the new network's parameter")
        # the index: tuple(slice(0, min(o, n)) for o, n in zip(old_size, new_size)), written in place or bound to a local first
        d, dn = _through(cfg, t.slice, n)
        if isinstance(d, ast.Name):
            d = None
        gen = None
        if isinstance(d, ast.Call) and call_name(d) == "tuple" and d.args and isinstance(d.args[0], (ast.GeneratorExp, ast.ListComp)):
            gen = d.args[0]
        ok = gen is not None and len(gen.generators) == 1 and isinstance(gen.generators[0].iter, ast.Call) and call_name(gen.generators[0].iter) == "zip"
        if ok:
            g = gen.generators[0]
            tv = [x.id for x in g.target.elts] if isinstance(g.target, ast.Tuple) else []
            e = gen.elt
            ok = roles.is_size_pair(list(g.iter.args), dn) and len(tv) == 2 and isinstance(e, ast.Call) and call_name(e) == "slice" and len(e.args) == 2 \
                and const_value(e.args[0]) == 0 and isinstance(e.args[1], ast.Call) and call_name(e.args[1]) == "min" and {dotted(a) for a in e.args[1].args} == set(tv)
        ck.ob("C04.1", fn, d if d is not None else n.ast, ok, "the index is slice(0, min(old, new)) in every dimension (zip of both size tuples)")
    # sizes are those of the matching parameters: wherever the two sizes are compared (or zipped into the index) one operand is the size of the
    # new parameter of this iteration and the other the size of the old network's entry looked up under the same key
    pairs = [roles.is_size_pair([x.left, x.comparators[0]], n) for n in cfg.live_nodes() if n.kind in ("stmt", "test") for x in [n.ast] + list(walk_no_nested(n.ast))
             if isinstance(x, ast.Compare) and len(x.ops) == 1 and isinstance(x.ops[0], (ast.Eq, ast.NotEq))
             and any(roles.kind(y, n) in ("old_size", "new_size") for y in (x.left, x.comparators[0]))]
    pairs += [roles.is_size_pair(list(x.args), n) for n in cfg.live_nodes() if n.kind == "stmt" for x in walk_no_nested(n.ast)
              if isinstance(x, ast.Call) and call_name(x) == "zip" and len(x.args) == 2]
    ck.ob("C04.1", fn, fn.node, bool(pairs) and all(pairs),
          "old_size / new_size are the sizes of the same-named old and new parameter", construct="size sources")


def _same_index(cfg: CFG, a: ast.AST, an: Node, b: ast.AST, bn: Node) -> bool:
    """Both subscripts use the same index: the same text read at the same statement, or two locals / expressions that denote the same
    single binding (temporaries looked through)."""
    if an is bn and ast.unparse(a) == ast.unparse(b):
        return True
    (ra, rna), (rb, rnb) = _through(cfg, a, an), _through(cfg, b, bn)
    if isinstance(ra, ast.Name) or isinstance(rb, ast.Name):
        return isinstance(ra, ast.Name) and isinstance(rb, ast.Name) and ra.id == rb.id and cfg.defs_reaching(rna, ra.id) == cfg.defs_reaching(rnb, rb.id)
    return ra is rb


# one value an index expression can take: (per-dimension index expressions with the node where each is read — None for the generic form,
#   conditions (test, polarity, test node) under which the index has this value, generic form (generator, node where it is read) or None)
_IndexCase = Tuple[Optional[List[Tuple[ast.AST, Node]]], List[Tuple[ast.AST, bool, Node]], Optional[Tuple[ast.AST, Node]]]


def _is_slice_object(e: ast.AST) -> bool:
    return isinstance(e, ast.Slice) or (isinstance(e, ast.Call) and call_name(e) == "slice")


def _reach_condition(cfg: CFG, d: Node, defs: List[Node], name: str, n: Node) -> Optional[List[Tuple[ast.AST, bool, Node]]]:
    """Of the definitions `defs` of `name` reaching n, d is the one read at n exactly on the paths described by the result: the tests known
    at d (beyond those known at n anyway), and — for every other definition that overwrites d on its way to n — the negation of the single
    test under which that one is executed.  None: not expressible that simply."""
    at_n = {(t.id, pol) for _, pol, t in cfg.guards_at(n)}
    extra = lambda x: [(a, apol, t) for g, pol, t in cfg.guards_at(x) if (t.id, pol) not in at_n for a, apol in conjuncts(g, pol)]  # noqa: E731
    out = extra(d)
    for o in defs:
        # (a definition that dominates d was executed before d: it can be met again only through a loop's back edge, in a later iteration)
        if o is d or d not in cfg.defs_reaching(o, name) or cfg.dominates(o, d):
            continue
        over = [c for c in extra(o) if not any(c[0] is x[0] and c[1] == x[1] for x in out)]
        if len(over) != 1:
            return None
        out = out + [(over[0][0], not over[0][1], over[0][2])]
    return out


def _index_cases(cfg: CFG, e: ast.AST, n: Node, _d: int = 0) -> Optional[List[_IndexCase]]:
    """The values of the index expression e read at node n, by cases: a tuple display / a single slice; tuples concatenated with `+` / `+=`;
    a conditional expression; a local, through ALL its reaching definitions (each with the condition under which it is the one read);
    `tuple(<generator>)[:2]` (generic form: one entry per dimension, the first two kept).  None: not understood."""
    if _d > 8:
        return None
    if isinstance(e, ast.Tuple):
        return None if any(isinstance(x, ast.Starred) for x in e.elts) else [([(x, n) for x in e.elts], [], None)]
    if _is_slice_object(e):
        return [([(e, n)], [], None)]
    if isinstance(e, ast.BinOp) and isinstance(e.op, ast.Add):
        return _concat_cases(_index_cases(cfg, e.left, n, _d + 1), _index_cases(cfg, e.right, n, _d + 1))
    if isinstance(e, ast.IfExp):
        b, o = _index_cases(cfg, e.body, n, _d + 1), _index_cases(cfg, e.orelse, n, _d + 1)
        if b is None or o is None:
            return None
        return [(x[0], x[1] + [(a, p, n) for a, p in conjuncts(e.test, True)], x[2]) for x in b] + \
               [(x[0], x[1] + [(a, p, n) for a, p in conjuncts(e.test, False)], x[2]) for x in o]
    if isinstance(e, ast.Subscript) and isinstance(e.slice, ast.Slice) and e.slice.step is None and const_value(e.slice.upper) == 2 \
            and (e.slice.lower is None or const_value(e.slice.lower) == 0):
        v, vn = _through(cfg, e.value, n)
        if isinstance(v, ast.Call) and call_name(v) == "tuple" and len(v.args) == 1 and not v.keywords and isinstance(v.args[0], (ast.GeneratorExp, ast.ListComp)):
            return [(None, [], (v.args[0], vn))]
        inner = _index_cases(cfg, v, vn, _d + 1)
        return None if inner is None or any(x[0] is None for x in inner) else [(x[0][:2], x[1], None) for x in inner]
    if isinstance(e, ast.Name):
        defs = cfg.defs_reaching(n, e.id)
        out: List[_IndexCase] = []
        for d in defs:
            if d.kind != "stmt":
                return None
            if isinstance(d.ast, ast.AugAssign):
                if not (isinstance(d.ast.op, ast.Add) and isinstance(d.ast.target, ast.Name) and d.ast.target.id == e.id):
                    return None
                cs = _concat_cases(_index_cases(cfg, d.ast.target, d, _d + 1), _index_cases(cfg, d.ast.value, d, _d + 1))
            else:
                v = cfg.value_of_def(d, e.id)
                cs = None if v is None or getattr(v, "_unpack_len", None) is not None else _index_cases(cfg, v, d, _d + 1)
            if cs is None:
                return None
            if len(defs) > 1:
                cond = _reach_condition(cfg, d, defs, e.id, n)
                if cond is None:
                    return None
                cs = [(x[0], x[1] + cond, x[2]) for x in cs]
            out += cs
        return out or None
    return None


def _concat_cases(l: Optional[List[_IndexCase]], r: Optional[List[_IndexCase]]) -> Optional[List[_IndexCase]]:
    if l is None or r is None or any(x[0] is None for x in l + r):
        return None
    return [(x[0] + y[0], x[1] + y[1], None) for x in l for y in r]


def _generic_min_index(roles: _Roles, gen: ast.AST, n: Node) -> bool:
    """slice(0, min(o, n)) for o, n in zip(<old size>, <new size>)"""
    if not (isinstance(gen, (ast.GeneratorExp, ast.ListComp)) and len(gen.generators) == 1 and not gen.generators[0].ifs
            and isinstance(gen.generators[0].iter, ast.Call) and call_name(gen.generators[0].iter) == "zip"):
        return False
    g, e = gen.generators[0], gen.elt
    tv = [x.id for x in g.target.elts if isinstance(x, ast.Name)] if isinstance(g.target, ast.Tuple) else []
    return roles.is_size_pair(list(g.iter.args), n) and len(tv) == 2 and isinstance(e, ast.Call) and call_name(e) == "slice" and len(e.args) == 2 and not e.keywords \
        and const_value(e.args[0]) == 0 and isinstance(e.args[1], ast.Call) and call_name(e.args[1]) == "min" and not e.args[1].keywords \
        and len(e.args[1].args) == 2 and {dotted(a) for a in e.args[1].args} == set(tv)


def _cut_at_min(cfg: CFG, roles: _Roles, sl: ast.AST, n: Node, k: int) -> bool:
    """The index of dimension k, read at n, is the range from the start up to min(old_size[k], new_size[k]): `:U` / `0:U` / slice(U) /
    slice(0, U) / slice(None, U), the bound U written in place or bound to a local first, the two sizes in either order."""
    sl, n = _through(cfg, sl, n)  # a slice object bound to a local first
    is_start = lambda x: x is None or const_value(x) == 0 or (isinstance(x, ast.Constant) and x.value is None)  # noqa: E731
    if isinstance(sl, ast.Slice) and is_start(sl.lower) and sl.step is None and sl.upper is not None:
        up = sl.upper
    elif isinstance(sl, ast.Call) and call_name(sl) == "slice" and not sl.keywords and len(sl.args) == 1:
        up = sl.args[0]
    elif isinstance(sl, ast.Call) and call_name(sl) == "slice" and not sl.keywords and len(sl.args) == 2 and is_start(sl.args[0]):
        up = sl.args[1]
    else:
        return False
    val, vn = _through(cfg, up, n)
    return isinstance(val, ast.Call) and call_name(val) == "min" and len(val.args) == 2 and not val.keywords \
        and all(isinstance(a, ast.Subscript) and const_value(a.slice) == k for a in val.args) and roles.is_size_pair([a.value for a in val.args], vn)


def _shrink_slices(ck: Check, repo: Repo, fn: Fn) -> None:
    cfg = CFG(fn.node)
    tb = TermBuilder(repo, fn, cfg=cfg, depth=0)
    old_p, new_p = fn.named_params[0], fn.named_params[1]
    roles = _Roles(fn, cfg)
    sliced = [n for n in cfg.live_nodes() if n.kind == "stmt" and isinstance(n.ast, ast.Assign) and isinstance(n.ast.targets[0], ast.Subscript)]
    # one copy statement stands for as many copies as its index has values (a 1-D / an n-D index selected beforehand; the generic
    # per-dimension form covers both ranks)
    n_copies = 0
    results = []
    for n in sliced:
        t = n.ast.targets[0]
        v, vn = _through(cfg, n.ast.value, n)  # the value read from the old tensor, directly or through a temporary
        same = isinstance(v, ast.Subscript) and _same_index(cfg, t.slice, n, v.slice, vn)
        flow_l, flow_r = tb.term(t.value, n), tb.term(v.value if isinstance(v, ast.Subscript) else v, vn)
        flow = _from(tb, flow_l, new_p) and not _from(tb, flow_l, old_p) and _from(tb, flow_r, old_p) and not _from(tb, flow_r, new_p)
        cases = _index_cases(cfg, t.slice, n) or []
        okd = okr = bool(cases)
        # rank guard: 1-D branch copies one dimension, the other branch two
        rank1 = any(pol and any(isinstance(x, ast.Compare) and len(x.ops) == 1 and isinstance(x.ops[0], ast.Eq) and roles.is_rank_of_param(x.left, gt)
                                and const_value(x.comparators[0]) == 1 for x in ast.walk(g)) for g, pol, gt in cfg.guards_at(n))
        rank1 = rank1 or any(_rank_is_one(roles, a, apol, gt) for g, pol, gt in cfg.guards_at(n) for a, apol in conjuncts(g, pol))
        n_copies += 0 if cases else 1  # an index that is not understood: still one copy statement (its obligations fail below)
        for elts, conds, generic in cases:
            if generic is not None:
                # right for every rank; stands for both copies unless it is executed for 1-D parameters only
                n_copies += 1 if rank1 else 2
                okd = okd and _generic_min_index(roles, generic[0], generic[1])
                continue
            n_copies += 1
            okd = okd and all(_cut_at_min(cfg, roles, sl, sn, k) for k, (sl, sn) in enumerate(elts))
            okr = okr and (len(elts) == 1) == (rank1 or any(_rank_is_one(roles, a, pol, ct) for a, pol, ct in conds))
        results.append((n, same, flow, okd, okr, t))
    ck.floor("C04.2", n_copies, 2, "sliced copies in shrink_preserve_parameters", fn=fn)
    for n, same, flow, okd, okr, t in results:
        ck.ob("C04.2", fn, n.ast, same, "the same index expression is used on both sides")
        ck.ob("C04.2", fn, n.ast, flow, "old -> new")
        ck.ob("C04.2", fn, n.ast, okd, "dimension k is cut at min(old_size[k], new_size[k])", detail=short(t.slice, 60))
        ck.ob("C04.2", fn, n.ast, okr, "one index for 1-D parameters, two leading indices otherwise")


def _rank_is_one(roles: _Roles, a: ast.AST, pol: bool, n: Node) -> bool:
    """the condition (a evaluating to pol, read at n) says: the rank of the new parameter is 1  (`rank == 1` true / `rank != 1` false, either order)"""
    if not (isinstance(a, ast.Compare) and len(a.ops) == 1 and isinstance(a.ops[0], (ast.Eq, ast.NotEq))):
        return False
    l, r = a.left, a.comparators[0]
    if const_value(l) == 1:
        l, r = r, l
    return roles.is_rank_of_param(l, n) and const_value(r) == 1 and type(const_value(r)) is int and isinstance(a.ops[0], ast.Eq) == pol


def _reinit_sites(fn: Fn) -> List[ast.AST]:
    """calls of torch initialisers applied to parameters that are reached through self (loop over self[.x].parameters() / named_parameters())"""
    out = []
    for lp in [x for x in ast.walk(fn.node) if isinstance(x, (ast.For, ast.comprehension))]:
        it = lp.iter
        over_self = isinstance(it, ast.Call) and last_attr(it) in ("parameters", "named_parameters") and dotted(it.func.value).split(".")[0] == "self"
        if not over_self:
            continue
        tvars = {x.id for x in ast.walk(lp.target) if isinstance(x, ast.Name)}
        body = lp if isinstance(lp, ast.For) else None
        scope = ast.walk(body) if body is not None else ast.walk(fn.node)
        for c in scope:
            if isinstance(c, ast.Call) and (call_name(c).startswith(("nn.init.", "torch.nn.init.", "init.")) or (isinstance(c.func, ast.Attribute) and c.func.attr in ("normal_", "uniform_", "zero_", "fill_", "copy_"))):
                used = {x.id for x in ast.walk(c) if isinstance(x, ast.Name)}
                if used & tvars:
                    out.append(c)
    return out


def _no_reinit_of_live(ck: Check, repo: Repo) -> None:
    n = 0
    for m in repo.mods.values():
        if not (m.name.startswith("agilerl.modules") or m.name.startswith("agilerl.networks") or m.name.startswith("agilerl.wrappers.make_evolvable")):
            continue
        for cls in m.classes.values():
            rec = cls.methods.get("recreate_network")
            if rec is None:
                continue
            n += 1
            seen, todo, bad = set(), [rec], []
            depth = {rec.qualname: 0}
            while todo:
                f = todo.pop()
                if f.qualname in seen:
                    continue
                seen.add(f.qualname)
                for site in _reinit_sites(f):
                    bad.append((f, site))
                if depth[f.qualname] >= 2:
                    continue
                for c in calls_in(f.node, nested=True):
                    nm = call_name(c)
                    if nm.startswith("self.") and nm.count(".") == 1:
                        for k in repo.mro(cls):
                            if nm[5:] in k.methods:
                                g = k.methods[nm[5:]]
                                if g.qualname not in depth:
                                    depth[g.qualname] = depth[f.qualname] + 1
                                    todo.append(g)
                                break
            for f, site in bad or [(None, None)]:
                ck.ob("C04.11", rec, site if site is not None else rec.node, site is None, f"{cls.name}.recreate_network leaves the live parameters untouched until they were carried over",
                      detail=f"`{short(site, 70)}` in {f.qualname if f else ''} (run by recreate_network) re-initialises parameters registered on the module itself — "
                             "the learned weights of the network that is being replaced — before preserve_parameters copies them: every mutation loses them" if site is not None else "",
                      construct=f"{cls.name}.recreate_network: re-initialisation of live parameters" + (f" in {f.name}" if f else ""))
    ck.floor("C04.11", n, 10, "recreate_network implementations examined")


def _head_agreement(ck: Check, repo: Repo) -> None:
    n = 0
    for modname in ("agilerl.networks.value_networks", "agilerl.networks.q_networks", "agilerl.networks.actors"):
        for cls in repo.mod(modname).classes.values():
            b, r = cls.methods.get("build_network_head"), cls.methods.get("recreate_network")
            if b is None or r is None:
                continue
            params = set(b.named_params)

            def head_calls(fn: Fn) -> Dict[str, ast.Call]:
                out: Dict[str, ast.Call] = {}
                assigns = [a for a in walk_no_nested(fn.node) if isinstance(a, ast.Assign) and isinstance(a.value, ast.Call) and len(a.value.keywords) >= 2]
                for a in assigns:
                    t = dotted(a.targets[0])
                    if t.startswith("self."):
                        out[t[5:]] = a.value
                    elif isinstance(a.targets[0], ast.Name):
                        # local that is later stored (possibly through a preserve function / wrapper) into self.<attr>
                        for a2 in walk_no_nested(fn.node):
                            if isinstance(a2, ast.Assign) and dotted(a2.targets[0]).startswith("self.") and any(isinstance(x, ast.Name) and x.id == t for x in ast.walk(a2.value)):
                                out.setdefault(dotted(a2.targets[0])[5:], a.value)
                return out
            bc, rc = head_calls(b), head_calls(r)
            for attr in sorted(set(bc) & set(rc)):
                if call_name(bc[attr]) != call_name(rc[attr]):
                    continue
                bk = {k.arg: k.value for k in bc[attr].keywords if k.arg}
                rk = {k.arg: k.value for k in rc[attr].keywords if k.arg}
                for k in sorted(set(bk) | set(rk)):
                    if k in bk and k in rk:
                        # the configuration is the constructor's argument at build time and the live description at rebuild time: not compared
                        if isinstance(bk[k], ast.Name) and bk[k].id in params and f"self.{attr}." in ast.unparse(rk[k]):
                            continue
                        n += 1
                        ck.ob("C04.9", r, rc[attr], ast.unparse(bk[k]) == ast.unparse(rk[k]), f"{cls.name}.{attr}: rebuilt with the same `{k}` as built",
                              detail=f"build_network_head passes {k}={short(bk[k], 40)}, recreate_network passes {k}={short(rk[k], 40)}: with a different name every parameter key of the "
                                     "rebuilt head differs from the old one, preserve_parameters finds no match and the whole head is re-initialised by every network-level mutation",
                              construct=f"{cls.name}.{attr}: {call_name(bc[attr])}({k}=)")
                    else:
                        n += 1
                        ck.ob("C04.9", r, rc[attr], False, f"{cls.name}.{attr}: built and rebuilt with the same keyword set ({k})", construct=f"{cls.name}.{attr}: {call_name(bc[attr])}({k}=)")
    ck.floor("C04.9", n, 10, "keyword values compared between build_network_head and recreate_network")


def _live_description(ck: Check, repo: Repo) -> None:
    cls = repo.cls("agilerl.modules.multi_input", "EvolvableMultiInput")
    prop = cls.methods.get("init_dicts")
    if prop is None:
        raise AnalysisError("EvolvableMultiInput.init_dicts not found")
    cfg = CFG(prop.node)
    from ..domains import conjuncts
    rets = [n_ for n_ in cfg.live_nodes() if n_.kind == "stmt" and isinstance(n_.ast, ast.Return)]
    stale = [r for r in rets if dotted(r.ast.value).startswith("self._")]
    live = [r for r in rets if r not in stale]
    ck.ob("C04.10", prop, prop.node, bool(stale) and bool(live), "EvolvableMultiInput.init_dicts has a stored answer and a live answer", construct="init_dicts: two answers")
    for r in stale:
        atoms = [(ast.unparse(a), p) for g, pol, _ in cfg.guards_at(r) for a, p in conjuncts(g, pol)]
        ok = any(t.replace('"', "'").startswith("hasattr(self, 'feature_net')") and not p for t, p in atoms) and all(t.replace('"', "'").startswith("hasattr(self, 'feature_net')") for t, _ in atoms)
        ck.ob("C04.10", prop, r.ast, ok, "the stored constructor argument is returned only while the feature extractors do not exist",
              detail=f"returned under {atoms}: a clone (constructed WITH init_dicts) keeps describing the architecture it was born with; after a nested mutation the next clone "
                     "is built with the old architecture, the state dict does not load (error swallowed) and the clone keeps random weights",
              construct="EvolvableMultiInput.init_dicts: stored answer")


def _sites(ck: Check, repo: Repo) -> None:
    n_sites = 0
    for f in repo.all_functions():
        if f.mod.name.startswith(("agilerl.modules.gpt", "agilerl.modules.bert")):
            continue
        cfg = None
        for c in calls_in(f.node):
            cn = call_name(c)
            is_direct = cn.split(".")[-1] in PRESERVERS
            is_alias = False
            if isinstance(c.func, ast.Name):
                cfg = cfg or CFG(f.node)
                n0 = cfg.node_of(c)
                defs = cfg.defs_reaching(n0, c.func.id) if n0 is not None else []
                vals = [cfg.value_of_def(d, c.func.id) for d in defs]
                is_alias = bool(vals) and all(v is not None and any(p in ast.unparse(v) for p in PRESERVERS) for v in vals)
            if not (is_direct or is_alias) or f.name in PRESERVERS:
                continue
            n_sites += 1
            cfg = cfg or CFG(f.node)
            n = cfg.node_of(c)
            old = get_kw(c, "old_net", 0)
            new = get_kw(c, "new_net", 1)
            label = f"{f.qualname}: {short(c, 70)}"
            # `old` read into a local first (old_model = self.model ... preserve(old_model, new)): the local stands for the attribute
            # as long as the attribute is not re-assigned between that read and the call
            if isinstance(old, ast.Name) and n is not None:
                ods = cfg.defs_reaching(n, old.id)
                if len(ods) == 1 and ods[0].kind != "entry":
                    ov = cfg.value_of_def(ods[0], old.id)
                    if isinstance(ov, ast.Attribute) and dotted(ov).startswith("self.") and dotted(ov).count(".") == 1:
                        if {id(x) for x in cfg.defs_reaching(ods[0], dotted(ov))} == {id(x) for x in cfg.defs_reaching(n, dotted(ov))}:
                            old = ov
            ok_old = old is not None and dotted(old).startswith("self.") and dotted(old).count(".") == 1
            ck.ob("C04.3", f, c, ok_old, f"{label}: `old` is the network currently stored on the module", detail=f"old = {short(old, 50)}")
            ok_new = isinstance(new, ast.Name)
            if ok_new:
                defs = cfg.defs_reaching(n, new.id)
                vals = [cfg.value_of_def(d, new.id) for d in defs]
                ok_new = bool(defs) and all(d.kind != "entry" for d in defs) and all(v is not None and not (dotted(v).startswith("self.") and isinstance(v, ast.Attribute)) for v in vals)
            ck.ob("C04.3", f, c, ok_new, f"{label}: `new` is a network built in this call (not the stored one)", detail=f"new = {short(new, 50)}")
            # result stored back into the attribute `old` came from (directly or through one local)
            tgt = None
            if isinstance(n.ast, ast.Assign):
                tgt = dotted(n.ast.targets[0])
            stored_ok = False
            if tgt and ok_old:
                if tgt == dotted(old):
                    stored_ok = True
                elif not tgt.startswith("self."):
                    # local: must be assigned to the same attribute later (tuple or plain assignment)
                    for m in cfg.live_nodes():
                        if m.kind == "stmt" and isinstance(m.ast, ast.Assign) and n in cfg.defs_reaching(m, tgt):
                            from ..util import _pair_targets
                            for t in m.ast.targets:
                                for tt, vv in _pair_targets(t, m.ast.value):
                                    if dotted(tt) == dotted(old) and dotted(vv) == tgt:
                                        stored_ok = True
            ck.ob("C04.3", f, c, stored_ok, f"{label}: the preserved network replaces the attribute that `old` was read from",
                  detail=f"assigned to {tgt}; old read from {short(old, 40)}")
            # the transfer may be skipped only when there is no old network (guards about that attribute) or by a parameter of the function
            if ok_old:
                from ..domains import conjuncts
                attr = dotted(old)[5:]
                foreign = []
                for g, pol, _ in cfg.guards_at(n):
                    for a, apol in conjuncts(g, pol):
                        names = {x.id for x in ast.walk(a) if isinstance(x, ast.Name)} - {"self", "hasattr", "isinstance", "len"}
                        attrs = {x.attr for x in ast.walk(a) if isinstance(x, ast.Attribute) and dotted(x.value) == "self"}
                        consts = {x.value for x in ast.walk(a) if isinstance(x, ast.Constant) and isinstance(x.value, str)}
                        about_old = attr in attrs or attr in consts
                        by_param = bool(names) and names <= set(f.params) and not attrs
                        if not (about_old or by_param):
                            foreign.append(("" if apol else "not ") + ast.unparse(a))
                ck.ob("C04.3", f, c, not foreign, f"{label}: the weights are carried over whenever the old network exists",
                      detail=f"the transfer is additionally conditioned on {foreign}: on a path where self.{attr} exists but that condition is false the rebuilt network keeps its "
                             "fresh initialisation (every mutation, also one stopped by a bound, re-initialises it)",
                      construct=f"{f.qualname}: transfer condition for {attr}")
    ck.floor("C04.3", n_sites, 18, "preserve call sites in the package")


def _reinit(ck: Check, repo: Repo) -> None:
    rf = repo.fn("agilerl.hpo.mutation", "Mutations.reinit_from_mutated")
    loads = [c for c in calls_in(rf.node, nested=True) if last_attr(c) == "load_state_dict"]
    rcfg = CFG(rf.node)
    # role: the re-created network is whatever local holds self.reinit_module(offspring, ...) (`offspring` is the parameter)
    rebuilt = lambda v: isinstance(v, ast.Call) and call_name(v) == "self.reinit_module" and bool(v.args) and dotted(v.args[0]) == "offspring"  # noqa: E731
    ok = any(c.args and isinstance(c.args[0], ast.Call) and last_attr(c.args[0]) == "state_dict" and dotted(c.args[0].func.value) == "offspring"
             and _receiver_bound_to(rcfg, c, rebuilt) for c in loads)
    ck.ob("C04.4", rf, loads[0] if loads else rf.node, ok, "the re-created shared network loads the state dict of the offspring it was built from")
    strict = [c for c in loads if get_kw(c, "strict") is not None]
    ck.note("C04.4_strict_false", [short(c, 80) for c in strict])


def _receiver_bound_to(cfg: CFG, call: ast.Call, pred) -> bool:
    """The receiver of the method call is a local every reaching definition of which binds it to a value accepted by pred."""
    recv = call.func.value if isinstance(call.func, ast.Attribute) else None
    node = cfg.node_of(call)
    if not isinstance(recv, ast.Name) or node is None:
        return False
    defs = cfg.defs_reaching(node, recv.id)
    return bool(defs) and all(d.kind != "entry" and pred(cfg.value_of_def(d, recv.id)) for d in defs)


def _clone(ck: Check, repo: Repo) -> None:
    fn = repo.fn(MB, "EvolvableModule.clone")
    tries = [n for n in walk_no_nested(fn.node) if isinstance(n, ast.Try)]
    loads = [c for c in calls_in(fn.node) if last_attr(c) == "load_state_dict"]
    ccfg = CFG(fn.node)
    # role: the clone is whatever local holds the freshly constructed self.__class__(...) / type(self)(...)
    built = lambda v: isinstance(v, ast.Call) and (call_name(v) == "self.__class__" or (isinstance(v.func, ast.Call) and call_name(v.func) == "type"  # noqa: E731
                                                                                       and [dotted(a) for a in v.func.args] == ["self"]))
    ok = len(loads) == 1 and _receiver_bound_to(ccfg, loads[0], built) and loads[0].args and ast.unparse(loads[0].args[0]) == "self.state_dict()"
    ck.ob("C04.5", fn, loads[0] if loads else fn.node, ok, "the clone loads the parent's complete state dict")
    strict = get_kw(loads[0], "strict") if loads else None
    ck.ob("C04.5", fn, loads[0] if loads else fn.node, strict is None or const_value(strict) is True, "the load is strict (every parameter must match)")
    # the clone computes the parent's function only in the parent's mode (BatchNorm statistics, dropout): a freshly constructed module is in training mode
    modes = []
    for c in calls_in(fn.node):
        if isinstance(c.func, ast.Attribute) and c.func.attr == "train" and isinstance(c.func.value, ast.Name) and _receiver_bound_to(ccfg, c, built):
            arg = get_kw(c, "mode", 0)
            n_ = ccfg.node_of(c)
            if arg is not None and dotted(arg) == "self.training" and n_ is not None and ccfg.postdominates(n_, ccfg.entry):
                modes.append(c)
    ck.ob("C04.5", fn, modes[0] if modes else fn.node, bool(modes), "the clone is put into the parent's train / eval mode on every path",
          detail="" if modes else "the constructed clone stays in training mode: the clone of a network in eval mode normalises with batch statistics / applies dropout, "
                                  "so it does not reproduce the parent's outputs", construct="EvolvableModule.clone: mode carried over")
    for t in tries:
        for h in t.handlers:
            swallow = all(isinstance(s, ast.Pass) for s in h.body)
            ok = h.type is not None and dotted(h.type) == "RuntimeError" and swallow
            ck.ob("C04.5", fn, h, ok, "only a RuntimeError (shape mismatch of an untrained rebuild) is tolerated; nothing else is swallowed",
                  detail=f"handler: except {ast.unparse(h.type) if h.type is not None else ''}")


def _clone_overrides(ck: Check, repo: Repo) -> None:
    sites = 0
    for fn in repo.overrides("EvolvableModule", "clone"):
        if fn.cls.name == "EvolvableModule":
            continue
        init = fn.cls.methods.get("__init__")
        if init is None:
            continue
        ctor = [c for c in calls_in(fn.node) if call_name(c) in (fn.cls.name, "self.__class__", "type(self)")
                or (isinstance(c.func, ast.Call) and call_name(c.func) == "type")]
        if not ctor:
            continue
        sites += 1
        c = ctor[0]
        params = [p for p in init.named_params if p != "self"]
        passed = {k.arg for k in c.keywords if k.arg}
        star = any(k.arg is None for k in c.keywords)
        for i, _a in enumerate(c.args):
            if i < len(params):
                passed.add(params[i])
        missing = [p for p in params if p not in passed] if not star else []
        for p in params:
            ck.ob("C04.6", fn, c, p not in missing, f"{fn.qualname} passes constructor parameter `{p}` from self",
                  detail=f"`{p}` is not passed: the clone is built with the constructor default instead of the parent's value",
                  construct=f"{fn.qualname}: ctor arg {p}")
        own_params = []
        for attr, vals in self_attr_stores(init).items():
            for v in vals:
                if isinstance(v, ast.Call) and call_name(v).split(".")[-1] == "Parameter":
                    own_params.append(attr)
        src = ast.unparse(fn.node)
        for p in own_params:
            ok = (f"self.{p}" in src) or ("load_state_dict" in src)
            ck.ob("C04.6", fn, fn.node, ok, f"nn.Parameter `{p}` created by {fn.cls.name}.__init__ is transferred to the clone",
                  detail=f"{fn.qualname} never reads self.{p} nor loads a state dict: the clone gets a freshly initialised `{p}`",
                  construct=f"{fn.qualname}: transfer of parameter {p}")
    ck.floor("C04.6", sites, 1, "clone() overrides of EvolvableModule subclasses that call their constructor")


_MB = "agilerl/modules/base.py"
_CNN = "agilerl/modules/cnn.py"
VARIANTS = [
    ("custom-encoder-rebuilt-from-net-config", "agilerl/networks/base.py", "            init_dict = self.encoder.init_dict\n            init_dict[\"num_outputs\"] = self.latent_dim\n            encoder = self.encoder_cls(**init_dict)",
     "            init_dict = self.encoder.net_config\n            init_dict[\"num_outputs\"] = self.latent_dim\n            encoder = self.encoder_cls(**init_dict)", "fire", "C04.12"),
    ("custom-encoder-description-copied-ok", "agilerl/networks/base.py", "            init_dict = self.encoder.init_dict\n            init_dict[\"num_outputs\"] = self.latent_dim\n            encoder = self.encoder_cls(**init_dict)",
     "            description = copy.deepcopy(self.encoder.init_dict)\n            description[\"num_outputs\"] = self.latent_dim\n            encoder = self.encoder_cls(**description)", "silent", None),

    ("preserve-mode-not-carried-over", _MB, "        new_net.train(old_net.training)\n\n        return new_net\n\n    @staticmethod\n    def init_weights_gaussian", "        return new_net\n\n    @staticmethod\n    def init_weights_gaussian", "fire", "C04.1"),
    ("bert-rebuild-resets-live-parameters", "agilerl/modules/bert.py", "        return nn.ModuleDict(encoder_dict), nn.ModuleDict(decoder_dict)\n", "        self._reset_parameters()\n\n        return nn.ModuleDict(encoder_dict), nn.ModuleDict(decoder_dict)\n", "fire", "C04.11"),
    ("value-head-built-under-another-name", "agilerl/networks/value_networks.py", "            num_outputs=1,\n            name=\"value\",\n            net_config=net_config,", "            num_outputs=1,\n            name=\"critic\",\n            net_config=net_config,", "fire", "C04.9"),
    ("make-evolvable-transfer-only-for-rainbow", "agilerl/wrappers/make_evolvable.py", "        if self.value_net is not None:\n            new_value_net = preserve_params_fn(", "        if self.rainbow:\n            new_value_net = preserve_params_fn(", "fire", "C04.3"),
    ("multi-input-stored-description-preferred", "agilerl/modules/multi_input.py", "        if not hasattr(self, \"feature_net\"):\n            return self._init_dicts", "        if self._init_dicts or not hasattr(self, \"feature_net\"):\n            return self._init_dicts", "fire", "C04.10"),
    ("preserve-new-to-old", _MB, "                    param.data[slice_index] = old_param.data[slice_index]", "                    old_param.data[slice_index] = param.data[slice_index]", "fire", "C04.1"),
    ("preserve-different-index", _MB, "                    param.data[slice_index] = old_param.data[slice_index]", "                    param.data[slice_index] = old_param.data[: len(slice_index)]", "fire", "C04.1"),
    ("preserve-max", _MB, "slice(0, min(o, n)) for o, n in zip(old_size, new_size)", "slice(0, max(o, n)) for o, n in zip(old_size, new_size)", "fire", "C04.1"),
    ("preserve-start-one", _MB, "slice(0, min(o, n)) for o, n in zip(old_size, new_size)", "slice(1, min(o, n)) for o, n in zip(old_size, new_size)", "fire", "C04.1"),
    ("preserve-norm-filter-outer", _MB, "            if key in old_net_dict.keys():\n                old_param = old_net_dict[key]", "            if key in old_net_dict.keys() and \"norm\" not in key:\n                old_param = old_net_dict[key]", "fire", "C04.1"),
    ("mlp-rebuild-drops-new-gelu", "agilerl/modules/mlp.py", "            noise_std=self.noise_std,\n            new_gelu=self.new_gelu,\n            device=self.device,\n            name=self.name,\n        )\n\n        self.model = EvolvableModule", "            noise_std=self.noise_std,\n            device=self.device,\n            name=self.name,\n        )\n\n        self.model = EvolvableModule", "fire", "C04.7"),
    ("simba-rebuild-scale-factor-const", "agilerl/modules/simba.py", "            scale_factor=self.scale_factor,\n            device=self.device,\n            name=self.name,\n        )\n\n        self.model = EvolvableModule.preserve_parameters", "            scale_factor=4,\n            device=self.device,\n            name=self.name,\n        )\n\n        self.model = EvolvableModule.preserve_parameters", "fire", "C04.7"),
    ("preserve-buffers-dropped", _MB, "                buffer.data = old_buffers[key].data\n", "                pass\n", "fire", "C04.1"),
    ("preserve-buffers-from-new", _MB, "        old_buffers = dict(old_net.named_buffers())\n", "        old_buffers = dict(new_net.named_buffers())\n", "fire", "C04.1"),
    ("shrink-buffers-dropped", "agilerl/modules/cnn.py", "                buffer.data = old_buffers[key].data\n", "                pass\n", "fire", "C04.2"),
    ("preserve-buffers-copy-ok", _MB, "                buffer.data = old_buffers[key].data\n", "                buffer.copy_(old_buffers[key])\n", "silent", None),
    ("preserve-skip-bias", _MB, "                elif \"norm\" not in key:\n                    # Create a slicing", "                elif \"norm\" not in key and \"bias\" not in key:\n                    # Create a slicing", "fire", "C04.1"),
    ("preserve-iter-old", _MB, "        old_net_dict = dict(old_net.named_parameters())\n\n        for key, param in new_net.named_parameters():", "        old_net_dict = dict(new_net.named_parameters())\n\n        for key, param in old_net.named_parameters():", "fire", "C04.1"),
    ("preserve-return-old", _MB, "        new_net.train(old_net.training)\n\n        return new_net\n\n    @staticmethod\n    def init_weights_gaussian", "        new_net.train(old_net.training)\n\n        return old_net\n\n    @staticmethod\n    def init_weights_gaussian", "fire", "C04.1"),
    ("shrink-second-dim-old", _CNN, "min_1 = min(old_size[1], new_size[1])", "min_1 = old_size[1]", "fire", "C04.2"),
    ("shrink-mixed-index", _CNN, "                        param.data[:min_0, :min_1] = old_net_dict[key].data[\n                            :min_0, :min_1\n                        ]", "                        param.data[:min_0, :min_1] = old_net_dict[key].data[\n                            :min_1, :min_0\n                        ]", "fire", "C04.2"),
    ("mlp-swapped-args", "agilerl/modules/mlp.py", "            old_net=self.model, new_net=model\n", "            old_net=model, new_net=self.model\n", "fire", "C04.3"),
    ("qnet-swapped-positional", "agilerl/networks/q_networks.py", "        self.head_net = EvolvableModule.preserve_parameters(self.head_net, head_net)\n\n\nclass RainbowQNetwork", "        self.head_net = EvolvableModule.preserve_parameters(head_net, self.head_net)\n\n\nclass RainbowQNetwork", "fire", "C04.3"),
    ("encoder-stored-elsewhere", "agilerl/networks/base.py", "        self.encoder = EvolvableModule.preserve_parameters(self.encoder, encoder)", "        self.head_net = EvolvableModule.preserve_parameters(self.encoder, encoder)", "fire", "C04.3"),
    ("lstm-no-preserve", "agilerl/modules/lstm.py", "        self.model = EvolvableModule.preserve_parameters(\n            old_net=self.model, new_net=model\n        )", "        self.model = model", "fire", "C04.3"),
    ("clone-nonstrict", _MB, "            clone.load_state_dict(self.state_dict())\n        except RuntimeError:", "            clone.load_state_dict(self.state_dict(), strict=False)\n        except RuntimeError:", "fire", "C04.5"),
    ("clone-swallow-all", _MB, "            clone.load_state_dict(self.state_dict())\n        except RuntimeError:", "            clone.load_state_dict(self.state_dict())\n        except Exception:", "fire", "C04.5"),
    ("preserve-temp-names-ok", _MB, "                old_param = old_net_dict[key]\n                old_size = old_param.data.size()\n                new_size = param.data.size()\n", "                old_param = old_net_dict[key]\n                new_size = param.data.size()\n                old_size = old_param.data.size()\n", "silent", None),
]
VARIANTS += [
    # the locals are recognised by what they are bound to (roles), so these must behave as before whatever the locals are called
    ("preserve-new-size-of-old-param", _MB, "                new_size = param.data.size()\n", "                new_size = old_param.data.size()\n", "fire", "C04.1"),
    ("shrink-rank-via-shape-ok", _CNN, "if len(param.data.size()) == 1:", "if len(param.shape) == 1:", "silent", None),
    ("clone-loads-into-self", _MB, "            clone.load_state_dict(self.state_dict())\n        except RuntimeError:", "            self.load_state_dict(clone.state_dict())\n        except RuntimeError:", "fire", "C04.5"),
    ("reinit-loads-into-offspring", "agilerl/hpo/mutation.py", "ind_shared.load_state_dict(offspring.state_dict(), strict=False)", "offspring.load_state_dict(ind_shared.state_dict(), strict=False)", "fire", "C04.4"),
]
_LOOKUP = "            if key in old_net_dict.keys():\n                old_param = old_net_dict[key]\n"
_LOOP = ("        for key, param in new_net.named_parameters():\n            if key in old_net_dict.keys():\n                old_param = old_net_dict[key]\n"
         "                old_size = old_param.data.size()\n                new_size = param.data.size()\n\n                if old_size == new_size:\n"
         "                    # If the sizes are the same, just copy the parameter\n                    param.data = old_param.data\n"
         "                elif \"norm\" not in key:\n                    # Create a slicing index to handle tensors with varying sizes\n"
         "                    slice_index = tuple(\n                        slice(0, min(o, n)) for o, n in zip(old_size, new_size)\n                    )\n"
         "                    param.data[slice_index] = old_param.data[slice_index]\n")
_TAIL = "        new_net.train(old_net.training)\n\n        return new_net\n\n    @staticmethod\n    def init_weights_gaussian"
_TAIL_TO = "\n        return new_net\n\n    @staticmethod\n    def init_weights_gaussian"
_SLICED = "                    param.data[slice_index] = old_param.data[slice_index]"
VARIANTS += [
    # one obligation, several equivalent spellings: `d[k]` under `k in d` == `v = d.get(k)` under `v is not None`; a value passed directly == through a
    # single-definition temporary; nested ifs == early continues; sizes named == written out.  Each pair: the equivalent form stays silent, its broken twin fires.
    ("preserve-get-lookup-ok", _MB, _LOOKUP, "            old_param = old_net_dict.get(key)\n            if old_param is not None:\n", "silent", None),
    ("preserve-get-lookup-default-none-ok", _MB, _LOOKUP, "            old_param = old_net_dict.get(key, None)\n            if not (old_param is None):\n", "silent", None),
    ("shrink-get-lookup-ok", _CNN, _LOOKUP, "            old_param = old_net_dict.get(key)\n            if old_param is not None:\n", "silent", None),
    ("preserve-get-lookup-extra-filter", _MB, _LOOKUP, "            old_param = old_net_dict.get(key)\n            if old_param is not None and \"bias\" not in key:\n", "fire", "C04.1"),
    ("preserve-get-lookup-attribute-filter", _MB, _LOOKUP, "            old_param = old_net_dict.get(key)\n            if old_param is not None and old_param.requires_grad:\n", "fire", "C04.1"),
    ("preserve-get-lookup-in-new-table", _MB, "        old_net_dict = dict(old_net.named_parameters())\n\n        for key, param in new_net.named_parameters():\n" + _LOOKUP,
     "        old_net_dict = dict(new_net.named_parameters())\n\n        for key, param in new_net.named_parameters():\n            old_param = old_net_dict.get(key)\n            if old_param is not None:\n", "fire", "C04.1"),
    ("preserve-get-lookup-other-key", _MB, _LOOKUP, "            old_param = old_net_dict.get(key.replace(\"0\", \"1\"))\n            if old_param is not None:\n", "fire", "C04.1"),
    ("preserve-early-continue-get-ok", _MB, _LOOP,
     "        for name, fresh in new_net.named_parameters():\n            trained = old_net_dict.get(name)\n            if trained is None:\n                continue\n\n"
     "            if trained.data.size() == fresh.data.size():\n                fresh.data = trained.data\n                continue\n\n            if \"norm\" in name:\n                continue\n\n"
     "            common = tuple(slice(0, min(o, n)) for o, n in zip(trained.shape, fresh.shape))\n            fresh.data[common] = trained.data[common]\n", "silent", None),
    ("preserve-early-continue-drops-resized", _MB, _LOOP,
     "        for name, fresh in new_net.named_parameters():\n            trained = old_net_dict.get(name)\n            if trained is None:\n                continue\n\n"
     "            if trained.data.size() == fresh.data.size():\n                fresh.data = trained.data\n            continue\n\n"
     "            common = tuple(slice(0, min(o, n)) for o, n in zip(trained.shape, fresh.shape))\n            fresh.data[common] = trained.data[common]\n", "fire", "C04.1"),
    ("preserve-table-comprehension-ok", _MB, "        old_net_dict = dict(old_net.named_parameters())\n", "        old_net_dict = {k: v for k, v in old_net.named_parameters()}\n", "silent", None),
    ("preserve-table-comprehension-of-new", _MB, "        old_net_dict = dict(old_net.named_parameters())\n", "        old_net_dict = {k: v for k, v in new_net.named_parameters()}\n", "fire", "C04.1"),
    ("preserve-sizes-written-out-ok", _MB, "                if old_size == new_size:\n", "                if param.shape == old_param.shape:\n", "silent", None),
    ("preserve-sizes-of-one-parameter", _MB, "                if old_size == new_size:\n", "                if old_param.shape == old_param.shape:\n", "fire", "C04.1"),
    ("preserve-mode-through-temporary-ok", _MB, _TAIL, "        was_training = old_net.training\n        new_net.train(was_training)\n" + _TAIL_TO, "silent", None),
    ("preserve-mode-of-new-through-temporary", _MB, _TAIL, "        was_training = new_net.training\n        new_net.train(was_training)\n" + _TAIL_TO, "fire", "C04.1"),
    ("preserve-mode-returned-call-ok", _MB, _TAIL, "        return new_net.train(mode=old_net.training)\n\n    @staticmethod\n    def init_weights_gaussian", "silent", None),
    ("preserve-mode-returned-call-on-old", _MB, _TAIL, "        return old_net.train(mode=old_net.training)\n\n    @staticmethod\n    def init_weights_gaussian", "fire", "C04.1"),
    ("preserve-mode-eval-branch-ok", _MB, _TAIL, "        if not old_net.training:\n            new_net.eval()\n" + _TAIL_TO, "silent", None),
    ("preserve-mode-eval-branch-inverted", _MB, _TAIL, "        if old_net.training:\n            new_net.eval()\n" + _TAIL_TO, "fire", "C04.1"),
    ("preserve-value-through-temporary-ok", _MB, _SLICED, "                    kept = old_param.data[slice_index]\n                    param.data[slice_index] = kept", "silent", None),
    ("preserve-value-through-temporary-other-index", _MB, _SLICED, "                    kept = old_param.data[: len(slice_index)]\n                    param.data[slice_index] = kept", "fire", "C04.1"),
    ("preserve-value-through-temporary-from-new", _MB, _SLICED, "                    kept = param.data[slice_index]\n                    param.data[slice_index] = kept", "fire", "C04.1"),
    ("preserve-norm-filter-else-branch-ok", _MB, "                elif \"norm\" not in key:\n                    # Create a slicing", "                elif \"norm\" in key:\n                    pass\n                else:\n                    # Create a slicing", "silent", None),
    ("preserve-index-alias-ok", _MB, _SLICED, "                    same = slice_index\n                    param.data[slice_index] = old_param.data[same]", "silent", None),
    ("preserve-index-in-place-ok", _MB, "                    slice_index = tuple(\n                        slice(0, min(o, n)) for o, n in zip(old_size, new_size)\n                    )\n" + _SLICED,
     "                    param.data[tuple(slice(0, min(o, n)) for o, n in zip(old_size, new_size))] = old_param.data[tuple(slice(0, min(o, n)) for o, n in zip(old_size, new_size))]", "silent", None),
]

_SHRINK_COPIES = ("                    min_0 = min(old_size[0], new_size[0])\n                    if len(param.data.size()) == 1:\n"
                  "                        param.data[:min_0] = old_param.data[:min_0]\n\n"
                  "                    # NOTE: We specifically implement this method to only maintain spatial\n"
                  "                    # information in convolutional layers when reducing kernel / channel\n                    # sizes within a layer.\n"
                  "                    else:\n                        min_1 = min(old_size[1], new_size[1])\n"
                  "                        param.data[:min_0, :min_1] = old_net_dict[key].data[\n                            :min_0, :min_1\n                        ]\n")
_ONE_COPY = "                    param.data[common] = old_param.data[common]\n"
_COMMON_0 = "                    common = (slice(0, min(old_size[0], new_size[0])),)\n"
_COMMON_1 = "                        common += (slice(0, min(old_size[1], new_size[1])),)\n"
_SHRINK_TAIL = ("        # Buffers (e.g. BatchNorm running statistics) also determine the function computed\n        old_buffers = dict(old_net.named_buffers())\n"
                "        for key, buffer in new_net.named_buffers():\n            if key in old_buffers and old_buffers[key].size() == buffer.size():\n"
                "                buffer.data = old_buffers[key].data\n\n"
                "        # A freshly built network is in training mode: keep the mode of the one it replaces\n        new_net.train(old_net.training)\n\n        return new_net\n")
_CARRY_HEAD = "\n        return new_net\n\n    @staticmethod\n    def carry_buffers_and_mode(old_net: nn.Module, new_net: nn.Module) -> None:\n        old_buffers = dict(old_net.named_buffers())\n"
_CARRY_LOOP = ("        for key, buffer in new_net.named_buffers():\n            old_buffer = old_buffers.get(key)\n"
               "            if old_buffer is not None and old_buffer.size() == buffer.size():\n                buffer.data = old_buffer.data\n")
_CARRY_MODE = "        new_net.train(old_net.training)\n"
VARIANTS += [
    # the two copy statements (1-D / n-D) merged into ONE whose index is selected beforehand == the two statements under the rank test
    ("shrink-one-copy-index-built-up-ok", _CNN, _SHRINK_COPIES, _COMMON_0 + "                    if len(new_size) != 1:\n" + _COMMON_1 + _ONE_COPY, "silent", None),
    ("shrink-one-copy-conditional-index-ok", _CNN, _SHRINK_COPIES,
     "                    first = slice(0, min(old_size[0], new_size[0]))\n"
     "                    common = (first,) if param.dim() == 1 else (first, slice(min(new_size[1], old_size[1])))\n" + _ONE_COPY, "silent", None),
    ("shrink-one-copy-generic-index-ok", _CNN, _SHRINK_COPIES,
     "                    common = tuple(slice(0, min(o, n)) for o, n in zip(old_size, new_size))[:2]\n" + _ONE_COPY, "silent", None),
    ("shrink-one-copy-rank-test-inverted", _CNN, _SHRINK_COPIES, _COMMON_0 + "                    if len(new_size) == 1:\n" + _COMMON_1 + _ONE_COPY, "fire", "C04.2"),
    ("shrink-one-copy-second-dim-of-old", _CNN, _SHRINK_COPIES,
     _COMMON_0 + "                    if len(new_size) != 1:\n                        common += (slice(0, old_size[1]),)\n" + _ONE_COPY, "fire", "C04.2"),
    ("shrink-one-copy-second-dim-cut-at-first", _CNN, _SHRINK_COPIES,
     _COMMON_0 + "                    if len(new_size) != 1:\n                        common += (slice(0, min(old_size[0], new_size[0])),)\n" + _ONE_COPY, "fire", "C04.2"),
    ("shrink-one-copy-first-dim-only", _CNN, _SHRINK_COPIES, _COMMON_0 + _ONE_COPY, "fire", "C04.2"),
    ("shrink-one-copy-generic-index-three-dims", _CNN, _SHRINK_COPIES,
     "                    common = tuple(slice(0, min(o, n)) for o, n in zip(old_size, new_size))[:3]\n" + _ONE_COPY, "fire", "C04.2"),
    ("shrink-one-copy-generic-index-max", _CNN, _SHRINK_COPIES,
     "                    common = tuple(slice(0, max(o, n)) for o, n in zip(old_size, new_size))[:2]\n" + _ONE_COPY, "fire", "C04.2"),
    ("shrink-one-copy-other-index-on-old", _CNN, _SHRINK_COPIES, _COMMON_0 + "                    if len(new_size) != 1:\n" + _COMMON_1
     + "                    param.data[common] = old_param.data[common[:1]]\n", "fire", "C04.2"),
    # buffers and mode carried over by a function that is handed both networks (not inlined by the front end: followed interprocedurally)
    ("shrink-buffers-and-mode-in-static-helper-ok", _CNN, _SHRINK_TAIL,
     "        EvolvableCNN.carry_buffers_and_mode(old_net, new_net)\n" + _CARRY_HEAD + _CARRY_LOOP + _CARRY_MODE, "silent", None),
    ("shrink-static-helper-by-keyword-ok", _CNN, _SHRINK_TAIL,
     "        rebuilt = new_net\n        EvolvableCNN.carry_buffers_and_mode(new_net=rebuilt, old_net=old_net)\n" + _CARRY_HEAD + _CARRY_LOOP + _CARRY_MODE, "silent", None),
    ("shrink-static-helper-networks-swapped", _CNN, _SHRINK_TAIL,
     "        EvolvableCNN.carry_buffers_and_mode(new_net, old_net)\n" + _CARRY_HEAD + _CARRY_LOOP + _CARRY_MODE, "fire", "C04.2"),
    ("shrink-static-helper-drops-buffers", _CNN, _SHRINK_TAIL,
     "        EvolvableCNN.carry_buffers_and_mode(old_net, new_net)\n" + _CARRY_HEAD + _CARRY_MODE, "fire", "C04.2"),
    ("shrink-static-helper-drops-mode", _CNN, _SHRINK_TAIL,
     "        EvolvableCNN.carry_buffers_and_mode(old_net, new_net)\n" + _CARRY_HEAD + _CARRY_LOOP, "fire", "C04.2"),
    ("shrink-static-helper-never-called", _CNN, _SHRINK_TAIL,
     "        return new_net\n        EvolvableCNN.carry_buffers_and_mode(old_net, new_net)\n" + _CARRY_HEAD + _CARRY_LOOP + _CARRY_MODE, "fire", "C04.2"),
]

_MLP_PRESERVE = "        self.model = EvolvableModule.preserve_parameters(\n            old_net=self.model, new_net=model\n        )"
VARIANTS += [
    # round 5: the stored network read into a local first stands for the attribute (parallel assignments are split by the front end)
    ("preserve-old-through-a-local-ok", "agilerl/modules/mlp.py", _MLP_PRESERVE,
     "        old_model, unused = self.model, None\n        self.model = EvolvableModule.preserve_parameters(old_model, model)", "silent", None),
    ("preserve-old-local-is-the-new-network", "agilerl/modules/mlp.py", _MLP_PRESERVE,
     "        old_model = model\n        self.model = EvolvableModule.preserve_parameters(old_model, model)", "fire", "C04.3"),
]
