"""C17.6 – C17.7 (helper module of c17), added after the third round of seeded changes, plus the form-independent model of the GAE recursion
that C17.1 / C17.2 are stated over.

* C17.6  `flatten_experiences` gives every component ONE flattening order whatever its rank: the summary C17.4 uses for it ("swap the two leading axes,
          then merge them") is DERIVED from its code.  Every path through the per-array flattening function that returns an array of rank >= 2 is
          followed back to the parameter through the chain of axis operations; all of them must merge the (step, env) axes in the same order.  A
          rank-dependent order (2-D arrays merged step-major, observations env-major) pairs each observation with the estimates of another
          (step, env): clause "each estimate ... is applied to exactly the observation and action ... it was computed for".
* C17.7  in every alternative of one iteration of the recursion, A_(t+1) and V_(t+1) are gated by the SAME not-terminal factor: the coefficient of
          the carried advantage is lambda times the coefficient of the next value (gamma*lambda*(1-d_(t+1)) vs gamma*(1-d_(t+1))), and the loop
          covers every step of the rollout.  A mask that is right on the TD error but shifted / different on the carried advantage leaks A_(t+1)
          of the next episode into A_t: clauses "A_t = delta_t + gamma lambda (1 - d_(t+1)) A_(t+1)" and "rewards and values that follow the
          start of a new episode never influence the estimates of the steps before it".

The recursion is found by its data flow, not by the shape of a statement: the store into the advantages buffer (the local handed over as field 3
of the sampled tuple) inside a `for` loop.  The stored value of ONE iteration is built as a term normal form in which
  - the carried advantage (a local whose in-loop definition is the stored value, read before it is re-assigned) stays a Rec atom = A_(t+1);
  - every other loop-carried local (successor value / not-terminal factor updated at the end of an iteration) is replaced by what the previous
    iteration (t+1 in a backward loop) assigned, i.e. its in-loop definition with t -> t+1; its definition before the loop is the alternative
    of the first iteration (the last step);
  - whole-array arithmetic is pushed to the element (`(r + g*nv*m - v)[t]` = `r[t] + g*nv[t]*m[t] - v[t]`), a shifted successor array
    `cat([X[a:], Y])[k]` is the alternative X[k+a] | Y, an accumulating store `A[t] += e` is `A_init[t] + e` and a read of the buffer at t+1 is
    A_(t+1).
"""
from __future__ import annotations

import ast
import re
from dataclasses import dataclass, field
from typing import Dict, List, Optional, Set, Tuple

from ..cfg import CFG, Node
from ..core import AnalysisError, Fn, Repo, call_name, calls_in, const_value, last_attr, short
from ..report import Check
from ..terms import Atom, Poly, TermBuilder, expand_phi, single_atom, walk_atoms

AU = "agilerl.utils.algo_utils"
SCALAR_KINDS = {"attr", "const", "meta", "self", "global"}
CAT_NAMES = {"cat", "concat", "concatenate"}


# ================================================================================================ term helpers
def mkphi(tb: TermBuilder, alts: List[Poly], node=None) -> Poly:
    uniq: List[Poly] = []
    for a in alts:
        if a not in uniq:
            uniq.append(a)
    if len(uniq) == 1:
        return uniq[0]
    o: Set[str] = set()
    for a in uniq:
        o |= tb.origins(a)
    return tb.mk("phi(" + " | ".join(sorted(a.key() for a in uniq)) + ")", "phi", o, node, uniq)


def mkidx(tb: TermBuilder, base: Poly, k: Poly, origins, node=None) -> Poly:
    """the atom the term builder makes for `<base>[<k>]`"""
    return tb.mk(f"idx({base.key()})[{k.key()}]", "idx", origins, node, [base, k], name=k.key())


def shift(tb: TermBuilder, p: Poly, tkey: str, off: int = 1, _d: int = 0) -> Poly:
    """p with the loop variable replaced by (loop variable + off) — the value the same expression had in the iteration `off` steps later in time."""
    if _d > 12:
        raise AnalysisError("C17: index shift nested too deeply")
    m: Dict[str, Poly] = {}
    for k in p.atoms():
        if k == tkey:
            m[k] = Poly.atom(k) + Poly.const(off)
            continue
        a = tb.atoms.get(k)
        if a is None or tkey not in k:
            continue
        if a.kind == "idx" and len(a.sub) == 2:
            m[k] = mkidx(tb, shift(tb, a.sub[0], tkey, off, _d + 1), shift(tb, a.sub[1], tkey, off, _d + 1), a.origins, a.node)
        elif a.kind == "idx" and len(a.sub) == 1:
            b = shift(tb, a.sub[0], tkey, off, _d + 1)
            m[k] = tb.mk(f"idx({b.key()})[{a.name}]", "idx", a.origins, a.node, [b], name=a.name)
        elif a.kind == "phi":
            m[k] = mkphi(tb, [shift(tb, s, tkey, off, _d + 1) for s in a.sub], a.node)
        elif a.kind == "rec":
            continue
        else:
            raise AnalysisError(f"C17: a loop-carried value depends on the time index through `{k[:80]}` — cannot be moved to the previous iteration")
    return p.subst(m) if m else p


def _cat_parts(tb: TermBuilder, a: Atom) -> Optional[Tuple[Poly, int, Poly, Atom]]:
    """cat([X[a:], Y]) along the time axis: (X, a, Y, atom of X)"""
    if a.kind != "call" or a.name not in CAT_NAMES or len(a.sub) < 2:
        return None
    seq = single_atom(tb, a.sub[1])
    if seq is None or seq.kind != "seq" or len(seq.sub) != 2:
        return None
    for extra in a.sub[2:]:
        if extra.const_value() != 0:  # dim / axis other than 0
            return None
    x = single_atom(tb, seq.sub[0])
    if x is None:
        return None
    if x.kind == "idx" and len(x.sub) == 1:
        mm = re.fullmatch(r"(\d+):", x.name.replace(" ", ""))
        if mm is None:
            return None
        xb = single_atom(tb, x.sub[0])
        if xb is None:
            return None
        return x.sub[0], int(mm.group(1)), seq.sub[1], xb
    return seq.sub[0], 0, seq.sub[1], x


@dataclass
class Shifted:
    """one read of a shifted successor array cat([X[a:], Y]) at index k"""
    x: Atom
    a: int
    y: Poly
    k: Poly
    node: Optional[ast.AST]


def elem(tb: TermBuilder, p: Poly, k: Poly, shifts: List[Shifted], _d: int = 0) -> Poly:
    """element k (along the leading axis) of the whole-array term p: arithmetic is elementwise, scalars (attributes, constants) are left alone"""
    if _d > 12:
        raise AnalysisError("C17: elementwise expansion nested too deeply")
    m: Dict[str, Poly] = {}
    for key in p.atoms():
        a = tb.atoms.get(key)
        if a is None or a.kind in SCALAR_KINDS:
            continue
        if a.kind == "phi":
            m[key] = mkphi(tb, [elem(tb, s, k, shifts, _d + 1) for s in a.sub], a.node)
            continue
        cp = _cat_parts(tb, a)
        if cp is not None:
            xp, off, y, xa = cp
            shifts.append(Shifted(xa, off, y, k, a.node))
            m[key] = mkphi(tb, [mkidx(tb, xp, k + Poly.const(off), xa.origins, a.node), y], a.node)
            continue
        m[key] = mkidx(tb, Poly.atom(key), k, a.origins, a.node)
    return p.subst(m) if m else p


def push_idx(tb: TermBuilder, p: Poly, shifts: List[Shifted], _d: int = 0) -> Poly:
    """`(whole-array expression)[k]` -> the expression of the elements; subscripts of a plain array are left as they are"""
    for _ in range(4):
        m: Dict[str, Poly] = {}
        for key in p.atoms():
            a = tb.atoms.get(key)
            if a is not None and a.kind == "phi" and _d < 8:
                # a subscripted whole-array expression that is one alternative of a case split (`m = 1 - next_done if last else (1 - dones)[t + 1]`)
                new = [push_idx(tb, s, shifts, _d + 1) for s in a.sub]
                if new != list(a.sub):
                    m[key] = mkphi(tb, new, a.node)
                continue
            if a is None or a.kind != "idx" or len(a.sub) != 2:
                continue
            b = single_atom(tb, a.sub[0])
            if b is not None and b.kind != "phi" and _cat_parts(tb, b) is None:
                continue
            m[key] = elem(tb, a.sub[0], a.sub[1], shifts)
        if not m:
            break
        p = p.subst(m)
    return p


def resolve_recs(tb: TermBuilder, p: Poly, carried: Dict[str, Poly], _d: int = 0) -> Poly:
    """Rec atoms of the carried successors replaced by the value the previous iteration assigned (also inside alternatives)"""
    if _d > 8:
        return p
    m: Dict[str, Poly] = {}
    for k in p.atoms():
        a = tb.atoms.get(k)
        if a is None:
            continue
        if a.kind == "rec" and a.name in carried:
            m[k] = carried[a.name]
        elif a.kind == "phi":
            new = [resolve_recs(tb, s, carried, _d + 1) for s in a.sub]
            if new != list(a.sub):
                m[k] = mkphi(tb, new, a.node)
    return p.subst(m) if m else p


def coefficient(p: Poly, key: str) -> Optional[Poly]:
    """p = key * c + rest (key occurring with exponent 1 only): c"""
    out = Poly()
    for mono, c in p.t.items():
        es = [e for k, e in mono if k == key]
        if not es:
            continue
        if es != [1]:
            return None
        out = out + Poly({tuple((k, e) for k, e in mono if k != key): c})
    return out


# ================================================================================================ the recursion, by data flow
@dataclass
class Carried:
    name: str
    inits: List[Node]
    inloop: List[Node]
    every_iteration: bool
    shifted: Optional[Poly]  # value in iteration t = what iteration t+1 assigned


@dataclass
class Recursion:
    node: Node  # the store into the advantages buffer
    loop: Node
    target: ast.Subscript
    buf: str
    aug: Optional[ast.operator]
    tvar: Optional[str] = None
    tt: Optional[Poly] = None
    term: Optional[Poly] = None  # stored value of one iteration
    carry: Optional[str] = None  # the local that carries A_(t+1) (None: the buffer itself is read at t+1)
    a_next: Optional[str] = None  # key of the atom standing for A_(t+1)
    carried: Dict[str, Carried] = field(default_factory=dict)
    shifts: List[Shifted] = field(default_factory=list)
    init_term: Optional[Poly] = None  # content of the buffer before the loop (whole array)
    bound: Optional[Poly] = None  # N of reversed(range(N))


def _derives(cfg: CFG, name: str, at: Node, root: str, depth: int = 0, seen: Optional[Set[Tuple[str, int]]] = None) -> bool:
    """does the value of `name` at `at` come from the local `root` (through re-bindings / helper calls)?"""
    if name == root:
        return True
    seen = seen if seen is not None else set()
    if depth > 6:
        return False
    for d in cfg.defs_reaching(at, name):
        if (name, d.id) in seen:
            continue
        seen.add((name, d.id))
        v = cfg.value_of_def(d, name)
        if v is None:
            continue
        for x in ast.walk(v):
            if isinstance(x, ast.Name) and isinstance(x.ctx, ast.Load) and _derives(cfg, x.id, d, root, depth + 1, seen):
                return True
    return False


def _in(loop: Node, n: Node) -> bool:
    return n.stmt is not None and any(x is n.stmt for b in loop.ast.body for x in ast.walk(b))


def find_recursion(cfg: CFG, tb: TermBuilder, fn: Fn, adv_field: Optional[str], sample_node: Optional[Node]) -> Recursion:
    """the store into the advantages buffer inside a `for` loop: `B[i] = v`, `B[i] = c = v`, `B[i] += v` — B is the local whose value is handed over
    as the advantages column of the sampled tuple"""
    label = fn.qualname
    cands: List[Recursion] = []
    loops = [l for l in cfg.live_nodes() if l.kind == "for"]
    for n in cfg.live_nodes():
        if n.kind != "stmt":
            continue
        if isinstance(n.ast, ast.Assign):
            tgs, aug = [t for t in n.ast.targets if isinstance(t, ast.Subscript)], None
        elif isinstance(n.ast, ast.AugAssign) and isinstance(n.ast.target, ast.Subscript):
            tgs, aug = [n.ast.target], n.ast.op
        else:
            continue
        encl = [l for l in loops if _in(l, n)]
        if len(tgs) != 1 or not isinstance(tgs[0].value, ast.Name) or not encl:
            continue
        cands.append(Recursion(n, encl[-1], tgs[0], tgs[0].value.id, aug))
    if adv_field is not None and sample_node is not None:
        cands = [c for c in cands if _derives(cfg, adv_field, sample_node, c.buf)]
    if len(cands) != 1:
        raise AnalysisError(f"{label}: GAE recursion (the store into the advantages buffer inside the backward loop) not found ({len(cands)} candidates)")
    return cands[0]


def model_recursion(cfg: CFG, tb: TermBuilder, fn: Fn, R: Recursion) -> Recursion:
    """fills in the stored value of one iteration (see the module docstring)"""
    label = fn.qualname
    L, rn = R.loop, R.node
    R.tvar = L.ast.target.id if isinstance(L.ast.target, ast.Name) else None
    if R.tvar is None:
        raise AnalysisError(f"{label}: the GAE loop does not bind a single time index")
    R.tt = tb.term(ast.Name(id=R.tvar, ctx=ast.Load()), rn)
    ta = single_atom(tb, R.tt)
    if ta is None:
        raise AnalysisError(f"{label}: the time index of the GAE loop is re-assigned inside the loop")
    tkey = ta.key
    R.bound = backward_bound(tb, L.ast.iter, L)
    raw = tb.term(rn.ast.value, rn)
    # ---- loop-carried locals read by the stored value
    names = sorted({a.name for a, _, _ in walk_atoms(tb, raw) if a.kind == "rec" and a.name})
    backs = [u for u in L.pred if cfg.dominates(L, u)]
    for nm in names:
        defs = cfg.defs_reaching(L, nm)
        inl = [d for d in defs if _in(L, d)]
        out = [d for d in defs if not _in(L, d)]
        if not inl:
            continue
        vals = []
        for d in inl:
            v = cfg.value_of_def(d, nm)
            vals.append(tb.term(v, d) if v is not None else None)
        if R.aug is None and nm != R.buf and len(inl) == 1 and vals[0] is not None and vals[0] == raw:
            R.carry = nm  # its in-loop definition IS the stored value: rec:<nm> = A_(t+1)
            continue
        if nm == R.buf:
            continue
        every = any(all(cfg.dominates(d, u) for u in backs) for d in inl) and bool(backs)
        sh = None
        if all(v is not None for v in vals):
            sh = mkphi(tb, [shift(tb, v, tkey) for v in vals])
        R.carried[nm] = Carried(nm, out, inl, every, sh)
    T = resolve_recs(tb, raw, {c.name: c.shifted for c in R.carried.values() if c.shifted is not None})
    T = resolve_recs(tb, T, {c.name: c.shifted for c in R.carried.values() if c.shifted is not None})
    # ---- content of the buffer before the loop
    inits = [d for d in cfg.defs_reaching(L, R.buf) if not _in(L, d)]
    if len(inits) == 1 and cfg.value_of_def(inits[0], R.buf) is not None:
        R.init_term = tb.term(cfg.value_of_def(inits[0], R.buf), inits[0])
    # ---- reads of the buffer itself: at t+1 the finished A_(t+1) (backward loop), at t the content before the loop
    bterm = tb.term(R.target.value, rn)
    m: Dict[str, Poly] = {}
    for a, _, _ in walk_atoms(tb, T):
        if a.kind == "idx" and len(a.sub) == 2 and a.sub[0] == bterm and a.key in T.atoms():
            if a.sub[1] == R.tt + Poly.const(1):
                nxt = tb.mk(f"rec:{R.buf}[t+1]@{fn.qualname}", "rec", [f"rec:{R.buf}"], a.node, name=R.buf)
                m[a.key] = nxt
                R.a_next = next(iter(nxt.atoms()))
            elif a.sub[1] == R.tt and R.init_term is not None:
                m[a.key] = elem(tb, R.init_term, R.tt, R.shifts)
    if m:
        T = T.subst(m)
    if R.aug is not None:
        if R.init_term is None or not isinstance(R.aug, (ast.Add, ast.Sub)):
            raise AnalysisError(f"{label}: accumulating store into the advantages buffer `{short(rn.ast, 60)}` cannot be modelled")
        prev = elem(tb, R.init_term, R.tt, R.shifts)
        T = prev + T if isinstance(R.aug, ast.Add) else prev - T
    T = push_idx(tb, T, R.shifts)
    if R.carry is not None:
        R.a_next = next((a.key for a, _, _ in walk_atoms(tb, T) if a.kind == "rec" and a.name == R.carry), None)
    R.term = T
    return R


def backward_bound(tb: TermBuilder, it: ast.AST, at: Node) -> Optional[Poly]:
    """N when the iteration visits N-1, N-2, ..., 0 in this order, whatever its spelling: reversed(range(N)), reversed(range(0, N[, 1])),
    range(N - 1, -1, -1); None for every other iteration (forward, another stride, another first / last step)"""
    if not isinstance(it, ast.Call) or it.keywords:
        return None
    if call_name(it) == "reversed" and len(it.args) == 1 and isinstance(it.args[0], ast.Call) and call_name(it.args[0]) == "range" and not it.args[0].keywords:
        a = it.args[0].args
        if len(a) == 1:
            return tb.term(a[0], at)
        if len(a) in (2, 3) and tb.term(a[0], at).const_value() == 0 and (len(a) == 2 or tb.term(a[2], at).const_value() == 1):
            return tb.term(a[1], at)
        return None
    if call_name(it) == "range" and len(it.args) == 3 and tb.term(it.args[1], at).const_value() == -1 and tb.term(it.args[2], at).const_value() == -1:
        return tb.term(it.args[0], at) + Poly.const(1)
    return None


def is_rollout_length(tb: TermBuilder, p: Poly) -> bool:
    """p is the number of steps of the rollout: <per-step array>.size(0) / .shape[0] / len(<per-step array>)"""
    a = single_atom(tb, p)
    if a is None:
        return False
    per_step = {"role:reward", "role:done", "role:value", "role:log_prob"}
    if a.kind == "call" and a.name == "size" and len(a.sub) == 2 and a.sub[1].const_value() == 0:
        return bool(tb.origins(a.sub[0]) & per_step)
    if a.kind == "call" and a.name == "len" and len(a.sub) == 1:
        return bool(tb.origins(a.sub[0]) & per_step)
    if a.kind == "idx" and a.name == "0" and a.sub:
        b = single_atom(tb, a.sub[0])
        if b is not None and b.kind == "meta" and b.key.startswith("meta:") and b.key.endswith(".shape"):
            arr = tb.atoms.get(b.key[len("meta:"):-len(".shape")])  # the array whose shape is taken
            return arr is not None and bool(arr.origins & per_step)
    return False


# ================================================================================================ the model shared by C17.1 / C17.2 / C17.7
@dataclass
class Alt:
    poly: Poly
    atoms: Dict[str, Atom]
    done_atoms: List[str]
    rew: List[str]
    vals: List[str]
    boot: List[str]
    recs: List[str]
    v_next: List[str]
    v_t: List[str]


@dataclass
class GaeModel:
    cfg: CFG
    tb: TermBuilder
    R: Recursion
    fields: Optional[List[str]]
    alts: List[Alt]


def has_role(a: Atom, role: str) -> bool:
    return f"role:{role}" in a.origins


def idx_at(R: Recursion, a: Atom, off: int) -> bool:
    """atom idx(<base>)[t + off]"""
    return a.kind == "idx" and a.name == (R.tt + Poly.const(off)).key()


def gae_model(repo: Repo, fn: Fn, depth: int) -> GaeModel:
    cache = repo.__dict__.setdefault("_c17_models", {})
    if fn.qualname in cache:
        return cache[fn.qualname]
    from .c17 import _sampled_fields
    cfg = CFG(fn.node)
    tb = TermBuilder(repo, fn, cfg=cfg, depth=depth)
    fields = _sampled_fields(cfg, fn)
    samp = [c for c in calls_in(fn.node) if call_name(c).split(".")[-1] == "get_experiences_samples"]
    R = find_recursion(cfg, tb, fn, fields[3] if fields is not None else None, cfg.node_of(samp[0]) if samp else None)
    model_recursion(cfg, tb, fn, R)
    alts: List[Alt] = []
    for A in expand_phi(tb, R.term, limit=64, rounds=6):
        atoms = {k: tb.atoms[k] for k in A.atoms() if k in tb.atoms}
        # done_(t+1): the flag stored with step t+1, or next_done (the flag that follows the last step)
        done_atoms = [k for k, a in atoms.items() if (has_role(a, "done") and not has_role(a, "value") and idx_at(R, a, 1)) or has_role(a, "next_done")]
        rew = [k for k, a in atoms.items() if has_role(a, "reward") and not has_role(a, "done")]
        vals = [k for k, a in atoms.items() if has_role(a, "value")]
        boot = [k for k, a in atoms.items() if a.kind == "call" and has_role(a, "next_obs")]
        recs = [k for k, a in atoms.items() if a.kind == "rec"]
        v_next = [k for k in vals if idx_at(R, atoms[k], 1)] + boot
        v_t = [k for k in vals if idx_at(R, atoms[k], 0)]
        alts.append(Alt(A, atoms, done_atoms, rew, vals, boot, recs, v_next, v_t))
    m = GaeModel(cfg, tb, R, fields, alts)
    cache[fn.qualname] = m
    return m


def pretty(tb: TermBuilder, R: Recursion, p: Optional[Poly], n: int = 220) -> str:
    """a term in the vocabulary of the property (for diagnoses): rewards[t], values[t+1], dones[t+2], next_done, critic(next_obs), A[t+1]"""
    if p is None:
        return "?"
    m: Dict[str, Poly] = {}
    for k in p.atoms():
        a = tb.atoms.get(k)
        if a is None:
            continue
        lab = None
        roles = [r for r in ("next_done", "reward", "done", "value", "log_prob") if has_role(a, r)]
        if a.kind == "attr":
            lab = k.split(".")[-1]
        elif a.kind == "rec":
            lab = "A[t+1]"
        elif a.kind == "call" and has_role(a, "next_obs"):
            lab = "critic(next_obs)"
        elif "next_done" in roles:
            lab = "next_done"
        elif a.kind == "idx" and len(a.sub) == 2 and len(roles) == 1 and R.tt is not None:
            c = (a.sub[1] - R.tt).const_value()
            if c is not None:
                lab = f"{roles[0]}s[t{'+' + str(c) if c > 0 else (str(c) if c < 0 else '')}]"
        if lab is not None:
            m[k] = Poly.atom(lab)
    out = p.subst(m).key() if m else p.key()
    return out if len(out) <= n else out[: n - 3] + "..."


# ================================================================================================ C17.7
def _gating(ck: Check, fn: Fn, M: GaeModel) -> None:
    label = fn.qualname
    tb, R = M.tb, M.R
    lam = Poly.atom("attr:self.gae_lambda")
    n = 0
    for i, al in enumerate(M.alts):
        if not al.recs:
            continue  # first iteration of a scalar carry: A_(T) = 0
        n += 1
        ca = coefficient(al.poly, al.recs[0]) if len(al.recs) == 1 else None
        cv = coefficient(al.poly, al.v_next[0]) if len(al.v_next) == 1 else None
        ok = ca is not None and cv is not None and bool(cv.t) and ca == lam * cv
        ck.ob("C17.7", fn, R.node.ast, ok, f"{label}: A_(t+1) is carried under the not-terminal factor that gates V_(t+1) (coefficient of A_(t+1) = lambda * coefficient of V_(t+1))",
              detail="" if ok else f"coefficient of A_(t+1): {pretty(tb, R, ca)} ; coefficient of V_next: {pretty(tb, R, cv)} — "
              "the flag that cuts the bootstrap at an episode end is not the one that cuts the carried advantage: A_(t+1) of the next episode leaks into A_t (or the "
              "recursion is cut one step early)",
              construct=f"{label}: gating of A_(t+1) against V_(t+1), alternative {i + 1}")
    ck.floor("C17.7", n, 1, f"{label}: alternatives of the recursion that carry A_(t+1)", fn=fn)
    # the loop covers the whole rollout
    if R.bound is not None:
        if R.aug is None:
            ok, what = is_rollout_length(tb, R.bound), "every step 0 .. T-1 (T = number of stored steps)"
        else:
            ok, what = is_rollout_length(tb, R.bound + Poly.const(1)), "the steps 0 .. T-2 (the last step keeps its TD error; T = number of stored steps)"
        ck.ob("C17.7", fn, R.loop.ast.iter, ok, f"{label}: the recursion loop covers {what}", detail=f"range bound {R.bound.key()[:160]}",
              construct=f"{label}: range of the recursion loop")


# ================================================================================================ C17.6
MERGE = {"reshape", "view", "flatten", "ravel"}
KEEP = {"float", "long", "to", "cpu", "cuda", "detach", "clone", "contiguous", "double", "int", "half", "copy", "astype", "numpy", "unsqueeze"}
State = Tuple[bool, Optional[str]]  # (two leading axes merged?, order of the two leading axes: 'id' | 'swap' | None = unknown)


def _flip(s: State) -> State:
    merged, o = s
    if merged or o is None:
        return (merged, None)
    return (False, "swap" if o == "id" else "id")


def _shape_of(cfg: CFG, e: ast.AST, at: Node) -> bool:
    """e denotes the shape of an array (X.shape, or a local bound to it)"""
    if isinstance(e, ast.Attribute) and e.attr == "shape":
        return True
    if isinstance(e, ast.Name):
        defs = cfg.defs_reaching(at, e.id)
        vals = [cfg.value_of_def(d, e.id) for d in defs]
        return bool(vals) and any(isinstance(v, ast.Attribute) and v.attr == "shape" for v in vals)
    return False


def _pads_only(cfg: CFG, c: ast.Call, args: List[ast.AST], at: Node) -> bool:
    """reshape(*X.shape, 1): appends axes, merges nothing"""
    return bool(args) and isinstance(args[0], ast.Starred) and _shape_of(cfg, args[0].value, at)


def _order(cfg: CFG, e: ast.AST, at: Node, depth: int = 0) -> Set[State]:
    """abstract value of an array expression inside the per-array flattening function: what happened to the two leading axes of the parameter"""
    if depth > 16:
        return {(False, None)}
    if isinstance(e, ast.Name):
        defs = cfg.defs_reaching(at, e.id)
        if not defs:
            return {(False, "id")}  # comprehension variable / global
        out: Set[State] = set()
        for d in defs:
            if d.kind in ("entry", "for"):
                out.add((False, "id"))
                continue
            v = cfg.value_of_def(d, e.id)
            out |= _order(cfg, v, d, depth + 1) if v is not None else {(False, None)}
        return out
    if isinstance(e, ast.IfExp):
        return _order(cfg, e.body, at, depth + 1) | _order(cfg, e.orelse, at, depth + 1)
    if isinstance(e, ast.Subscript):
        parts = e.slice.elts if isinstance(e.slice, ast.Tuple) else [e.slice]
        lead = []  # the positions that address the two leading axes (everything after an Ellipsis counts from the end)
        for p in parts[:2]:
            if isinstance(p, ast.Constant) and p.value is Ellipsis:
                break
            lead.append(p)
        full = lambda p: isinstance(p, ast.Slice) and p.lower is None and p.upper is None and p.step is None  # noqa: E731
        if all((isinstance(p, ast.Constant) and p.value in (None, Ellipsis)) or full(p) for p in parts) and not any(isinstance(p, ast.Constant) and p.value is None for p in lead):
            return _order(cfg, e.value, at, depth + 1)  # x[..., None], x[:, :, None]: trailing axes only
        return {(False, None)}
    if isinstance(e, ast.Attribute) and e.attr in ("data",):
        return _order(cfg, e.value, at, depth + 1)
    if isinstance(e, ast.Call):
        la = last_attr(e)
        cn = call_name(e)
        if isinstance(e.func, ast.Attribute) and cn.split(".")[0] in ("torch", "np", "numpy") and e.args:
            recv, args = e.args[0], list(e.args[1:])
        elif isinstance(e.func, ast.Attribute):
            recv, args = e.func.value, list(e.args)
        else:
            return {(False, None)}
        rs = _order(cfg, recv, at, depth + 1)
        if la in KEEP:
            return rs
        if la in ("swapaxes", "transpose") and len(args) == 2 and all(isinstance(const_value(a), int) for a in args):
            i, j = const_value(args[0]), const_value(args[1])
            if {i, j} == {0, 1}:
                return {_flip(s) for s in rs}
            if min(i, j) >= 2:
                return rs
            return {(s[0], None) for s in rs}
        if la in ("permute", "transpose") and args:
            idx = args[0].elts if len(args) == 1 and isinstance(args[0], (ast.Tuple, ast.List)) else args
            vals = [const_value(a) for a in idx]
            if len(vals) >= 2 and all(isinstance(v, int) for v in vals[:2]):
                if vals[:2] == [1, 0]:
                    return {_flip(s) for s in rs}
                if vals[:2] == [0, 1]:
                    return rs
            return {(s[0], None) for s in rs}
        if la in MERGE:
            if la in ("reshape", "view") and _pads_only(cfg, e, args, at):
                return rs
            if la == "flatten":
                sd = const_value(args[0]) if args else next((const_value(k.value) for k in e.keywords if k.arg == "start_dim"), 0)
                if isinstance(sd, int) and sd >= 2:
                    return rs
            return {(True, s[1]) for s in rs}
        return {(False, None)}
    return {(False, None)}


def _is_rank(cfg: CFG, e: ast.AST, at: Node) -> bool:
    if isinstance(e, ast.Attribute) and e.attr == "ndim":
        return True
    if isinstance(e, ast.Call) and last_attr(e) in ("dim", "ndimension") and isinstance(e.func, ast.Attribute) and not e.args:
        return True
    if isinstance(e, ast.Call) and call_name(e) == "len" and len(e.args) == 1:
        return _shape_of(cfg, e.args[0], at) or (isinstance(e.args[0], ast.Call) and last_attr(e.args[0]) == "size" and not e.args[0].args)
    if isinstance(e, ast.Name):
        vals = [cfg.value_of_def(d, e.id) for d in cfg.defs_reaching(at, e.id)]
        return bool(vals) and all(v is not None and not isinstance(v, ast.Name) and _is_rank(cfg, v, at) for v in vals)
    return False


INF = 10 ** 6


def _ranks(cfg: CFG, n: Node) -> Tuple[int, int]:
    """ranks of the parameter for which control reaches n, from the guards on its rank known there"""
    lo, hi = 0, INF
    for test, pol, tn in cfg.guards_at(n):
        if not (isinstance(test, ast.Compare) and len(test.ops) == 1):
            continue
        l, op, r = test.left, test.ops[0], test.comparators[0]
        if _is_rank(cfg, l, tn) and isinstance(const_value(r), int):
            c, rank_left = const_value(r), True
        elif _is_rank(cfg, r, tn) and isinstance(const_value(l), int):
            c, rank_left = const_value(l), False
        else:
            continue
        kind = type(op)
        if not rank_left:  # c OP rank  ->  rank OP' c
            kind = {ast.Lt: ast.Gt, ast.LtE: ast.GtE, ast.Gt: ast.Lt, ast.GtE: ast.LtE}.get(kind, kind)
        if not pol:
            kind = {ast.Lt: ast.GtE, ast.LtE: ast.Gt, ast.Gt: ast.LtE, ast.GtE: ast.Lt, ast.Eq: ast.NotEq, ast.NotEq: ast.Eq}.get(kind, kind)
        if kind is ast.Lt:
            hi = min(hi, c - 1)
        elif kind is ast.LtE:
            hi = min(hi, c)
        elif kind is ast.Gt:
            lo = max(lo, c + 1)
        elif kind is ast.GtE:
            lo = max(lo, c)
        elif kind is ast.Eq:
            lo, hi = max(lo, c), min(hi, c)
    return lo, hi


def _say(s: Set[State]) -> str:
    def one(x: State) -> str:
        merged, o = x
        if o is None:
            return "unknown axis order"
        if not merged:
            return "(step, env) axes not merged"
        return "env-major (leading axes swapped, then merged)" if o == "swap" else "step-major (merged as stored)"
    return " | ".join(sorted(one(x) for x in s)) if s else "nothing"


@dataclass
class FlatPath:
    fn_name: str
    node: Node
    lo: int
    hi: int
    states: Set[State]


def flatten_paths(repo: Repo) -> Tuple[Fn, List[FlatPath], List[ast.Call], Set[str]]:
    fe = repo.fn(AU, "flatten_experiences")
    local = {n.name: n for n in ast.walk(fe.node) if isinstance(n, ast.FunctionDef) and n is not fe.node}
    # the per-array function: a nested definition (or, when there is none, a function of the module) applied to a component / a member of a component,
    # i.e. to a loop or comprehension variable
    bound = {x.id for n in ast.walk(fe.node) for t in ([n.target] if isinstance(n, (ast.For, ast.comprehension)) else []) for x in ast.walk(t) if isinstance(x, ast.Name)}
    unary = [c for c in calls_in(fe.node) if isinstance(c.func, ast.Name) and len(c.args) == 1 and not c.keywords and isinstance(c.args[0], ast.Name) and c.args[0].id in bound]
    sites = [c for c in unary if c.func.id in local] or [c for c in unary if c.func.id in fe.mod.functions and c.func.id != fe.name]
    callees = {c.func.id for c in sites}
    paths: List[FlatPath] = []
    for nm in sorted(callees):
        g = local.get(nm) or fe.mod.functions[nm].node
        cfg = CFG(g)
        for n in cfg.live_nodes():
            if n.kind == "stmt" and isinstance(n.ast, ast.Return) and n.ast.value is not None:
                lo, hi = _ranks(cfg, n)
                paths.append(FlatPath(nm, n, lo, hi, _order(cfg, n.ast.value, n)))
    # merges written directly in the body of flatten_experiences (no per-array function)
    cfg0 = CFG(fe.node)
    inner = {id(c.func.value) for c in calls_in(fe.node) if isinstance(c.func, ast.Attribute)}
    for c in calls_in(fe.node):
        if isinstance(c.func, ast.Attribute) and c.func.attr in MERGE and id(c) not in inner:
            n = cfg0.node_of(c)
            if n is not None:
                paths.append(FlatPath(fe.name, n, 0, INF, _order(cfg0, c, n)))
                sites.append(c)
                callees.add(f"<{short(c, 40)}>")
    return fe, paths, sites, callees


def flatten_reference(repo: Repo) -> Optional[str]:
    """the order flatten_experiences gives to arrays of unbounded rank (observations): 'swap' | 'id' | None when it cannot be derived"""
    cached = getattr(repo, "_c17_flatten_ref", "?")
    if cached != "?":
        return cached
    ref: Optional[str] = None
    try:
        _, paths, _, _ = flatten_paths(repo)
        tops = [p for p in paths if p.hi >= INF and len(p.states) == 1]
        if tops:
            merged, o = next(iter(tops[0].states))
            ref = o if merged else None
    except AnalysisError:
        ref = None
    repo._c17_flatten_ref = ref  # type: ignore[attr-defined]
    return ref


def _flatten_order(ck: Check, repo: Repo) -> None:
    ck.rule("C17.6", "flatten_experiences merges the (step, env) axes of every component in ONE order whatever its rank (derived from its code: every returning path of the "
                     "per-array function, for ranks >= 2, swaps the two leading axes before merging them — or none does): row i of the observations, actions, log-probs, "
                     "advantages, returns and values is the same (step, env)")
    fe, paths, sites, callees = flatten_paths(repo)
    ck.floor("C17.6", len(sites), 3, "applications of the per-array flattening function in flatten_experiences (dictionary members, tuple members, plain arrays)", fn=fe)
    spelled = [c for c in callees if c.startswith("<")]
    ck.ob("C17.6", fe, fe.node, len(callees) == 1 or (len(spelled) == len(callees) and bool(callees)),
          "flatten_experiences: dictionary members, tuple members and plain arrays go through the same per-array flattening function (or all spell the axis operations out)",
          detail=f"applied: {sorted(callees)}", construct="flatten_experiences: per-array flattening function")
    live = [p for p in paths if p.hi >= 2 and p.lo <= p.hi]
    ck.floor("C17.6", len(live), 1, "returning paths of the per-array flattening function for arrays of rank >= 2", fn=fe)
    ref = flatten_reference(repo)
    for p in sorted(live, key=lambda p: (p.node.lineno, p.lo)):
        rk = f"rank {max(p.lo, 2)}" + ("" if p.hi == max(p.lo, 2) else (" and above" if p.hi >= INF else f" .. {p.hi}"))
        ok = len(p.states) == 1 and next(iter(p.states)) == (True, ref) and ref is not None
        ck.ob("C17.6", fe, p.node.ast, ok, f"flatten_experiences.{p.fn_name}: arrays of {rk} are merged in the order every other rank is merged in ({_say({(True, ref)})})",
              detail="" if ok else f"this path gives {_say(p.states)}: a (step, env) array handled here lands in other rows than the observations — every minibatch row pairs an "
              "observation with the advantage / return / old value / old log-prob of another step and environment",
              construct=f"flatten_experiences.{p.fn_name}: axis order for {rk}")


# ================================================================================================ entry point
def run_r3b(ck: Check, repo: Repo) -> None:
    from .c17 import LEARNERS
    _flatten_order(ck, repo)
    ck.rule("C17.7", "the carried advantage is gated like the bootstrap: in every alternative of one iteration of the recursion (found by its data flow, whatever the statement "
                     "shapes) the coefficient of A_(t+1) is lambda times the coefficient of V_(t+1) — the same (1 - done_(t+1)) cuts both at an episode end; and the backward "
                     "loop covers every stored step")
    for modname, q, depth in LEARNERS:
        fn = repo.fn(modname, q)
        _gating(ck, fn, gae_model(repo, fn, depth))
