"""C15.15 (helper module of c15), added after the fifth round of seeded changes.

* C15.15  member-wise merging of several dictionary observations is BY KEY: where the observations (or spaces / transitions) of several agents, environments
          or steps are merged member by member, every member is looked up under its key in every dictionary.  The `.values()` of the individual
          dictionaries are never lined up by position (`zip(*(t.values() for t in ts))`, `[list(t.values()) for t in ts]`, `map(dict.values, ts)`,
          `list(t.values())[i]`): two dictionaries with the same keys may have been built in a different insertion order, and then member `a` of one
          agent lands in the batch of member `b` of the others — silently when the shapes agree (clause: dict observations are handled member by
          member; the result for one agent does not depend on which other agents share the call).
"""
from __future__ import annotations

import ast
from typing import Dict, List, Optional, Set

from ..core import AnalysisError, Fn, Repo, call_name, dotted, last_attr, short, walk_no_nested
from ..report import Check

# the member-wise mergers of today's tree (module, qualified name)
_MERGERS = [("agilerl.utils.algo_utils", "concatenate_tensors"), ("agilerl.utils.algo_utils", "concatenate_spaces"),
            ("agilerl.utils.algo_utils", "stack_experiences"), ("agilerl.algorithms.core.base", "MultiAgentRLAlgorithm.stack_critic_observations"),
            ("agilerl.components.multi_agent_replay_buffer", "MultiAgentReplayBuffer.stack_transitions")]

_KEYED_ITERS = ("items",)


def _names(t: ast.AST) -> List[str]:
    return [x.id for x in ast.walk(t) if isinstance(x, ast.Name)]


def _element_vars(fn: Fn) -> Set[str]:
    """names bound to the ELEMENTS of a collection: targets of for statements / comprehension generators (through enumerate / zip), except the
    key / value pairs of `.items()` (those are keyed)."""
    out: Set[str] = set()
    for x in ast.walk(fn.node):
        pairs = []
        if isinstance(x, (ast.For, ast.AsyncFor)):
            pairs.append((x.target, x.iter))
        elif isinstance(x, (ast.ListComp, ast.SetComp, ast.GeneratorExp, ast.DictComp)):
            pairs.extend((g.target, g.iter) for g in x.generators)
        for tg, it in pairs:
            if isinstance(it, ast.Call) and isinstance(it.func, ast.Attribute) and it.func.attr in _KEYED_ITERS:
                continue
            out.update(_names(tg))
    return out


def _parents(root: ast.AST) -> Dict[int, ast.AST]:
    par: Dict[int, ast.AST] = {}
    for p in ast.walk(root):
        for c in ast.iter_child_nodes(p):
            par[id(c)] = p
    return par


def _positional_values(fn: Fn) -> List[ast.AST]:
    """uses of the values of an individual element dictionary in its own iteration order, other than as the iterable of a plain for statement
    (which visits one dictionary on its own)."""
    elems = _element_vars(fn)
    par = _parents(fn.node)
    bad: List[ast.AST] = []
    for x in ast.walk(fn.node):
        if isinstance(x, ast.Call) and isinstance(x.func, ast.Attribute) and x.func.attr == "values" and not x.args:
            recv = x.func.value
            if isinstance(recv, ast.Name) and recv.id in elems:
                p = par.get(id(x))
                if isinstance(p, (ast.For, ast.AsyncFor)) and p.iter is x:
                    continue
                bad.append(x)
        elif isinstance(x, ast.Call) and call_name(x).split(".")[-1] == "map" and x.args:
            f = x.args[0]
            if dotted(f) in ("dict.values", "OrderedDict.values", "Dict.values"):
                bad.append(x)
            elif isinstance(f, ast.Lambda) and isinstance(f.body, ast.Call) and isinstance(f.body.func, ast.Attribute) and f.body.func.attr == "values" \
                    and isinstance(f.body.func.value, ast.Name) and f.body.func.value.id in {a.arg for a in f.args.args}:
                bad.append(x)
    return bad


def _keyed_merge(ck: Check, repo: Repo) -> None:
    ck.rule("C15.15", "member-wise merging of several dictionary observations is by key: in every merger (concatenate_tensors, concatenate_spaces, stack_experiences, "
                      "stack_critic_observations, stack_transitions) a member is looked up under its key in each dictionary; the `.values()` of the individual "
                      "dictionaries are never lined up by position (zip(*(t.values() for t in ts)), [list(t.values()) for t in ts], map(dict.values, ts)) — "
                      "dictionaries with equal keys but another insertion order would be merged across members (clause: dict observations are handled member "
                      "by member, independent of which other agents share the call)")
    n = 0
    for modname, qual in _MERGERS:
        try:
            fn = repo.fn(modname, qual)
        except AnalysisError:
            continue
        n += 1
        bad = _positional_values(fn)
        ck.ob("C15.15", fn, bad[0] if bad else fn.node, not bad, f"{fn.qualname}: members of the merged dictionaries are paired by key, not by position of `.values()`",
              detail="" if not bad else f"`{short(bad[0], 60)}` takes each dictionary's values in its own insertion order; lined up across dictionaries, members "
                                        "of dictionaries built in a different key order are swapped in the merged batch",
              construct=f"{fn.qualname}: member pairing across dictionaries")
    ck.floor("C15.15", n, 5, "member-wise mergers of dictionary observations / spaces / transitions")


def run_r5(ck: Check, repo: Repo) -> None:
    _keyed_merge(ck, repo)
