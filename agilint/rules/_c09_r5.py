"""C09.7 (helper module of c09), added after the fifth round of seeded changes.

* C09.7  every (non-None) value assigned to the storage attribute of the single-agent buffers takes BOTH the shape and the dtype of every field
         from the transition data handed to add(): it is reached from that data through field-wise, dtype-preserving operations only
         (indexing, expand / clone / reshape ..., zeros_like / empty_like / new_zeros without a dtype override, apply with such a function) or
         through an explicit constructor whose `dtype=` is read from a data leaf and whose shape mentions a data leaf's shape.  A storage
         allocated with a default or configured dtype casts every later `storage[a:b] = data` store: int64 / float64 fields come back altered,
         so the stored transition is not intact.
"""
from __future__ import annotations

import ast
from typing import FrozenSet, List, Optional, Set, Tuple

from ..cfg import CFG, Node
from ..core import Cls, Fn, Repo, call_name, calls_in, dotted, get_kw, last_attr, short, walk_no_nested
from ..report import Check

RB = "agilerl.components.replay_buffer"

# methods of a tensor / TensorDict whose result has, field by field, the dtype of the receiver
_KEEP = {"expand", "expand_as", "clone", "reshape", "view", "unsqueeze", "squeeze", "contiguous", "detach", "repeat", "flatten", "unflatten",
         "zero_", "fill_", "cpu", "cuda", "pin_memory", "share_memory_", "lock_", "unlock_", "select", "exclude", "copy"}
_LIKE = {"torch.zeros_like", "torch.empty_like", "torch.ones_like", "torch.full_like"}
_NEW = {"new_zeros", "new_empty", "new_ones", "new_full"}
_CTOR = {"torch.zeros", "torch.empty", "torch.ones", "torch.full"}
_JOIN = {"torch.stack", "torch.cat", "torch.clone"}
_APPLY = {"apply", "named_apply", "apply_"}
_VIEWS = {"items", "values"}


class _Deriv:
    """Is an expression of `fn` derived from the root parameters field by field, keeping every field's dtype?"""

    def __init__(self, fn: Fn, cfg: CFG, roots: Set[str]) -> None:
        self.fn, self.cfg, self.roots = fn, cfg, roots
        self.why = ""
        self._busy: Set[Tuple[int, str]] = set()

    def _no(self, e: ast.AST, msg: str) -> bool:
        if not self.why:
            self.why = f"`{short(e, 70)}` {msg}"
        return False

    def from_data(self, e: ast.AST, at: Node, env: FrozenSet[str] = frozenset(), depth: int = 0) -> bool:
        if depth > 12:
            return self._no(e, "is too deep to follow")
        if isinstance(e, ast.Name):
            if e.id in env:
                return True
            defs = self.cfg.defs_reaching(at, e.id)
            if not defs:
                return self._no(e, "has no definition in the function")
            for d in defs:
                if d.kind == "entry":
                    if e.id not in self.roots:
                        return self._no(e, "is not the transition data")
                    continue
                if (d.id, e.id) in self._busy:  # loop-carried definition already being judged
                    continue
                self._busy.add((d.id, e.id))
                try:
                    if not self._def_ok(d, e.id, env, depth):
                        return self._no(e, "has a definition that is not derived from the transition data")
                finally:
                    self._busy.discard((d.id, e.id))
            return True
        if isinstance(e, ast.Subscript):
            return self.from_data(e.value, at, env, depth + 1)
        if isinstance(e, ast.IfExp):
            return self.from_data(e.body, at, env, depth + 1) and self.from_data(e.orelse, at, env, depth + 1)
        if isinstance(e, ast.Dict):
            return bool(e.values) and all(self.from_data(v, at, env, depth + 1) for v in e.values)
        if isinstance(e, (ast.List, ast.Tuple)):
            return bool(e.elts) and all(self.from_data(v, at, env, depth + 1) for v in e.elts)
        if isinstance(e, (ast.DictComp, ast.ListComp, ast.GeneratorExp)):
            env2 = set(env)
            for g in e.generators:
                it = g.iter
                if isinstance(it, ast.Call) and last_attr(it) in _VIEWS and isinstance(it.func, ast.Attribute) and not it.args:
                    it = it.func.value
                if not self.from_data(it, at, frozenset(env2), depth + 1):
                    return self._no(g.iter, "is not an iteration over the transition data")
                env2 |= {y.id for y in ast.walk(g.target) if isinstance(y, ast.Name)}
            val = e.value if isinstance(e, ast.DictComp) else e.elt
            return self.from_data(val, at, frozenset(env2), depth + 1)
        if isinstance(e, ast.Call):
            return self._call(e, at, env, depth)
        return self._no(e, "is not a dtype-preserving derivation of the transition data")

    def _def_ok(self, d: Node, name: str, env: FrozenSet[str], depth: int) -> bool:
        """definition d of `name` keeps it a field-wise, dtype-preserving derivation of the data: a plain binding to such a value, an element
        store `name[k] = v` of such a value into such a container, or the target of a loop over (the items / values of) such a container"""
        v = self.cfg.value_of_def(d, name)
        if v is not None:
            return self.from_data(v, d, env, depth + 1)
        s = d.ast
        if isinstance(s, ast.Assign) and len(s.targets) == 1 and isinstance(s.targets[0], ast.Subscript) and dotted(s.targets[0].value) == name:
            return self.from_data(s.value, d, env, depth + 1) and self.from_data(ast.Name(id=name, ctx=ast.Load()), d, env, depth + 1)
        if isinstance(s, ast.For) and any(isinstance(y, ast.Name) and y.id == name for y in ast.walk(s.target)):
            it = s.iter
            if isinstance(it, ast.Call) and last_attr(it) in _VIEWS and isinstance(it.func, ast.Attribute) and not it.args:
                it = it.func.value
            return self.from_data(it, d, env, depth + 1)
        return False

    def _dtype_ok(self, c: ast.Call, at: Node, env: FrozenSet[str], depth: int, required: bool) -> bool:
        kw = get_kw(c, "dtype")
        if kw is None:
            return (not required) or self._no(c, "allocates with the default dtype (float32), not with the dtype of the data field")
        return self._is_leaf_attr(kw, "dtype", at, env, depth) or self._no(c, "allocates with a dtype that is not read from the data field")

    def _is_leaf_attr(self, x: ast.AST, attr: str, at: Node, env: FrozenSet[str], depth: int) -> bool:
        if isinstance(x, ast.Attribute) and x.attr == attr:
            return self.from_data(x.value, at, env, depth + 1)
        if isinstance(x, ast.Name) and x.id not in env:
            defs = self.cfg.defs_reaching(at, x.id)
            vals = [(self.cfg.value_of_def(d, x.id), d) for d in defs]
            return bool(vals) and all(v is not None and self._is_leaf_attr(v, attr, d, env, depth + 1) for v, d in vals)
        return False

    def _shape_ok(self, c: ast.Call, at: Node, env: FrozenSet[str], depth: int) -> bool:
        for a in list(c.args) + [k.value for k in c.keywords if k.arg in ("size", "shape")]:
            for x in ast.walk(a):
                if isinstance(x, ast.Attribute) and x.attr == "shape" and self.from_data(x.value, at, env, depth + 1):
                    return True
                if isinstance(x, ast.Call) and last_attr(x) == "size" and isinstance(x.func, ast.Attribute) and self.from_data(x.func.value, at, env, depth + 1):
                    return True
                if isinstance(x, ast.Name) and self._is_leaf_attr(x, "shape", at, env, depth + 1):
                    return True
        return self._no(c, "allocates with a shape that does not come from the data field")

    def _function(self, f: ast.AST, at: Node, env: FrozenSet[str], depth: int) -> bool:
        """f (the argument of apply) maps every leaf to a tensor of the leaf's dtype"""
        if isinstance(f, ast.Lambda):
            ps = {p.arg for p in f.args.posonlyargs + f.args.args}
            return self.from_data(f.body, at, frozenset(env | ps), depth + 1)
        if isinstance(f, ast.Name):
            for x in ast.walk(self.fn.node):
                if isinstance(x, ast.FunctionDef) and x.name == f.id and x is not self.fn.node:
                    ps = {p.arg for p in x.args.posonlyargs + x.args.args}
                    rets = [r for r in walk_no_nested(x) if isinstance(r, ast.Return)]
                    simple = len(x.body) == len(rets) == 1 or all(isinstance(s, (ast.Return, ast.Expr)) for s in x.body)
                    return (simple and bool(rets) and all(r.value is not None and self.from_data(r.value, at, frozenset(env | ps), depth + 1) for r in rets)) \
                        or self._no(f, "is a local function whose result is not known to keep the leaf's dtype")
        return self._no(f, "is not a function known to keep the leaf's dtype")

    def _call(self, c: ast.Call, at: Node, env: FrozenSet[str], depth: int) -> bool:
        cn, la = call_name(c), last_attr(c)
        if cn in _LIKE:
            return bool(c.args) and self.from_data(c.args[0], at, env, depth + 1) and self._dtype_ok(c, at, env, depth, False)
        if cn in _CTOR:
            return self._dtype_ok(c, at, env, depth, True) and self._shape_ok(c, at, env, depth)
        if cn in _JOIN:
            return bool(c.args) and self.from_data(c.args[0], at, env, depth + 1)
        if cn.split(".")[-1] in ("TensorDict", "from_dict") and c.args:
            return self.from_data(c.args[0], at, env, depth + 1)
        if isinstance(c.func, ast.Attribute) and not cn.startswith("torch."):
            recv = c.func.value
            if la in _KEEP:
                return self.from_data(recv, at, env, depth + 1)
            if la == "to":
                typed = [a for a in list(c.args) + [k.value for k in c.keywords if k.arg != "device"]
                         if get_kw(c, "dtype") is not None or dotted(a).endswith("dtype") or (dotted(a).startswith("torch.") and not isinstance(a, ast.Call))]
                if typed:
                    return self._no(c, "converts the data to another dtype")
                return self.from_data(recv, at, env, depth + 1)
            if la in _NEW:
                return self.from_data(recv, at, env, depth + 1) and self._dtype_ok(c, at, env, depth, False)
            if la in _APPLY and c.args:
                return self.from_data(recv, at, env, depth + 1) and self._function(c.args[0], at, env, depth)
        return self._no(c, "is not a dtype-preserving derivation of the transition data (a default / configured dtype replaces the field's own)")


def _storage_attr(add: Fn) -> Optional[str]:
    """role: the attribute whose slices add() stores the transitions into"""
    names = {dotted(n.targets[0].value) for n in walk_no_nested(add.node) if isinstance(n, ast.Assign) and isinstance(n.targets[0], ast.Subscript)
             and isinstance(n.targets[0].slice, ast.Slice) and dotted(n.targets[0].value).startswith("self.")}
    return names.pop() if len(names) == 1 else None


def _data_params(cls: Cls, add: Fn, m: Fn) -> Set[str]:
    """parameters of m that hold the transition data: add's own first parameter, or the parameters of a method of the class that add()
    passes (a dtype-preserving derivation of) that data for"""
    a = add.node.args
    own = [p.arg for p in a.posonlyargs + a.args][1:2]
    if m is add:
        return set(own)
    cfg = CFG(add.node)
    dv = _Deriv(add, cfg, set(own))
    ma = m.node.args
    params = [p.arg for p in ma.posonlyargs + ma.args][1:]
    out: Set[str] = set()
    for c in calls_in(add.node):
        if call_name(c) != f"self.{m.name}":
            continue
        at = cfg.node_of(c)
        if at is None:
            continue
        for k, x in enumerate(c.args):
            if k < len(params) and dv.from_data(x, at):
                out.add(params[k])
        for kw in c.keywords:
            if kw.arg in params + [p.arg for p in ma.kwonlyargs] and dv.from_data(kw.value, at):
                out.add(kw.arg)
    return out


def _storage_dtype(ck: Check, repo: Repo) -> None:
    ck.rule("C09.7", "each transition intact: every value assigned to the buffer's storage takes the shape AND the dtype of every field from the transition data "
                     "passed to add() (dtype-preserving derivation: zeros_like / empty_like / new_zeros / clone / expand / apply of such, or an explicit "
                     "dtype= read from the data leaf); a default or configured dtype casts the stored values")
    rb = repo.cls(RB, "ReplayBuffer")
    add = rb.methods["add"]
    attr = _storage_attr(add)
    ck.floor("C09.7", 1 if attr else 0, 1, "storage attribute written slice-wise by ReplayBuffer.add", fn=add)
    if attr is None:
        return
    sites: List[Tuple[Fn, ast.AST, ast.AST]] = []
    for cname in ("ReplayBuffer", "MultiStepReplayBuffer", "PrioritizedReplayBuffer"):
        cls = repo.cls(RB, cname)
        for m in cls.methods.values():
            for s in walk_no_nested(m.node):
                tg = s.targets if isinstance(s, ast.Assign) else ([s.target] if isinstance(s, ast.AnnAssign) and s.value is not None else [])
                if any(dotted(t) == attr for t in tg) and not (isinstance(s.value, ast.Constant) and s.value.value is None):
                    sites.append((m, s, s.value))
    ck.floor("C09.7", len(sites), 1, "allocation (non-None assignment) of the storage in the single-agent buffers")
    for m, s, v in sites:
        cfg = CFG(m.node)
        at = cfg.node_of(s)
        dv = _Deriv(m, cfg, _data_params(rb, add, m))
        ok = at is not None and dv.from_data(v, at)
        ck.ob("C09.7", m, s, ok, f"{m.qualname}: the storage takes every field's shape and dtype from the first transition's data",
              detail="" if ok else (dv.why or "the allocation is not reached from the transition data") +
              " — later `storage[a:b] = data` stores cast each field to the storage's dtype, so int64 / float64 values come back altered",
              construct=f"{m.qualname}: storage allocation `{short(v, 80)}`")


def run_r5(ck: Check, repo: Repo) -> None:
    _storage_dtype(ck, repo)
