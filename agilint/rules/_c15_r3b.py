"""C15.12 – C15.14 (helper module of c15), added after the third round of seeded changes.

* C15.12  what happens to an observation on the preparation path is decided by the SPACE and the FLAGS, never by the observed VALUES: no branch of
          obs_to_tensor / maybe_add_batch_dim / get_vect_dim / preprocess_observation / apply_image_normalization tests the data of the observation
          (a reduction such as min / max / any / all / mean, a comparison of its elements, the tensor itself).  Tests may read what does not change
          with the values: its type, shape, rank, length, device, dtype, identity.  Serves "preparing a batch gives row by row the same result as
          preparing each observation on its own": a test on the values is a test on ALL rows of the call, so one row is treated differently depending
          on which other rows (observations, environments, steps) share the batch.
* C15.13  "images are min-max scaled with the space's bounds": the two bounds that enter (x - low) / (high - low) are the bound ARRAYS of the space.
          On every path they flow from `<space>.low` / `<space>.high` through shape-preserving conversions only (torch.tensor / as_tensor /
          np.asarray, .to(), .astype(), .float() ...).  A reduction on the way (`.min()`, `.max()`, `float(...)`, an element) scales every channel /
          pixel with one global extreme: spaces with per-channel or per-pixel bounds are value-incorrect.
* C15.14  "policies shared by homogeneous agents": the rows of a shared policy's batch are produced by IPPO.preprocess_observation, which joins one
          block of rows per agent of the group, and cut back into per-agent pieces by disassemble_homogeneous_outputs.  Both layouts are derived
          from the code — producer: along which axis the per-agent blocks are joined (cat on the batch axis / stack + merge: agent is the slow or the
          fast index of the row number); consumer: the shape the rows are reshaped to (which position holds the agent count, which the number of
          environments), the axis permutations applied afterwards and the axis along which the piece of the k-th agent is taken — and must agree:
          the piece of an agent is cut along the axis that counts the agents, and that axis is the slow index of the row number exactly when the
          producer made it so.  Otherwise action, log-probability and value computed for (agent a, environment e) are handed to another pair.
          (assemble_homogeneous_outputs is not constrained: its only consumer averages over all rows.)
"""
from __future__ import annotations

import ast
from typing import Dict, List, Optional, Set, Tuple

from ..cfg import CFG, Node
from ..core import AnalysisError, Fn, Repo, call_name, calls_in, const_value, dotted, get_kw, last_attr, short, walk_no_nested
from ..report import Check
from .c15 import AU, BASE, _alt_defs, _iteration_role

IP = "agilerl.algorithms.ippo"


# =================================================================================================== C15.12  no branch on the observed values
_PREP_FNS = ["obs_to_tensor", "maybe_add_batch_dim", "get_vect_dim", "preprocess_observation", "apply_image_normalization"]
_META_ATTRS = {"shape", "ndim", "device", "dtype", "is_cuda", "batch_size", "is_sparse", "layout"}
_META_FUNCS = {"isinstance", "type", "len", "id", "hasattr", "callable", "torch.is_tensor", "torch.is_floating_point", "np.ndim", "np.shape", "np.isscalar"}
_META_METHODS = {"dim", "size", "ndimension", "get_device", "keys", "numel", "is_floating_point", "is_contiguous", "element_size"}


class _DataReads:
    """Sub-expressions of a test through which the VALUES of the first parameter (the observation) are read, followed through local definitions.
    Reading the type, shape, rank, length, device, dtype or identity of the observation is not reading its values."""

    def __init__(self, fn: Fn, cfg: CFG):
        self.fn, self.cfg, self.obs = fn, cfg, fn.named_params[0]

    def of(self, e: Optional[ast.AST], at: Optional[Node], seen: Optional[Set] = None, tainted: frozenset = frozenset()) -> List[ast.AST]:
        seen = set() if seen is None else seen
        if e is None or isinstance(e, (ast.Constant, ast.Lambda)):
            return []
        if isinstance(e, ast.Name):
            if e.id in tainted:
                return [e]
            hit = False
            for d in (self.cfg.defs_reaching(at, e.id) if at is not None else []):
                if (d.id, e.id) in seen:
                    continue  # a loop-carried definition that is being followed already
                seen = seen | {(d.id, e.id)}
                if d.kind == "entry":
                    hit = hit or e.id == self.obs
                elif d.kind == "for":
                    hit = hit or bool(self.of(d.ast.iter, d, seen))
                else:
                    v = self.cfg.value_of_def(d, e.id)
                    if v is None:
                        v = getattr(d.ast, "value", None) if d.kind == "stmt" else None
                    hit = hit or bool(self.of(v, d, seen))
            return [e] if hit else []
        if isinstance(e, ast.Attribute):
            return [] if e.attr in _META_ATTRS else self.of(e.value, at, seen, tainted)
        if isinstance(e, ast.Call):
            if call_name(e) in _META_FUNCS or (isinstance(e.func, ast.Attribute) and e.func.attr in _META_METHODS):
                return []
            parts = ([e.func.value] if isinstance(e.func, ast.Attribute) else []) + list(e.args) + [k.value for k in e.keywords]
            out: List[ast.AST] = []
            for p in parts:
                r = self.of(p, at, seen, tainted)
                # the reduction / call through which the values are read names the construct better than the bare local
                out += [e if (x is p and isinstance(e.func, ast.Attribute) and p is e.func.value) else x for x in r]
            return out
        if isinstance(e, ast.Compare) and all(isinstance(o, (ast.Is, ast.IsNot)) for o in e.ops):
            return []
        if isinstance(e, (ast.ListComp, ast.SetComp, ast.GeneratorExp, ast.DictComp)):
            out = []
            t = set(tainted)
            for g in e.generators:
                r = self.of(g.iter, at, seen, frozenset(t))
                if r:
                    # elements of the observation are data: what the clause binds carries the values
                    t |= {x.id for x in ast.walk(g.target) if isinstance(x, ast.Name)}
                for c in g.ifs:
                    out += self.of(c, at, seen, frozenset(t))
            for el in ([e.key, e.value] if isinstance(e, ast.DictComp) else [e.elt]):
                out += self.of(el, at, seen, frozenset(t))
            return out
        if isinstance(e, ast.Starred):
            return self.of(e.value, at, seen, tainted)
        out = []
        for ch in ast.iter_child_nodes(e):
            if isinstance(ch, ast.expr):
                out += self.of(ch, at, seen, tainted)
        return out


def _branch_tests(fn: Fn) -> List[Tuple[ast.AST, ast.AST]]:
    """(test, owner) of every if / elif / while statement, conditional expression and comprehension filter of the function."""
    out: List[Tuple[ast.AST, ast.AST]] = []
    for n in walk_no_nested(fn.node):
        if isinstance(n, (ast.If, ast.While, ast.IfExp)):
            out.append((n.test, n))
        elif isinstance(n, ast.comprehension):
            out += [(c, n) for c in n.ifs]
    out.sort(key=lambda p: (getattr(p[0], "lineno", 0), getattr(p[0], "col_offset", 0)))
    return out


def _only_rejects(owner: ast.AST) -> bool:
    """the branch the test guards does nothing but raise (a validation of the input: the call fails as a whole, no row is treated differently)."""
    return isinstance(owner, ast.If) and any(bool(b) and all(isinstance(s, ast.Raise) for s in b) for b in (owner.body, owner.orelse))


def _value_independent_branches(ck: Check, repo: Repo) -> None:
    ck.rule("C15.12", "whether and how an observation is converted, batched or normalised is decided by the space and the flags, never by the observed values: no "
                      "branch on the preparation path tests the data of the observation (min / max / any / all / mean / sum, comparisons of its elements); tests read "
                      "only its type, shape, rank, length, device or dtype — a test on the values is a test on all rows of the call, so the same observation would be "
                      "prepared differently depending on what shares the batch (clause: a batch gives row by row the same result as each observation on its own)")
    n = 0
    for q in _PREP_FNS:
        fn = repo.fn(AU, q)
        cfg = CFG(fn.node)
        dr = _DataReads(fn, cfg)
        for test, owner in _branch_tests(fn):
            n += 1
            reads = dr.of(test, cfg.node_of(test))
            ok = not reads or _only_rejects(owner)
            ck.ob("C15.12", fn, test, ok, f"{q}: the branch does not depend on the observed values",
                  detail="" if ok else f"the test reads the values of the observation through {sorted({short(r, 50) for r in reads})}: it is evaluated over everything that shares the "
                                       "call, so one and the same observation takes this branch or the other depending on the rest of the batch (and a legal observation "
                                       "whose values happen to satisfy it is not prepared as its space prescribes)",
                  construct=f"{q}: branch on `{short(test, 90)}`")
    ck.floor("C15.12", n, 24, "branch tests on the preparation path")


# =================================================================================================== C15.13  the bounds are arrays
_CONVERT_FUNCS = {"torch.tensor", "torch.as_tensor", "torch.from_numpy", "torch.asarray", "torch.Tensor", "torch.FloatTensor", "np.asarray", "np.array", "np.asanyarray",
                  "np.ascontiguousarray", "np.float32", "np.float64"}
_CONVERT_METHODS = {"to", "astype", "float", "double", "half", "type", "type_as", "clone", "copy", "detach", "cpu", "cuda", "contiguous", "numpy", "requires_grad_", "pin_memory"}
_BROADCAST_METHODS = {"unsqueeze", "expand_as"}


def _not_elementwise(cfg: CFG, e: Optional[ast.AST], space: str, attr: str, depth: int = 0) -> Optional[ast.AST]:
    """None when `e` is `<space>.<attr>` under shape-preserving conversions only (temporaries looked through), otherwise the first operation that is not one."""
    if e is None or depth > 8:
        return ast.Constant(value=None)
    if isinstance(e, ast.Attribute) and dotted(e) == f"{space}.{attr}":
        return None
    if isinstance(e, ast.Name):
        alts = _alt_defs(cfg, cfg.node_of(e), e)
        if not alts or any(a is e or (isinstance(a, ast.Name) and a.id == e.id) for a in alts):
            return e
        return next((b for b in (_not_elementwise(cfg, a, space, attr, depth + 1) for a in alts) if b is not None), None)
    if isinstance(e, ast.Call):
        if call_name(e) in _CONVERT_FUNCS and e.args:
            return _not_elementwise(cfg, e.args[0], space, attr, depth + 1)
        if isinstance(e.func, ast.Attribute) and e.func.attr in (_CONVERT_METHODS | _BROADCAST_METHODS):
            return _not_elementwise(cfg, e.func.value, space, attr, depth + 1)
        if call_name(e) == "np.expand_dims" and e.args:
            return _not_elementwise(cfg, e.args[0], space, attr, depth + 1)
    if isinstance(e, ast.Subscript):
        idx = e.slice.elts if isinstance(e.slice, ast.Tuple) else [e.slice]
        if all((isinstance(i, ast.Constant) and i.value in (None, Ellipsis)) or (isinstance(i, ast.Slice) and i.lower is None and i.upper is None and i.step is None) for i in idx):
            return _not_elementwise(cfg, e.value, space, attr, depth + 1)  # x[None], x[None, ...]: a broadcast axis, every element kept
    return e


def _scalings(fn: Fn, cfg: CFG) -> List[Tuple[Node, ast.BinOp]]:
    """(x - L) / (H - L') quotients among the values the function returns (a returned temporary is looked through)."""
    out = []
    for n in cfg.live_nodes():
        if n.kind == "stmt" and isinstance(n.ast, ast.Return) and n.ast.value is not None:
            for v in _alt_defs(cfg, n, n.ast.value):
                if isinstance(v, ast.BinOp) and isinstance(v.op, ast.Div) and isinstance(v.left, ast.BinOp) and isinstance(v.left.op, ast.Sub) \
                        and isinstance(v.right, ast.BinOp) and isinstance(v.right.op, ast.Sub):
                    out.append((cfg.node_of(v) or n, v))
    return out


def _bound_arrays(ck: Check, repo: Repo) -> None:
    ck.rule("C15.13", "the bounds of the min-max scaling are the space's bound arrays, element by element: on every path the `low` and `high` that enter "
                      "(x - low) / (high - low) flow from <space>.low / <space>.high through shape-preserving conversions only (tensor construction, device / dtype moves), "
                      "never through a reduction (.min() / .max() / float(...) / an element) — with per-channel or per-pixel bounds a global extreme scales every "
                      "element with the wrong range (clause: images are min-max scaled with the space's bounds; sharpens C15.4)")
    fn = repo.fn(AU, "apply_image_normalization")
    cfg = CFG(fn.node)
    space = fn.named_params[1]
    n = 0
    done: Set[Tuple[int, str]] = set()
    for at, v in _scalings(fn, cfg):
        for operand, attr in ((v.left.right, "low"), (v.right.left, "high"), (v.right.right, "low")):
            for alt in _alt_defs(cfg, at, operand):
                if (id(alt), attr) in done:
                    continue  # the same binding used twice in the quotient
                done.add((id(alt), attr))
                n += 1
                bad = _not_elementwise(cfg, alt, space, attr)
                ck.ob("C15.13", fn, alt, bad is None, f"the `{attr}` bound of the scaling is the space's {attr} array (shape-preserving conversions only)",
                      detail="" if bad is None else f"`{short(bad, 60)}` is not a shape-preserving conversion of {space}.{attr} — one number stands for every channel / pixel, "
                                                     "so a space whose bounds differ between channels is scaled with the global extreme",
                      construct=f"apply_image_normalization: {attr} bound <- {short(alt, 80)}")
    ck.floor("C15.13", n, 4, "bound values reaching the scaling (x - low) / (high - low)", fn=fn)


# =================================================================================================== C15.14  producer / consumer layout of a shared policy's rows
_CAT = {"torch.cat", "torch.concat", "torch.concatenate", "np.concatenate"}
_VSTACK = {"torch.vstack", "np.vstack", "torch.row_stack"}
_STACK = {"torch.stack", "np.stack"}
_AGENT, _ENV, _REST = "agent", "env", "rest"


class _Underivable(Exception):
    pass


def _parents(root: ast.AST) -> Dict[int, ast.AST]:
    return {id(ch): p for p in ast.walk(root) for ch in ast.iter_child_nodes(p)}


def _axis_of(call: ast.Call, pos: int) -> Optional[int]:
    a = get_kw(call, "dim") if get_kw(call, "dim") is not None else get_kw(call, "axis", pos)
    if a is None:
        return 0
    v = const_value(a)
    return v if isinstance(v, int) and not isinstance(v, bool) else None


def _join_layouts(repo: Repo, fn: Fn, call: ast.Call, arg: ast.AST, depth: int = 0) -> List[Tuple[Fn, ast.Call, str]]:
    """How `call`, evaluated in `fn`, joins the per-agent blocks (env rows first) it receives as `arg`: (function, joining call, slow index of the row number).
    cat / vstack on axis 0 puts the blocks one after the other (agent slow); stack on axis k followed by a merge of the two leading axes makes the agent the
    slow index for k = 0 and the fast one for k = 1.  A function of the package is followed to the joins it applies to the parameter that receives the blocks
    (its recursion over Dict / Tuple members is per member and joins nothing)."""
    name = call_name(call)
    if name in _CAT or name in _VSTACK:
        ax = 0 if name in _VSTACK else _axis_of(call, 1)
        if ax != 0:
            raise _Underivable(f"`{short(call, 60)}` joins the agents' blocks on axis {ax}, not on the batch axis")
        return [(fn, call, _AGENT)]
    if name in _STACK:
        ax = _axis_of(call, 1)
        par = _parents(fn.node)
        cur: ast.AST = call
        order = [_AGENT, _ENV] if ax == 0 else ([_ENV, _AGENT] if ax == 1 else None)
        while order is not None:
            p = par.get(id(cur))
            if isinstance(p, ast.Attribute) and isinstance(par.get(id(p)), ast.Call) and par[id(p)].func is p:
                m, c2 = p.attr, par[id(p)]
                if m in ("transpose", "swapaxes") and sorted(const_value(a) for a in c2.args) == [0, 1]:
                    order = order[::-1]
                elif m == "flatten" and [const_value(a) for a in c2.args] in ([0, 1], [0]) or m == "flatten" and const_value(get_kw(c2, "start_dim", 0)) == 0 and const_value(get_kw(c2, "end_dim", 1)) == 1:
                    return [(fn, call, order[0])]
                elif m in ("reshape", "view") and c2.args and const_value(c2.args[0] if not isinstance(c2.args[0], (ast.Tuple, ast.List)) else c2.args[0].elts[0]) == -1:
                    return [(fn, call, order[0])]
                elif m in ("contiguous", "float", "to", "clone"):
                    pass
                else:
                    break
                cur = c2
            else:
                break
        raise _Underivable(f"`{short(call, 60)}` stacks the agents' blocks on axis {ax}; how the agent axis is merged with the batch axis is not recognised")
    callee = repo.resolve(fn.mod, name) if name and "?" not in name else None
    if isinstance(callee, Fn) and depth < 3:
        pos = next((i for i, a in enumerate(call.args) if a is arg), None)
        kw = next((k.arg for k in call.keywords if k.value is arg), None)
        prm = kw if kw is not None else (callee.named_params[pos] if pos is not None and pos < len(callee.named_params) else None)
        if prm is None:
            raise _Underivable(f"`{short(call, 60)}`: the parameter that receives the agents' blocks is not identified")
        ccfg = CFG(callee.node)
        out: List[Tuple[Fn, ast.Call, str]] = []
        for c in calls_in(callee.node, nested=True):
            if call_name(c) == callee.name:
                continue
            for a in c.args[:1]:
                alts = _alt_defs(ccfg, ccfg.node_of(c), a)
                if any(isinstance(x, ast.Name) and x.id == prm for x in alts) and (call_name(c) in _CAT | _VSTACK | _STACK or isinstance(repo.resolve(callee.mod, call_name(c)), Fn)):
                    out += _join_layouts(repo, callee, c, a, depth + 1)
        if out:
            return out
    raise _Underivable(f"`{short(call, 60)}`: no join of the agents' blocks is recognised")


def _producer(repo: Repo) -> List[Tuple[Fn, ast.Call, str]]:
    """The joins IPPO.preprocess_observation applies to the per-group lists it fills with one prepared observation per agent."""
    fn = repo.fn(IP, "IPPO.preprocess_observation")
    lists: Set[str] = set()
    for c in calls_in(fn.node, nested=True):
        if last_attr(c) == "append" and isinstance(c.func, ast.Attribute) and c.args and isinstance(c.args[0], ast.Call) and call_name(c.args[0]).split(".")[-1] == "preprocess_observation":
            recv = c.func.value
            base = recv.value if isinstance(recv, ast.Subscript) else recv
            if isinstance(base, ast.Name):
                lists.add(base.id)
    out: List[Tuple[Fn, ast.Call, str]] = []
    for c in calls_in(fn.node, nested=True):
        if last_attr(c) == "append":
            continue
        for a in list(c.args) + [k.value for k in c.keywords]:
            base = a.value if isinstance(a, ast.Subscript) else a
            if isinstance(base, ast.Name) and base.id in lists:
                out += _join_layouts(repo, fn, c, a)
    return out


class _Layout:
    """An array obtained from the flat rows of a group by ONE reshape: `labels` are the roles of the reshaped axes in memory order (slowest first),
    `perm` the current order of those axes after the permutations applied since."""

    def __init__(self, labels: List[str], perm: Optional[List[int]] = None):
        self.labels, self.perm = labels, list(range(len(labels))) if perm is None else perm

    def permuted(self, perm: List[int]) -> "_Layout":
        return _Layout(self.labels, [self.perm[i] for i in perm])

    def cut(self, axis: int) -> Tuple[str, str]:
        """(role of the current axis `axis`, role of the slowest axis of the reshape)."""
        if not -len(self.perm) <= axis < len(self.perm):
            raise _Underivable(f"axis {axis} of a rank-{len(self.perm)} array")
        return self.labels[self.perm[axis]], self.labels[0]


class _Consumer:
    def __init__(self, repo: Repo):
        self.fn = repo.fn(BASE, "MultiAgentRLAlgorithm.disassemble_homogeneous_outputs")
        self.cfg = CFG(self.fn.node)
        prm = [p for p in self.fn.named_params if p != "self"]
        if len(prm) < 2:
            raise AnalysisError("C15.14: disassemble_homogeneous_outputs(<group outputs>, <number of environments>) expected")
        self.src, self.env = prm[0], prm[1]

    # ---- roles of sizes, index variables and agent lists
    def _alts(self, e: ast.AST) -> List[ast.AST]:
        return _alt_defs(self.cfg, self.cfg.node_of(e), e)

    def _one(self, e: ast.AST) -> ast.AST:
        a = self._alts(e)
        if len(a) != 1:
            raise _Underivable(f"`{short(e, 40)}` has {len(a)} possible values")
        return a[0]

    def is_group_agents(self, e: ast.AST) -> bool:
        """`e` is the list of the agents of one group: self.homogeneous_agents[<group id>] (through temporaries, list(...) / tuple(...))."""
        v = self._one(e)
        while isinstance(v, ast.Call) and call_name(v) in ("list", "tuple") and len(v.args) == 1:
            v = self._one(v.args[0])
        return isinstance(v, ast.Subscript) and dotted(v.value) == "self.homogeneous_agents"

    def size_role(self, e: ast.AST) -> str:
        v = self._one(e)
        if const_value(v) == -1:
            return _REST
        if isinstance(v, ast.Name) and v.id == self.env:
            return _ENV
        if isinstance(v, ast.Call) and call_name(v) == "len" and len(v.args) == 1 and self.is_group_agents(v.args[0]):
            return _AGENT
        if isinstance(v, ast.BinOp) and isinstance(v.op, ast.FloorDiv):
            d = self.size_role(v.right)
            if d in (_AGENT, _ENV):
                return _ENV if d == _AGENT else _AGENT  # rows // agents = environments, rows // environments = agents
        raise _Underivable(f"the size `{short(v, 40)}` is neither the group's agent count, the number of environments nor -1")

    def is_agent_counter(self, idx: ast.AST) -> bool:
        """`idx` counts the agents of the group: the counter of enumerate(<group agents>) or the variable of range(<agent count>)."""
        if not isinstance(idx, ast.Name):
            return False
        r = _iteration_role(self.fn, self.cfg, idx, idx.id)
        if r is None:
            return False
        if r[1] == "counter":
            return self.is_group_agents(r[2])
        it = r[2]
        return isinstance(it, ast.Call) and call_name(it) == "range" and len(it.args) == 1 and self.size_role(it.args[0]) == _AGENT

    # ---- arrays
    def is_raw(self, e: ast.AST) -> bool:
        """`e` is the flat output of one group as handed in: <first parameter>[<group id>] with no store to that entry reaching the read."""
        return isinstance(e, ast.Subscript) and isinstance(e.value, ast.Name) and e.value.id == self.src and not self._entry_stores(e)

    def _entry_stores(self, e: ast.Subscript) -> List[ast.AST]:
        """values stored into the same entry of the same mapping (`M[k] = v`) that reach the read `e`."""
        at = self.cfg.node_of(e)
        out = []
        for d in (self.cfg.defs_reaching(at, e.value.id) if at is not None and isinstance(e.value, ast.Name) else []):
            s = d.ast
            if d.kind == "stmt" and isinstance(s, ast.Assign) and d is not at:
                for t in s.targets:
                    if isinstance(t, ast.Subscript) and isinstance(t.value, ast.Name) and t.value.id == e.value.id and ast.dump(t.slice) == ast.dump(e.slice):
                        out.append(s.value)
        return out

    def layout(self, e: ast.AST, depth: int = 0) -> _Layout:
        if depth > 8:
            raise _Underivable("too deep")
        if isinstance(e, ast.Name):
            return self.layout(self._one(e), depth + 1) if self._one(e) is not e else self._fail(e)
        if isinstance(e, ast.Subscript) and isinstance(e.value, ast.Name) and not isinstance(e.slice, (ast.Slice, ast.Tuple)):
            st = self._entry_stores(e)
            if len(st) == 1:
                return self.layout(st[0], depth + 1)
        if isinstance(e, ast.Call):
            nm, meth = call_name(e), (e.func.attr if isinstance(e.func, ast.Attribute) else "")
            is_np = nm.split(".")[0] in ("np", "numpy", "torch")
            recv, args = (e.args[0], e.args[1:]) if is_np and e.args else ((e.func.value, e.args) if meth else (None, []))
            op = nm.split(".")[-1] if is_np else meth
            if recv is not None and op in ("reshape", "view"):
                shape = args[0] if len(args) == 1 else (get_kw(e, "newshape") or get_kw(e, "shape") if not args else ast.Tuple(elts=list(args), ctx=ast.Load()))
                shape = self._one(shape) if isinstance(shape, ast.Name) else shape
                if not isinstance(shape, (ast.Tuple, ast.List)):
                    raise _Underivable(f"the shape `{short(shape, 40)}` of the reshape is not a literal tuple")
                if not self._raw_under_views(recv):
                    raise _Underivable(f"`{short(recv, 40)}` is reshaped, which is not the group's output as handed in")
                return _Layout([self.size_role(x) for x in shape.elts])
            if recv is not None and op == "moveaxis" and len(args) == 2:
                src, dst = const_value(args[0]), const_value(args[1])
                lay = self.layout(recv, depth + 1)
                if isinstance(src, int) and isinstance(dst, int):
                    order = list(range(len(lay.perm)))
                    order.insert(dst % len(order), order.pop(src % len(order)))
                    return lay.permuted(order)
            if recv is not None and op in ("swapaxes",) or (op == "transpose" and len(args) == 2 and not is_np):
                a, b = (const_value(x) for x in args[:2]) if len(args) >= 2 else (None, None)
                lay = self.layout(recv, depth + 1)
                if isinstance(a, int) and isinstance(b, int):
                    order = list(range(len(lay.perm)))
                    order[a], order[b] = order[b], order[a]
                    return lay.permuted(order)
            if recv is not None and op in ("transpose", "permute"):
                axes = args[0].elts if len(args) == 1 and isinstance(args[0], (ast.Tuple, ast.List)) else args
                lay = self.layout(recv, depth + 1)
                order = [const_value(x) for x in axes]
                if all(isinstance(x, int) for x in order) and sorted(x % len(lay.perm) for x in order) == list(range(len(lay.perm))):
                    return lay.permuted([x % len(lay.perm) for x in order])
            if (nm in ("list", "tuple", "np.asarray", "np.array", "np.ascontiguousarray") and len(e.args) == 1) or meth in ("copy", "clone", "contiguous"):
                return self.layout(e.args[0] if not meth else e.func.value, depth + 1)
            if nm in ("np.split", "np.array_split", "torch.chunk") and len(e.args) >= 2 and self._raw_under_views(e.args[0]) and _axis_of(e, 2) == 0:
                # k equal consecutive runs of rows = reshape (k, rows // k, -1), one run per leading index
                first = self.size_role(e.args[1])
                return _Layout([first, _ENV if first == _AGENT else _AGENT, _REST])
        if isinstance(e, ast.Attribute) and e.attr == "T":
            lay = self.layout(e.value, depth + 1)
            return lay.permuted(list(range(len(lay.perm)))[::-1])
        return self._fail(e)

    def _fail(self, e: ast.AST) -> _Layout:
        raise _Underivable(f"the axes of `{short(e, 60)}` are not derived from a reshape of the group's output")

    def _raw_under_views(self, e: ast.AST) -> bool:
        if isinstance(e, ast.Name):
            v = self._one(e)
            return v is not e and self._raw_under_views(v)
        if isinstance(e, ast.Call) and ((call_name(e) in ("np.asarray", "np.array", "np.ascontiguousarray") and e.args) or (isinstance(e.func, ast.Attribute) and e.func.attr in ("copy", "numpy", "cpu"))):
            return self._raw_under_views(e.args[0] if call_name(e).startswith("np.") else e.func.value)
        return self.is_raw(e)

    # ---- the piece handed to one agent
    def piece(self, v: ast.AST, depth: int = 0) -> Tuple[str, str]:
        """(role of the axis along which the piece `v` of one agent is taken, role of the slowest axis of the reshape)."""
        if depth > 6:
            raise _Underivable("too deep")
        if isinstance(v, ast.Name):
            r = _iteration_role(self.fn, self.cfg, v, v.id)
            if r is not None and r[1] == "elem":
                return self.layout(r[2]).cut(0)  # iterating an array walks its leading axis
            one = self._one(v)
            if one is not v:
                return self.piece(one, depth + 1)
        if isinstance(v, ast.Call) and isinstance(v.func, ast.Attribute) and v.func.attr in ("copy", "clone", "squeeze") and not v.args:
            return self.piece(v.func.value, depth + 1)
        if isinstance(v, ast.Call) and call_name(v) in ("np.take", "torch.select") and len(v.args) >= 2:
            ax = _axis_of(v, 2) if call_name(v) == "np.take" else const_value(v.args[1])
            idx = v.args[1] if call_name(v) == "np.take" else (v.args[2] if len(v.args) > 2 else None)
            if isinstance(ax, int) and idx is not None and self.is_agent_counter(idx):
                return self.layout(v.args[0]).cut(ax)
        if isinstance(v, ast.Subscript):
            idx = v.slice.elts if isinstance(v.slice, ast.Tuple) else [v.slice]
            full = lambda i: (isinstance(i, ast.Slice) and i.lower is None and i.upper is None and i.step is None) or (isinstance(i, ast.Constant) and i.value is Ellipsis)
            hits = [k for k, i in enumerate(idx) if self.is_agent_counter(i)]
            if len(hits) == 1 and all(full(i) for k, i in enumerate(idx) if k != hits[0]) and not any(isinstance(i, ast.Constant) for i in idx[:hits[0]]):
                return self.layout(v.value).cut(hits[0])
        raise _Underivable(f"how `{short(v, 60)}` selects the rows of one agent is not recognised")

    def pieces(self) -> List[Tuple[ast.AST, ast.AST]]:
        """(site, expression of the piece handed to one agent) for every store into the mapping the function returns."""
        res: Set[str] = set()
        direct: List[ast.AST] = []
        for n in self.cfg.live_nodes():
            if n.kind == "stmt" and isinstance(n.ast, ast.Return) and n.ast.value is not None:
                if isinstance(n.ast.value, ast.Name):
                    res.add(n.ast.value.id)
                    direct += [v for v in _alt_defs(self.cfg, n, n.ast.value) if not isinstance(v, ast.Name)]
                else:
                    direct.append(n.ast.value)
        out: List[Tuple[ast.AST, ast.AST]] = []
        for x in walk_no_nested(self.fn.node):
            if isinstance(x, ast.Assign):
                for t in x.targets:
                    if isinstance(t, ast.Subscript) and isinstance(t.value, ast.Name) and t.value.id in res:
                        out.append((x, x.value))
            elif isinstance(x, ast.Call) and last_attr(x) == "update" and isinstance(x.func, ast.Attribute) and isinstance(x.func.value, ast.Name) and x.func.value.id in res and len(x.args) == 1:
                out += [(x, p) for p in self._pairs(x.args[0])]
        for v in direct:
            if not (isinstance(v, ast.Dict) and not v.keys) and not (isinstance(v, ast.Call) and call_name(v) == "dict" and not v.args and not v.keywords):
                out += [(v, p) for p in self._pairs(v)]
        return out

    def _pairs(self, e: ast.AST) -> List[ast.AST]:
        """the per-agent pieces of an expression that yields (agent id, piece) pairs / a mapping from agent id to piece."""
        if isinstance(e, ast.Name):
            one = self._one(e)
            if one is not e:
                return self._pairs(one)
        if isinstance(e, ast.Call) and call_name(e) == "dict" and len(e.args) == 1 and not e.keywords:
            return self._pairs(e.args[0])
        if isinstance(e, ast.Call) and call_name(e) == "zip" and len(e.args) == 2 and self.is_group_agents(e.args[0]):
            # pairing the agents with an array pairs the k-th agent with index k of its leading axis
            return [ast.copy_location(ast.Subscript(value=e.args[1], slice=ast.Name(id="<k-th agent>", ctx=ast.Load()), ctx=ast.Load()), e)]
        if isinstance(e, ast.DictComp):
            return [e.value]
        if isinstance(e, (ast.ListComp, ast.GeneratorExp)) and isinstance(e.elt, ast.Tuple) and len(e.elt.elts) == 2:
            return [e.elt.elts[1]]
        raise _Underivable(f"`{short(e, 60)}` is not recognised as (agent id, piece) pairs")

    def piece_of(self, p: ast.AST) -> Tuple[str, str]:
        if isinstance(p, ast.Subscript) and isinstance(p.slice, ast.Name) and p.slice.id == "<k-th agent>":
            return self.layout(p.value).cut(0)
        return self.piece(p)


def _shared_policy_layout(ck: Check, repo: Repo) -> None:
    ck.rule("C15.14", "producer / consumer layout agreement for policies shared by homogeneous agents: IPPO.preprocess_observation joins one block of rows per agent of a "
                      "group, disassemble_homogeneous_outputs cuts the group's output back into per-agent pieces; the piece of the k-th agent is taken along the axis "
                      "whose size is the group's agent count, and that axis is the slow index of the row number exactly when the producer joined the blocks that way "
                      "(both derived from the code: join axis; reshape shape, axis permutations, selection axis) — otherwise the action / log-prob / value of "
                      "(agent a, env e) is attributed to another (agent, env) pair although the two helpers still invert each other")
    ga = repo.fn(IP, "IPPO.get_action")
    uses = [c for c in calls_in(ga.node, nested=True) if last_attr(c) == "disassemble_homogeneous_outputs"]
    feeds = [c for c in calls_in(ga.node, nested=True) if dotted(c.func) == "self.preprocess_observation"]
    ck.floor("C15.14", len(uses) if feeds else 0, 1, "outputs computed from self.preprocess_observation(obs) and split with disassemble_homogeneous_outputs", fn=ga)
    try:
        prod = _producer(repo)
        cons = _Consumer(repo)
        sites = [(site, cons.piece_of(p)) for site, p in cons.pieces()]
    except _Underivable as e:
        raise AnalysisError(f"C15.14: the row layout of a shared policy's batch cannot be derived: {e}")
    ck.floor("C15.14", len(prod), 1, "joins of the per-agent blocks of a shared policy")
    ck.floor("C15.14", len(sites), 1, "stores of a per-agent piece into the result of disassemble_homogeneous_outputs")
    for site, (axis_role, slow) in sites:
        ck.ob("C15.14", cons.fn, site, axis_role == _AGENT, "the piece of the k-th agent is taken along the axis that counts the agents of the group",
              detail="" if axis_role == _AGENT else f"the selection runs along the axis declared with the {'number of environments' if axis_role == _ENV else 'remaining size'}: agent k receives "
                                                     "rows that belong to several agents",
              construct=f"disassemble_homogeneous_outputs: per-agent selection axis ({short(site, 70)})")
        for pfn, join, pslow in prod:
            ok = slow == pslow
            ck.ob("C15.14", cons.fn, site, ok, f"the rows are cut in the order in which {pfn.qualname} joined them ({pslow}-major)",
                  detail="" if ok else f"`{short(join, 50)}` in {pfn.qualname} lays the rows out {pslow}-major (row = {'agent * n_envs + env' if pslow == _AGENT else 'env * n_agents + agent'}), "
                                        f"the reshape here reads them {slow}-major: the output computed for (agent a, env e) is handed to another (agent, env) pair whenever the group "
                                        "has several agents and the environment is vectorised",
                  construct=f"disassemble_homogeneous_outputs: row order vs {pfn.qualname} ({short(site, 60)})")


def run_r3b(ck: Check, repo: Repo) -> None:
    _value_independent_branches(ck, repo)
    _bound_arrays(ck, repo)
    _shared_policy_layout(ck, repo)
