"""C19.6 (helper module of c19), added after the third round of seeded changes.

* C19.6  re-sizing the output layer re-initialises the matrix, in the very method that did it.  An architecture mutation replaces the bandit's
         network by a clone whose layers were re-created, possibly with another number of output-layer parameters.  `_reinit_bandit_grads`
         re-points exp_layer / numel / theta_0 but is handed an "old" layer read from the network AFTER the mutation was applied (old == new),
         so it never adds or removes a row of sigma_inv; the only statement that brings the matrix to the new size is the run of the
         registered hooks (`init_params`, C19.2).  Every public method of `Mutations` is an entry point of its own (tests and user code call
         `architecture_mutate` directly; `Mutations.mutation` merely dispatches to them), so each one that applies an architecture mutation
         has to run the hooks itself: on every path a bandit can take from the application to a normal return.

The sites are found structurally: an *architecture mutation is applied* where a method named at run time is invoked on a network
(`getattr(net, name)(...)`), directly or through a helper method of the class; the individual concerned is the parameter the network was read
from (def-use), the re-initialisation is a call `<that individual>.mutation_hook()` or a direct call of a method both bandits register as hook.
Branches that a bandit cannot take (the other outcome of `isinstance(individual, (NeuralTS, NeuralUCB))`) are not followed.
"""
from __future__ import annotations

import ast
from typing import Dict, List, Optional, Set, Tuple

from ..cfg import CFG, Node
from ..core import Cls, Fn, Repo, call_name, calls_in, dotted, last_attr, short, walk_no_nested
from ..registry import extract
from ..report import Check

MUT = "agilerl.hpo.mutation"
BASE = "agilerl.algorithms.core.base"
BANDIT_CLASSES = {"NeuralUCB", "NeuralTS"}


# ----------------------------------------------------------------------------------------------------------- what re-sizes a network
def _dynamic_invocation(c: ast.Call) -> bool:
    """getattr(obj, name)(...): a method chosen at run time is invoked on obj (how a sampled architecture mutation is applied to a network)."""
    f = c.func
    return isinstance(f, ast.Call) and isinstance(f.func, ast.Name) and f.func.id == "getattr" and len(f.args) == 2


def _self_callee(cls: Cls, c: ast.Call) -> Optional[Fn]:
    f = c.func
    if isinstance(f, ast.Attribute) and isinstance(f.value, ast.Name) and f.value.id == "self":
        return cls.methods.get(f.attr)
    return None


def _resizes(cls: Cls, fn: Fn, memo: Dict[str, bool], depth: int = 0) -> bool:
    """fn applies an architecture mutation to a network: it contains a dynamic method invocation, or calls a method of the class that does."""
    if fn.name in memo:
        return memo[fn.name]
    memo[fn.name] = False
    out = False
    for c in calls_in(fn.node):
        callee = _self_callee(cls, c)
        if _dynamic_invocation(c) or (callee is not None and depth < 3 and _resizes(cls, callee, memo, depth + 1)):
            out = True
            break
    memo[fn.name] = out
    return out


# ----------------------------------------------------------------------------------------------------------- def-use helpers
def _param_roots(cfg: CFG, at: Node, e: ast.AST, params: Set[str]) -> Set[str]:
    """The parameters of the method the value of e is derived from (names followed through their reaching definitions)."""
    out: Set[str] = set()
    seen: Set[Tuple[int, str]] = set()
    work = [(at, x.id) for x in ast.walk(e) if isinstance(x, ast.Name)]
    while work:
        n, name = work.pop()
        if (n.id, name) in seen:
            continue
        seen.add((n.id, name))
        for d in cfg.defs_reaching(n, name):
            if d.kind == "entry":
                if name in params:
                    out.add(name)
                continue
            srcs: List[ast.AST] = []
            if d.kind == "for":
                srcs = [d.ast.iter]  # type: ignore[attr-defined]
            elif d.kind == "with":
                srcs = [it.context_expr for it in d.ast.items]  # type: ignore[attr-defined]
            elif isinstance(d.ast, (ast.Assign, ast.AnnAssign, ast.AugAssign)) and d.ast.value is not None:
                srcs = [d.ast.value]
            for s in srcs:
                work += [(d, x.id) for x in ast.walk(s) if isinstance(x, ast.Name)]
    return out


def _alias_of_param(cfg: CFG, at: Node, e: ast.AST, params: Set[str]) -> Optional[str]:
    """p when e is the parameter p itself or a local that only ever holds it (`agent = individual`); None otherwise."""
    k = 0
    while isinstance(e, ast.Name) and k < 6:
        defs = cfg.defs_reaching(at, e.id)
        if len(defs) != 1:
            return None
        if defs[0].kind == "entry":
            return e.id if e.id in params else None
        v = cfg.value_of_def(defs[0], e.id)
        if v is None:
            return None
        at, e, k = defs[0], v, k + 1
    return None


def _class_names(cfg: CFG, at: Node, e: ast.AST) -> Set[str]:
    """class names an isinstance() class argument denotes: a name, a dotted name, a tuple of them, or a local bound to one."""
    if isinstance(e, (ast.Tuple, ast.List)):
        return {n for x in e.elts for n in _class_names(cfg, at, x)}
    if isinstance(e, ast.Name):
        defs = cfg.defs_reaching(at, e.id)
        if len(defs) == 1 and defs[0].kind != "entry":
            v = cfg.value_of_def(defs[0], e.id)
            if v is not None:
                return _class_names(cfg, defs[0], v)
        return {e.id}
    if isinstance(e, ast.Attribute):
        return {e.attr}
    return set()


def _bandit_test(cfg: CFG, t: Node, owner: str, params: Set[str]) -> Optional[bool]:
    """The outcome the test has for a bandit when it is `isinstance(<owner>, <both bandit classes>)` (possibly negated); None for other tests."""
    e, pol = t.ast, True
    while isinstance(e, ast.UnaryOp) and isinstance(e.op, ast.Not):
        e, pol = e.operand, not pol
    if isinstance(e, ast.Call) and isinstance(e.func, ast.Name) and e.func.id == "isinstance" and len(e.args) == 2 \
            and _alias_of_param(cfg, t, e.args[0], params) == owner and BANDIT_CLASSES <= _class_names(cfg, t, e.args[1]):
        return pol
    return None


def _bandit_succ(cfg: CFG, n: Node, owner: str, params: Set[str]) -> List[Node]:
    """Normal successors of n on executions in which <owner> is a bandit."""
    succ = [s for s in n.succ if s.id not in n.exc_succ]
    if n.kind == "test" and isinstance(n.stmt, ast.If) and n.true_succ is not None:
        outcome = _bandit_test(cfg, n, owner, params)
        if outcome is not None:
            others = [n.false_succ] if n.false_succ is not None else [s for s in succ if s is not n.true_succ]
            return [n.true_succ] if outcome else others
    return succ


def _escape(cfg: CFG, start: Node, stops: Set[int], owner: str, params: Set[str]) -> Optional[Node]:
    """The last statement of a path a bandit can take from `start` to the normal exit that passes no node of `stops`; None when there is none."""
    seen: Set[int] = set()
    work = [start]
    while work:
        n = work.pop()
        for s in _bandit_succ(cfg, n, owner, params):
            if s is cfg.exit:
                return n
            if s.id in seen or s.id in stops:
                continue
            seen.add(s.id)
            work.append(s)
    return None


# ----------------------------------------------------------------------------------------------------------- the rule
def _hook_methods(repo: Repo) -> Set[str]:
    """methods every bandit registers (unconditionally) as mutation hook"""
    common: Optional[Set[str]] = None
    for modname, cname in (("agilerl.algorithms.neural_ucb_bandit", "NeuralUCB"), ("agilerl.algorithms.neural_ts_bandit", "NeuralTS")):
        names = {h.name for h in extract(repo, modname, cname).hooks if not h.cond}
        common = names if common is None else common & names
    return common or set()


def _resize_reinitialised(ck: Check, repo: Repo) -> None:
    ck.rule("C19.6", "size clause, for every public entry point: a public method of Mutations that applies an architecture mutation to a network of the "
                     "individual (a run-time named method invoked on the network, directly or through a helper of the class) runs the registered hooks of that "
                     "individual (mutation_hook(), or the bandits' hook method itself) on every path a bandit can take from the application to a normal return; "
                     "on today's tree _reinit_bandit_grads compares the new layer with itself and never resizes sigma_inv, so without the hooks a direct "
                     "architecture_mutate call leaves the matrix at the old size")
    cls = repo.cls(MUT, "Mutations")
    runs_hooks = repo.cls(BASE, "EvolvableAlgorithm").methods.get("mutation_hook")
    ck.floor("C19.6", 1 if runs_hooks is not None and any(_dynamic_invocation(c) for c in calls_in(runs_hooks.node)) else 0, 1, "EvolvableAlgorithm.mutation_hook running the registered hooks")
    hook_methods = _hook_methods(repo)
    memo: Dict[str, bool] = {}
    n_sites = 0
    entry_points: Dict[str, int] = {}
    for fn in cls.methods.values():
        if fn.name.startswith("_"):
            continue
        params = set(fn.params[1:])
        cfg = CFG(fn.node)
        sites: List[Tuple[Node, ast.Call]] = []
        for c in calls_in(fn.node):
            callee = _self_callee(cls, c)
            if _dynamic_invocation(c) or (callee is not None and _resizes(cls, callee, memo)):
                n = cfg.node_of(c)
                if n is not None:
                    sites.append((n, c))
        entry_points[fn.name] = len(sites)
        if not sites:
            continue
        reinits: List[Tuple[Node, str]] = []
        for c in calls_in(fn.node):
            f = c.func
            if isinstance(f, ast.Attribute) and (f.attr == "mutation_hook" or f.attr in hook_methods) and not c.args and not c.keywords:
                n = cfg.node_of(c)
                who = _alias_of_param(cfg, n, f.value, params) if n is not None else None
                if who is not None:
                    reinits.append((n, who))
        # is the "old" layer handed to _reinit_bandit_grads read after the mutation was applied (then old == new and nothing is resized)?
        stale = []
        for c in calls_in(fn.node):
            rn = cfg.node_of(c)
            if last_attr(c) == "_reinit_bandit_grads" and len(c.args) == 3 and isinstance(c.args[2], ast.Name) and rn is not None:
                defs = cfg.defs_reaching(rn, c.args[2].id)
                stale.append(bool(defs) and all(any(cfg.dominates(sn, d) for sn, _ in sites) for d in defs))
        why = ("_reinit_bandit_grads is given the layer of the already mutated network as 'old' layer and resizes nothing" if stale and all(stale) else
               "nothing else in the method brings sigma_inv to the new size")
        for n, c in sites:
            n_sites += 1
            # the individual whose network this is: the parameter the mutated network was read from
            net = c.func.args[0] if _dynamic_invocation(c) else (c.args[0] if c.args else None)
            owners = _param_roots(cfg, n, net, params) if net is not None else set()
            ok_owner = len(owners) == 1
            owner = next(iter(owners)) if ok_owner else ""
            stops = {r.id for r, who in reinits if who == owner}
            last = _escape(cfg, n, stops, owner, params) if ok_owner else n
            where = f"line {last.lineno}" if last is not None and last.lineno else "the end of the method"
            ck.ob("C19.6", fn, c, ok_owner and last is None,
                  f"{fn.name}: after this architecture mutation the hooks of the mutated individual run before the method returns, on every path a bandit can take",
                  detail="" if ok_owner and last is None else
                  (f"the mutated network is not derived from exactly one parameter of the method ({sorted(owners)})" if not ok_owner else
                   f"a path from here reaches the return through {where} without `{owner}.mutation_hook()`: the output layer may have a new number of "
                   f"parameters while sigma_inv keeps the old shape ({why}); the next get_action multiplies a numel-wide feature row with a matrix of the old size"),
                  construct=f"{fn.name}: hooks after {short(c, 80)}")
    ck.note("C19.6 public methods of Mutations: architecture-mutation applications", entry_points)
    ck.floor("C19.6", n_sites, 2, "applications of an architecture mutation in public methods of Mutations (policy and other eval networks)")


def run_r3b(ck: Check, repo: Repo) -> None:
    _resize_reinitialised(ck, repo)
