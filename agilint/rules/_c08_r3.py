"""C08.9 – C08.11 (helper module of c08), added after the third round of seeded changes.

* C08.9   the delayed-update schedule: a counter that is compared with `policy_freq` (targets and actor are updated every policy_freq-th learn step)
          advances exactly once per learn() call *per thing it counts for* — a counter stepped inside a per-agent helper that learn() calls
          once per agent must be kept per agent (subscripted by that agent), otherwise it advances n_agents times per learn step and the targets
          move on another schedule than the documented one.
* C08.10  the online estimate is evaluated on the batch as sampled: no in-place write to a tensor of the batch (the TD3 / DDPG target-policy
          smoothing draws its noise with `actions.data.normal_`, i.e. INTO the batch's action tensor) can reach a later read of that tensor as
          input of an online network in the same learn step.
* C08.11  the categorical Bellman target of Rainbow is projected exactly (the C18.1 – C18.6 obligations on `_dqn_loss`, shared with the C18 check):
          for the distributional learner "reward plus discounted shared-network estimate" means the projected distribution.
"""
from __future__ import annotations

import ast
from dataclasses import replace
from typing import Dict, List, Optional, Set

from ..cfg import CFG, Node
from ..core import AnalysisError, Cls, Fn, Repo, call_name, calls_in, const_value, dotted, get_kw, last_attr, short, walk_no_nested
from ..report import Check

DELAYED = [("agilerl.algorithms.td3", "TD3"), ("agilerl.algorithms.ddpg", "DDPG"), ("agilerl.algorithms.matd3", "MATD3"), ("agilerl.algorithms.maddpg", "MADDPG")]
INPLACE_SMOOTHING = [("agilerl.algorithms.td3", "TD3"), ("agilerl.algorithms.ddpg", "DDPG"), ("agilerl.algorithms.matd3", "MATD3"), ("agilerl.algorithms.maddpg", "MADDPG")]


def _root(e: ast.AST) -> Optional[str]:
    """`x` for x, x.data, x[k], x.data[k] ..."""
    while isinstance(e, (ast.Attribute, ast.Subscript)):
        e = e.value
    return e.id if isinstance(e, ast.Name) else None


# ------------------------------------------------------------------------------------------------ C08.9
def _schedule_counter(ck: Check, repo: Repo) -> None:
    ck.rule("C08.9", "delayed updates follow the documented schedule: the counter compared with policy_freq advances once per learn() call for each agent it counts for "
                     "(a counter stepped inside a helper that learn() calls once per agent is kept per agent)")
    n = 0
    for modname, cname in DELAYED:
        cls = repo.cls(modname, cname)
        # counters: self.<attr> (optionally subscripted) that occurs in `<counter> % self.policy_freq`
        counters: Set[str] = set()
        for m in cls.methods.values():
            for x in walk_no_nested(m.node):
                if isinstance(x, ast.BinOp) and isinstance(x.op, ast.Mod) and dotted(x.right) == "self.policy_freq":
                    l = x.left.value if isinstance(x.left, ast.Subscript) else x.left
                    if dotted(l).startswith("self."):
                        counters.add(dotted(l))
        for cnt in sorted(counters):
            for m in cls.methods.values():
                for x in walk_no_nested(m.node):
                    if not (isinstance(x, ast.AugAssign) and isinstance(x.op, ast.Add)):
                        continue
                    t = x.target
                    base = t.value if isinstance(t, ast.Subscript) else t
                    if dotted(base) != cnt:
                        continue
                    n += 1
                    keyed = t.slice if isinstance(t, ast.Subscript) else None
                    # how often does this statement run per learn()?  once, unless its method is called from a loop of learn (per agent)
                    per_agent_param: Optional[str] = None
                    looped = False
                    if m.name == "learn":
                        lcfg = CFG(m.node)
                        node = lcfg.node_of(x)
                        looped = node is not None and any(l.kind == "for" and any(y is x for y in ast.walk(l.ast)) for l in lcfg.live_nodes())
                    else:
                        learn = cls.methods.get("learn")
                        if learn is not None:
                            for c in calls_in(learn.node):
                                if isinstance(c.func, ast.Attribute) and c.func.attr == m.name and dotted(c.func.value) == "self":
                                    loops = [l for l in ast.walk(learn.node) if isinstance(l, ast.For) and any(y is c for y in ast.walk(l))]
                                    if loops:
                                        looped = True
                    ok = (not looped) or (keyed is not None and isinstance(keyed, ast.Name) and (keyed.id in m.params or m.name == "learn"))
                    ck.ob("C08.9", m, x, ok, f"{cname}: `{short(x, 50)}` advances the delayed-update counter once per learn step and agent",
                          detail="" if ok else f"{m.qualname} runs once per agent inside a loop of learn(), and the counter is one number for all agents: it advances "
                                               f"n_agents times per learn step, so `counter % policy_freq` fires on another schedule than every policy_freq-th step",
                          construct=f"{cname}: step of the counter compared with policy_freq")
    ck.floor("C08.9", n, 3, "steps of delayed-update counters")


# ------------------------------------------------------------------------------------------------ C08.10
_INPLACE = {"normal_", "uniform_", "add_", "sub_", "mul_", "div_", "clamp_", "copy_", "fill_", "zero_", "random_", "bernoulli_", "exponential_"}


def _batch_reads_intact(ck: Check, repo: Repo) -> None:
    ck.rule("C08.10", "the online estimate is evaluated on the batch as sampled: an in-place write into a tensor read from the batch (target-policy smoothing draws its "
                      "noise INTO the batch's action tensor) never precedes a read of that tensor as the input of an online network in the same learn step")
    n = 0
    for modname, cname in INPLACE_SMOOTHING:
        cls = repo.cls(modname, cname)
        for mname in ("learn", "learn_individual", "_learn_individual"):
            fn = cls.methods.get(mname)
            if fn is None:
                continue
            cfg = CFG(fn.node)
            writes = []
            for c in calls_in(fn.node):
                if isinstance(c.func, ast.Attribute) and c.func.attr in _INPLACE:
                    r = _root(c.func.value)
                    at = cfg.node_of(c)
                    if r is not None and at is not None:
                        writes.append((r, c, at))
            for r, w, wn in writes:
                # is r (an alias of) a tensor of the batch?  its definitions lead back to a parameter of the learn function (the experiences) through
                # subscripts, unpacking, .to(device) and similar value-preserving steps
                defs = cfg.defs_reaching(wn, r)
                from_batch = _from_params(cfg, wn, r, set(fn.params) - {"self"}, 0, set())
                if not from_batch:
                    continue
                n += 1
                reach = cfg.reachable_from(wn, follow_exc=False)
                late = []
                for c in calls_in(fn.node):
                    if c is w:
                        continue
                    cn = cfg.node_of(c)
                    if cn is None or cn.id not in reach or cn is wn:
                        continue
                    # a network call (callee is a local / attribute object, not a function of torch / self method) reading r directly
                    f = c.func
                    is_net = isinstance(f, ast.Name) or (isinstance(f, ast.Attribute) and dotted(f).startswith("self.") and "critic" in f.attr or (isinstance(f, ast.Attribute) and "actor" in f.attr))
                    if is_net and any(isinstance(a, ast.Name) and a.id == r for a in list(c.args) + [k.value for k in c.keywords]):
                        # same value?  no re-definition of r in between
                        if {d.id for d in cfg.defs_reaching(cn, r)} == {d.id for d in defs}:
                            late.append(c)
                ck.ob("C08.10", fn, late[0] if late else w, not late, f"{cname}.{mname}: no network reads `{r}` after `{short(w, 50)}` overwrote it in place",
                      detail=f"`{short(late[0], 60)}` runs after the in-place write: the value estimate is taken for the noise, not for the action that was stored" if late else "",
                      construct=f"{cname}.{mname}: reads of a batch tensor after an in-place write")
    # no floor: a tree without any in-place write into a batch tensor satisfies the rule trivially (that is the repaired state); the self-validation
    # variants keep a positive example that must be reported on every run of the thorough tier
    ck.note("C08.10_inplace_writes_into_batch_tensors", n)


def _from_params(cfg: CFG, at: Node, name: str, params: Set[str], depth: int, seen: Set) -> bool:
    if name in params and any(d.kind == "entry" for d in cfg.defs_reaching(at, name)):
        return True
    if depth > 4 or (at.id, name) in seen:
        return False
    seen.add((at.id, name))
    for d in cfg.defs_reaching(at, name):
        if d.kind == "entry":
            if name in params:
                return True
            continue
        src = d.ast.value if isinstance(getattr(d, "ast", None), (ast.Assign, ast.AnnAssign, ast.AugAssign)) else getattr(d, "ast", None)
        if src is None:
            continue
        for x in ast.walk(src):
            if isinstance(x, ast.Name) and isinstance(x.ctx, ast.Load) and x.id != name or (isinstance(x, ast.Name) and x.id == name and d is not at):
                if x.id in params or _from_params(cfg, d, x.id, params, depth + 1, seen):
                    return True
    return False


# ------------------------------------------------------------------------------------------------ C08.11
_ACTIVE = False


def _categorical_target(ck: Check, repo: Repo) -> None:
    # C18 itself takes obligations over from C08 (C18.7): when this function is reached from inside that nested C08 run, it does nothing
    global _ACTIVE
    if _ACTIVE:
        return
    from . import c18
    sub = Check("C18", ck.tier, ck.repo_root)
    sub.known = []
    _ACTIVE = True
    err = None
    try:
        c18.run(sub, repo)
    except AnalysisError as e:
        err = e  # what was established before the nested analysis got stuck still counts
    finally:
        _ACTIVE = False
    ck.rule("C08.11", "the distributional learner's target is the exact categorical projection of reward + gamma^n * support under the shared network's next-state "
                      "distribution (obligations of C18.1 - C18.6 on RainbowDQN._dqn_loss, shared with the C18 check)")
    taken = [replace(o, rule="C08.11") for o in sub.obs if o.rule in ("C18.1", "C18.2", "C18.3", "C18.4", "C18.5", "C18.6")]
    ck.obs.extend(taken)
    if err is not None:
        raise err
    if len(taken) < 20:
        raise AnalysisError(f"C08.11: only {len(taken)} obligations taken over from C18.1-6")


def run_r3_first(ck: Check, repo: Repo) -> None:
    """nested checks first (they reset the per-run pattern environments)"""
    _categorical_target(ck, repo)


def run_r3(ck: Check, repo: Repo) -> None:
    _schedule_counter(ck, repo)
    _batch_reads_intact(ck, repo)
    _wrapper_transforms_every_batch(ck, repo)


# ------------------------------------------------------------------------------------------------ C08.12
def _wrapper_transforms_every_batch(ck: Check, repo: Repo) -> None:
    """An agent wrapper that transforms the observations of the batch it hands to the wrapped learn() (RSNorm normalises them) must transform EVERY
    batch that learn() receives: RainbowDQN.learn also takes the n-step batch as `n_experiences`; left untransformed, the n-step term of the loss
    evaluates online and target network on raw observations while the 1-step term (and acting) use normalised ones."""
    ck.rule("C08.12", "one batch, one preparation: an agent wrapper that transforms the observations of `experiences` before the wrapped learn() applies the same "
                      "transformation to every further batch argument of learn() (`n_experiences` of the n-step learners)")
    # further batch parameters of the learners: parameters of a learn() method, other than the first, whose name says experiences
    extra: Set[str] = set()
    for mod in repo.mods.values():
        if not mod.name.startswith("agilerl.algorithms"):
            continue
        for cls in mod.classes.values():
            fn = cls.methods.get("learn")
            if fn is not None:
                ps = [p for p in fn.params if p != "self"]
                extra |= {p for p in ps[1:] if p.endswith("experiences")}
    ck.floor("C08.12", len(extra), 1, "further batch parameters of learn() methods")
    wmod = repo.mod("agilerl.wrappers.agent")
    n = 0
    for cls in wmod.classes.values():
        fn = cls.methods.get("learn")
        if fn is None:
            continue
        norm = [c for c in calls_in(fn.node) if isinstance(c.func, ast.Attribute) and "normalize" in c.func.attr]
        if not norm:
            continue  # this wrapper's learn does not transform observations
        n += 1
        for p in sorted(extra):
            # the batch is taken out of the keyword arguments (kwargs["p"], kwargs.get("p"), an explicit parameter p) and its obs / next_obs are normalised
            def reads(e: ast.AST) -> bool:
                for x in ast.walk(e):
                    if isinstance(x, ast.Subscript) and const_value(x.slice) == p:
                        return True
                    if isinstance(x, ast.Call) and isinstance(x.func, ast.Attribute) and x.func.attr in ("get", "pop") and x.args and const_value(x.args[0]) == p:
                        return True
                    if isinstance(x, ast.Name) and x.id == p and p in fn.params:
                        return True
                return False
            holders: Set[str] = set()
            for s in walk_no_nested(fn.node):
                if isinstance(s, ast.Assign) and len(s.targets) == 1 and isinstance(s.targets[0], ast.Name) and reads(s.value):
                    holders.add(s.targets[0].id)
            keys = set()
            for c in norm:
                for a in c.args:
                    if isinstance(a, ast.Subscript) and isinstance(const_value(a.slice), str) and (reads(a.value) or (isinstance(a.value, ast.Name) and a.value.id in holders)):
                        keys.add(const_value(a.slice))
            ok = {"obs", "next_obs"} <= keys
            ck.ob("C08.12", fn, fn.node, ok, f"{cls.name}.learn transforms the observations of `{p}` like those of the first batch",
                  detail="" if ok else f"`{p}` reaches the wrapped learn() as it was passed in (normalised fields of it: {sorted(keys)}): the n-step loss is computed on raw observations",
                  construct=f"{cls.name}.learn: preparation of {p}")
    ck.floor("C08.12", n, 1, "agent wrappers whose learn() transforms observations")
