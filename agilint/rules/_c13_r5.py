"""C13.8 (helper module of c13), added after the fifth round of seeded changes.

Serves the clause "An exception raised inside any sub-environment during reset, step or a remote call reaches the caller as the same exception
type ... and in every case close() returns promptly": between detecting a failed worker (its success flag is False) and raising its exception the
parent must not wait for that worker.  A failed worker has left its command loop but is still tearing its sub-environment down (`finally:
env.close()`), for as long as that takes — for ever when the broken environment's close hangs.

* C13.8  on the error-propagation path — `_raise_if_errors` and everything it calls on `self` or in its module — every blocking primitive on a
          worker (`<process>.join`, `<pipe>.recv`, `<pipe>.poll`, `<queue>.get`, `.wait`, `.acquire`) carries a time limit that cannot be None.
          The only wait allowed without one is the drain of the error queue (the `get` on the queue the constructor creates and hands to the
          workers): the worker has put its report there BEFORE answering (None, False), which C13.3 establishes together with "one item per failed
          worker".  The blocking-call sites of the whole class are enumerated (floor) so that the classification cannot go blind.
"""
from __future__ import annotations

import ast
from typing import Dict, List, Optional, Set, Tuple

from ..cfg import CFG, Node
from ..core import Cls, Fn, Repo, call_name, calls_in, dotted, get_kw, is_self_attr, last_attr, short
from ..report import Check

AV = "agilerl.vector.pz_async_vec_env"


def _may_be_none(cfg: CFG, n: Optional[Node], e: Optional[ast.AST], depth: int = 0) -> bool:
    """The time limit e can be None (= wait for ever): the literal, or a local that some reaching definition binds to it."""
    if e is None:
        return True
    if isinstance(e, ast.Constant):
        return e.value is None
    if isinstance(e, ast.IfExp):
        return _may_be_none(cfg, n, e.body, depth + 1) or _may_be_none(cfg, n, e.orelse, depth + 1)
    if isinstance(e, ast.Name) and n is not None and depth < 4:
        for d in cfg.defs_reaching(n, e.id):
            if d.kind == "entry":
                continue  # the caller's own limit
            v = cfg.value_of_def(d, e.id)
            if v is not None and _may_be_none(cfg, d, v, depth + 1):
                return True
    return False


def _is_false(e: Optional[ast.AST]) -> bool:
    return isinstance(e, ast.Constant) and e.value is False


def _blocking(cfg: CFG, c: ast.Call) -> Optional[Tuple[str, bool]]:
    """(kind, bounded) when the call is a blocking primitive of multiprocessing / threading, None otherwise."""
    if not isinstance(c.func, ast.Attribute):
        return None
    kind, recv = c.func.attr, c.func.value
    n = cfg.node_of(c)
    if kind == "join":
        if isinstance(recv, (ast.JoinedStr, ast.Constant)) or dotted(recv).split(".")[-1] in ("path", "sep", "linesep"):
            return None  # str.join / os.path.join
        return kind, not _may_be_none(cfg, n, get_kw(c, "timeout", 0))
    if kind in ("recv", "recv_bytes"):
        return kind, False
    if kind == "get":
        if c.args and not (isinstance(c.args[0], ast.Constant) and isinstance(c.args[0].value, bool)):
            return None  # mapping.get(key[, default])
        if _is_false(get_kw(c, "block", 0)):
            return None
        return kind, not _may_be_none(cfg, n, get_kw(c, "timeout", 1))
    if kind == "poll":
        t = get_kw(c, "timeout", 0)
        return kind, t is None or not _may_be_none(cfg, n, t)  # poll() returns at once
    if kind == "wait":
        pos = 1 if dotted(recv).split(".")[-1] == "connection" else 0
        return kind, not _may_be_none(cfg, n, get_kw(c, "timeout", pos))
    if kind == "acquire":
        if _is_false(get_kw(c, "block", 0)) or _is_false(get_kw(c, "blocking", 0)):
            return None
        return kind, not _may_be_none(cfg, n, get_kw(c, "timeout", 1))
    return None


def _queues(cls: Cls) -> Set[str]:
    """self attributes the constructor binds to a freshly created queue (`self.q = ctx.Queue()`)."""
    out: Set[str] = set()
    init = cls.methods.get("__init__")
    if init is None:
        return out
    for x in ast.walk(init.node):
        if isinstance(x, ast.Assign) and isinstance(x.value, ast.Call) and last_attr(x.value).endswith("Queue"):
            out |= {t.attr for t in x.targets if is_self_attr(t)}
    return out


def _error_path(repo: Repo, cls: Cls, start: Fn) -> List[Fn]:
    """start and the methods of the class / functions of its module it calls, transitively."""
    seen: Dict[str, Fn] = {start.qualname: start}
    todo = [start]
    while todo:
        f = todo.pop()
        for c in calls_in(f.node, nested=True):
            name = call_name(c)
            g: Optional[Fn] = None
            if name.startswith("self.") and name.count(".") == 1:
                g = cls.methods.get(name.split(".")[1])
            elif name and "." not in name:
                g = cls.mod.functions.get(name)
            if g is not None and g.qualname not in seen:
                seen[g.qualname] = g
                todo.append(g)
    return list(seen.values())


def run_r5(ck: Check, repo: Repo) -> None:
    ck.rule("C13.8", "a worker's exception reaches the caller without waiting for that worker: in _raise_if_errors and everything it calls, every blocking "
                     "primitive (<process>.join, <pipe>.recv / poll, <queue>.get, wait, acquire) has a time limit that cannot be None; the only wait without "
                     "one is the drain of the error queue, which the worker fills before it answers (a failed worker is still closing its sub-environment: "
                     "joining it delays the exception for as long as that close takes, for ever if it hangs, and close(terminate=True) is never reached)")
    cls = repo.cls(AV, "AsyncPettingZooVecEnv")
    # ---- the blocking-call sites of the class (today: five receives of answers, the receive of the close acknowledgement, join, poll, the queue drain)
    n_all = 0
    for m in cls.methods.values():
        cfg = CFG(m.node)
        n_all += sum(1 for c in calls_in(m.node, nested=True) if _blocking(cfg, c) is not None)
    ck.floor("C13.8", n_all, 8, "blocking calls on workers in AsyncPettingZooVecEnv (recv, join, poll, queue get)")
    start = cls.methods["_raise_if_errors"]
    queues = _queues(cls)
    ck.floor("C13.8", len(queues), 1, "queues created by the constructor")
    n_path = 0
    for f in _error_path(repo, cls, start):
        cfg = CFG(f.node)
        bad: List[ast.Call] = []
        for c in calls_in(f.node, nested=True):
            b = _blocking(cfg, c)
            if b is None:
                continue
            n_path += 1
            kind, bounded = b
            drain = kind == "get" and is_self_attr(c.func.value) and c.func.value.attr in queues
            ok = bounded or drain
            if not ok:
                bad.append(c)
            ck.ob("C13.8", f, c, ok, f"{f.name} (error propagation): `{short(c.func, 60)}` cannot wait for a failed worker without limit",
                  detail="" if ok else f"`{short(c, 80)}` at line {c.lineno} blocks with no time limit between the detection of a failed worker and the raise of its "
                                       "exception: the caller gets the exception only after the failed sub-environment has finished closing, never if that hangs",
                  construct=f"{f.name}: {kind} on the error path" + (" (error-queue drain)" if drain else ""))
        ck.ob("C13.8", f, bad[0] if bad else f.node, not bad, f"{f.name}: the error-propagation path contains no unbounded wait on a worker",
              detail=f"unbounded: {[short(c, 60) for c in bad]}" if bad else "", construct=f"{f.name}: unbounded waits on the error path")
    ck.floor("C13.8", n_path, 1, "blocking calls on the error-propagation path (the error-queue drain)", fn=start)
