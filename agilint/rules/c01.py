"""C01 — a cloned agent is a faithful and fully independent copy of its parent.

Decided (structural, all paths): ownership of everything stored on the copy, absence of
write-back, completeness of clone overrides, tournament members being clones.
Not decided: equality of greedy actions / updates (runtime values).
"""
from __future__ import annotations

import ast
from dataclasses import dataclass, field
from typing import List, Optional, Set, Tuple

from ..cfg import CFG, Node
from ..core import AnalysisError, Cls, Fn, Repo, call_name, calls_in, dotted, get_kw, last_attr, short, walk_no_nested
from ..domains import ALIAS, FRESH, SHALLOW, UNKNOWN, OwnEval, conjuncts, disjuncts
from ..libsummaries import TRUSTED, torch_optimizer_load_copies_state
from ..report import Check
from ..util import (enumerate_paths, guard_text, inplace_mutations, self_attr_stores, stores_to)

BASE = "agilerl.algorithms.core.base"
MODBASE = "agilerl.modules.base"


# --------------------------------------------------------------------------------------------- roles of locals
# The inspected functions are free to spell their locals as they like: every local the rules talk about is found by
# its role (what defines it / where it flows), never by its name.
def _is_self_ctor(c: ast.AST) -> bool:
    """`type(self)(...)` / `self.__class__(...)`: a new object of the receiver's class."""
    if not isinstance(c, ast.Call):
        return False
    if dotted(c.func) == "self.__class__":
        return True
    f = c.func
    return isinstance(f, ast.Call) and call_name(f) == "type" and len(f.args) == 1 and dotted(f.args[0]) == "self"


def _new_object_name(fn: Fn) -> Optional[str]:
    """The local bound to the new object of the receiver's class (`<x> = type(self)(...)` / `self.__class__(...)`)."""
    names = []
    for n in walk_no_nested(fn.node):
        if isinstance(n, ast.Assign) and len(n.targets) == 1 and isinstance(n.targets[0], ast.Name) and _is_self_ctor(n.value):
            names.append(n.targets[0].id)
    return names[0] if names and all(x == names[0] for x in names) else None


def _is_setattr_on(c: ast.Call, name: Optional[str]) -> bool:
    return (name is not None and call_name(c) == "setattr" and len(c.args) == 3
            and isinstance(c.args[0], ast.Name) and c.args[0].id == name)


def _returned_name(fn: Fn, pos: Optional[int] = None) -> Optional[str]:
    """The local returned on every path (element `pos` of the returned tuple when given)."""
    names = []
    for r in walk_no_nested(fn.node):
        if isinstance(r, ast.Return):
            v = r.value
            if pos is not None:
                v = v.elts[pos] if isinstance(v, ast.Tuple) and len(v.elts) > pos else None
            if not isinstance(v, ast.Name):
                return None
            names.append(v.id)
    return names[0] if names and all(x == names[0] for x in names) else None


def _loop_var_over(fn: Fn, iter_dotted: str) -> Optional[str]:
    """The loop variable of `for <x> in <iter_dotted>:`."""
    for n in walk_no_nested(fn.node):
        if isinstance(n, ast.For) and dotted(n.iter) == iter_dotted and isinstance(n.target, ast.Name):
            return n.target.id
    return None


def _defined_only_by(cfg: CFG, n, name: str, pred) -> bool:
    """Every definition of local `name` reaching node n binds a value accepted by pred."""
    defs = cfg.defs_reaching(n, name) if n is not None else []
    return bool(defs) and all((v := cfg.value_of_def(d, name)) is not None and pred(v) for d in defs)


def run(ck: Check, repo: Repo) -> None:
    ck.not_decided += [
        "that parent and clone pick the same greedy actions / compute the same update (runtime values)",
        "numeric equality of weights after clone (follows from load_state_dict semantics, trusted base)",
    ]
    ck.trusted += [f"{k}: {v}" for k, v in TRUSTED.items()]
    clone = repo.fn(BASE, "EvolvableAlgorithm.clone")
    copy_attrs = repo.fn(BASE, "EvolvableAlgorithm.copy_attributes")
    inspect_attrs = repo.fn(BASE, "EvolvableAlgorithm.inspect_attributes")
    mclone = repo.fn(MODBASE, "EvolvableModule.clone")
    ck.note("functions_analysed", [f.qualname for f in (clone, copy_attrs, inspect_attrs, mclone)])

    r1_optimizer_state(ck, repo, clone)
    r2_networks_owned(ck, repo, clone, mclone)
    r3_attributes_owned(ck, repo, copy_attrs)
    r4_weak_eq(ck, repo, copy_attrs)
    r5_no_write_back(ck, repo, clone, copy_attrs)
    r6_shared_containers(ck, repo, mclone)
    r7_overrides_complete(ck, repo)
    r8_tournament(ck, repo)
    r9_inspect_excludes(ck, repo, inspect_attrs, clone)
    from ._c01_extra import run_extra
    run_extra(ck, repo)


# --------------------------------------------------------------------------------------------- C01.1
def _returns_fresh(fn: Fn) -> bool:
    cfg = CFG(fn.node)
    ev = OwnEval(cfg)
    rets = [n for n in cfg.live_nodes() if n.kind == "stmt" and isinstance(n.ast, ast.Return)]
    if not rets:
        return False
    for r in rets:
        if r.ast.value is None or ev.own(r.ast.value, r).level != FRESH:
            return False
    return True


def r1_optimizer_state(ck: Check, repo: Repo, clone: Fn) -> None:
    ck.rule(
        "C01.1",
        "optimizer state handed to the copy is owned: the value reaching <OptimizerWrapper>.load_state_dict in clone() "
        "passes a deep copy somewhere between the parent's state_dict() and torch's load_state_dict",
    )
    lib_copies, lib_why = torch_optimizer_load_copies_state()
    ck.trusted.append("torch Optimizer.load_state_dict: " + lib_why)
    cfg = CFG(clone.node)
    ev = OwnEval(cfg, alias_roots={"self"})
    ow_state = repo.fn("agilerl.algorithms.core.wrappers", "OptimizerWrapper.state_dict")
    ow_load = repo.fn("agilerl.algorithms.core.wrappers", "OptimizerWrapper.load_state_dict")
    src_fresh = _returns_fresh(ow_state)
    # does the wrapper's load_state_dict copy before delegating?
    lcfg = CFG(ow_load.node)
    lev = OwnEval(lcfg)
    inner = [c for c in calls_in(ow_load.node) if last_attr(c) == "load_state_dict" and c.args]
    sink_fresh = bool(inner)
    for c in inner:
        n = lcfg.node_of(c)
        if n is None or lev.own(c.args[0], n).level != FRESH:
            sink_fresh = False
    sites = [c for c in calls_in(clone.node) if last_attr(c) == "load_state_dict" and isinstance(c.func, ast.Attribute)]
    ck.floor("C01.1", len(sites), 1, "load_state_dict call(s) in EvolvableAlgorithm.clone", fn=clone)
    for c in sites:
        n = cfg.node_of(c)
        arg = c.args[0] if c.args else get_kw(c, "state_dict")
        o = ev.own(arg, n) if (arg is not None and n is not None) else None
        ok = lib_copies or src_fresh or sink_fresh or (o is not None and o.level == FRESH)
        ck.ob(
            "C01.1", clone, c, ok,
            "the optimizer state loaded into the clone's optimizer is a copy, not the parent's live tensors",
            detail=(
                f"argument is {o.level if o else '?'} ({o.why if o else ''}); OptimizerWrapper.state_dict returns "
                f"{'copies' if src_fresh else 'live references'}; OptimizerWrapper.load_state_dict "
                f"{'copies' if sink_fresh else 'passes the object through'}; {lib_why} -> parent and clone "
                "share Adam step/exp_avg/exp_avg_sq tensors, so training one moves the other's moments"
            ) if not ok else f"argument {o.level if o else ''}: {o.why if o else ''}",
        )


# --------------------------------------------------------------------------------------------- C01.2
def r2_networks_owned(ck: Check, repo: Repo, clone: Fn, mclone: Fn) -> None:
    ck.rule(
        "C01.2",
        "every network stored on the copy is the result of .clone() of the parent's network; EvolvableModule.clone "
        "builds from a deep copy of init_dict and moves weights only through load_state_dict",
    )
    cfg = CFG(clone.node)
    ev = OwnEval(cfg, alias_roots={"self"})
    new = _new_object_name(clone)  # the local holding the copy: bound to type(self)(...)
    sets = [c for c in calls_in(clone.node) if _is_setattr_on(c, new)]
    ck.floor("C01.2", len(sets), 2, "setattr(clone, ...) in clone()", fn=clone)
    for c in sets:
        n = cfg.node_of(c)
        o = ev.own(c.args[2], n)
        ck.ob("C01.2", clone, c, o.level == FRESH,
              "value stored on the clone is a fresh object (cloned module / new optimizer)",
              detail=f"{o.level}: {o.why}")
    # the constructor call of the clone must exist and use only inspected input args
    ctor = [c for c in calls_in(clone.node) if isinstance(c.func, ast.Call) and call_name(c.func) == "type"]
    ck.ob("C01.2", clone, ctor[0] if ctor else clone.node, bool(ctor),
          "the clone is built by calling type(self)(...), i.e. a new object of the same class")
    # EvolvableModule.clone
    mcfg = CFG(mclone.node)
    mev = OwnEval(mcfg, alias_roots={"self"})
    ctor_calls = [c for c in calls_in(mclone.node) if dotted(c.func) in ("self.__class__", "type(self)") or
                  (isinstance(c.func, ast.Call) and call_name(c.func) == "type")]
    ck.floor("C01.2", len(ctor_calls), 1, "constructor call in EvolvableModule.clone", fn=mclone)
    for c in ctor_calls:
        n = mcfg.node_of(c)
        ok = True
        why = []
        for kw in c.keywords:
            o = mev.own(kw.value, n)
            if o.level != FRESH:
                ok = False
                why.append(f"{short(kw.value, 60)} is {o.level} ({o.why})")
        for a in c.args:
            o = mev.own(a, n)
            if o.level != FRESH:
                ok = False
                why.append(f"{short(a, 60)} is {o.level} ({o.why})")
        ck.ob("C01.2", mclone, c, ok,
              "the module clone is constructed from a deep copy of the parent's constructor arguments "
              "(architecture lists are mutated in place by mutation methods)",
              detail="; ".join(why))
    # weights move only through load_state_dict(self.state_dict())
    loads = [c for c in calls_in(mclone.node) if last_attr(c) == "load_state_dict"]
    ok = any(c.args and isinstance(c.args[0], ast.Call) and dotted(c.args[0].func) == "self.state_dict" for c in loads)
    ck.ob("C01.2", mclone, loads[0] if loads else mclone.node, ok,
          "the module clone receives the parent's weights through load_state_dict(self.state_dict()) (copying)")
    mnew = _new_object_name(mclone)  # the local holding the module copy: bound to self.__class__(...)
    rets = [n for n in walk_no_nested(mclone.node) if isinstance(n, ast.Return)]
    ok = mnew is not None and bool(rets) and all(isinstance(r.value, ast.Name) and r.value.id == mnew for r in rets)
    ck.ob("C01.2", mclone, rets[0] if rets else mclone.node, ok, "EvolvableModule.clone returns the new object on every path")
    # no parameter tensors assigned by reference from self
    bad = []
    for n in walk_no_nested(mclone.node):
        if isinstance(n, ast.Assign):
            for t in n.targets:
                d = dotted(t)
                if mnew is not None and d.startswith(mnew + ".") and d.split(".")[-1] in ("data", "weight", "bias", "_parameters", "_modules", "_buffers"):
                    bad.append(n)
    ck.ob("C01.2", mclone, bad[0] if bad else mclone.node, not bad,
          "EvolvableModule.clone never assigns parameter storage of the parent to the clone by reference",
          construct="assignments to clone.<parameter storage>" if not bad else None)


# --------------------------------------------------------------------------------------------- C01.3
SKIP_TRUE = ("callable", "isinstance")  # guards that hold (True) on an accepted skip path


def _value_names(fn: Fn) -> tuple:
    """Names bound to getattr(agent, attribute) (parent value) and getattr(clone, attribute) (clone value)."""
    P, C = set(), set()
    for n in ast.walk(fn.node):
        if isinstance(n, ast.Assign):
            from ..util import _pair_targets
            for t in n.targets:
                for tt, vv in _pair_targets(t, n.value):
                    if isinstance(tt, ast.Name) and isinstance(vv, ast.Call) and call_name(vv) == "getattr" and len(vv.args) >= 2:
                        if dotted(vv.args[0]) == "agent":
                            P.add(tt.id)
                        elif dotted(vv.args[0]) == "clone":
                            C.add(tt.id)
    return P, C


def _is_equal_guard(test: ast.AST, pol: bool, P=frozenset(), C=frozenset()) -> Optional[str]:
    """Guard saying 'parent value equals clone value' given (test, polarity)."""
    def sides(a, b):
        da, db = dotted(a), dotted(b)
        return (da in P and db in C) or (da in C and db in P)
    if isinstance(test, ast.Call) and call_name(test) in ("torch.equal", "np.array_equal", "numpy.array_equal") and pol \
            and len(test.args) == 2 and sides(test.args[0], test.args[1]):
        return call_name(test)
    if isinstance(test, ast.Compare) and len(test.ops) == 1 and sides(test.left, test.comparators[0]):
        if isinstance(test.ops[0], ast.NotEq) and not pol:
            return "!= is false"
        if isinstance(test.ops[0], ast.Eq) and pol:
            return "== is true"
    return None


def r3_attributes_owned(ck: Check, repo: Repo, fn: Fn) -> None:
    ck.rule(
        "C01.3",
        "copy_attributes: on every path through the per-attribute body either the attribute is stored on the clone as a "
        "deep copy, or the path is one of the accepted skips (callable / nested algorithm / value already equal)",
    )
    loops = [n for n in fn.node.body if isinstance(n, ast.For)]
    if not loops:
        raise AnalysisError("copy_attributes: per-attribute loop not found")
    loop = loops[0]
    cfg = CFG(fn.node)
    ev = OwnEval(cfg, alias_roots={"agent"})
    paths = enumerate_paths(loop.body)
    P, C = _value_names(fn)
    ck.floor("C01.3", len(paths), 6, "paths through the per-attribute body of copy_attributes")
    kinds_copied: Set[str] = set()
    for p in paths:
        sets = []
        for s in p.stmts:
            for c in calls_in(s):
                if call_name(c) == "setattr" and len(c.args) == 3 and isinstance(c.args[0], ast.Name) and c.args[0].id == "clone":
                    sets.append(c)
        gtxt = guard_text(p.guards)
        if sets:
            for c in sets:
                n = cfg.node_of(c)
                o = ev.own(c.args[2], n)
                ck.ob("C01.3", fn, c, o.level == FRESH,
                      f"attribute stored on the clone under [{gtxt}] is a deep copy",
                      detail=f"{o.level}: {o.why}",
                      construct=f"[{gtxt}] -> {short(c, 120)}")
            for g, pol in p.guards:
                for d in (disjuncts(g) if pol else [g]):
                    if isinstance(d, ast.Call) and call_name(d) == "isinstance" and len(d.args) == 2 and pol:
                        kinds_copied.add(dotted(d.args[1]))
            continue
        # no store on this path: must be an accepted skip
        why = None
        for g, pol in p.guards:
            if isinstance(g, ast.ExceptHandler):
                continue
            for atom, apol in conjuncts(g, pol):
                eq = _is_equal_guard(atom, apol, P, C)
                if eq:
                    why = f"value already equal ({eq})"
                if apol:
                    # a disjunction holds if ANY alternative holds: the skip is accepted only if EVERY alternative is an accepted reason
                    reasons = []
                    for d in disjuncts(atom):
                        if isinstance(d, ast.Call) and call_name(d) == "callable":
                            reasons.append("callable attribute (method / partial)")
                        elif isinstance(d, ast.Call) and call_name(d) == "isinstance" and len(d.args) == 2 and \
                                dotted(d.args[1]).split(".")[-1] in ("EvolvableAlgorithm",):
                            reasons.append("nested algorithm (cloned by the wrapper)")
                        else:
                            reasons.append(None)
                    if reasons and all(r is not None for r in reasons):
                        why = " / ".join(sorted(set(reasons)))
                    elif any(r is not None for r in reasons):
                        why = None
                        break
        ck.ob("C01.3", fn, loop, why is not None,
              f"path [{gtxt}] leaves the clone's attribute untouched only for an accepted reason",
              detail=why or "no store on this path and no accepted skip guard: the attribute of the clone keeps whatever "
                            "the constructor put there (possibly the parent's object passed as constructor argument)",
              construct=f"skip path [{gtxt}]")
    need = {"torch.Tensor", "np.ndarray", "list"}
    ck.ob("C01.3", fn, loop, need <= kinds_copied,
          "tensor, ndarray and list attributes each have a copying branch (score lists, step counters, arrays)",
          detail=f"copying branches found for: {sorted(kinds_copied)}", construct="copy branches by kind")
    # the list branch must copy unconditionally (score lists must never be shared)
    for p in paths:
        is_list = any(apol and any(isinstance(d, ast.Call) and call_name(d) == "isinstance" and len(d.args) == 2 and
                                   dotted(d.args[1]) == "list" and dotted(d.args[0]) in P for d in disjuncts(atom))
                      for g, pol in p.guards if not isinstance(g, ast.ExceptHandler) for atom, apol in conjuncts(g, pol))
        if is_list:
            has = any(call_name(c) == "setattr" for s in p.stmts for c in calls_in(s))
            ck.ob("C01.3", fn, loop, has, "list attributes (fitness, scores, steps) are always re-created on the clone",
                  construct=f"list path [{guard_text(p.guards)}]")


# --------------------------------------------------------------------------------------------- C01.4
def r4_weak_eq(ck: Check, repo: Repo, fn: Fn) -> None:
    ck.rule(
        "C01.4",
        "a repository type with a custom __eq__ that is stored as an agent attribute may not have its copy suppressed by "
        "an equality guard alone (weak __eq__ would leave parent and clone sharing the object)",
    )
    # types stored on algorithms: self.X = K(...) in EvolvableAlgorithm.__init__ and subclasses
    stored: Set[str] = set()
    for c in [repo.cls(BASE, "EvolvableAlgorithm")] + repo.subclasses("EvolvableAlgorithm"):
        init = c.methods.get("__init__")
        if not init:
            continue
        for attr, vals in self_attr_stores(init).items():
            for v in vals:
                if isinstance(v, ast.Call):
                    k = repo.resolve(c.mod, call_name(v))
                    if isinstance(k, Cls) and "__eq__" in k.methods:
                        stored.add(k.name)
    ck.note("agent_attribute_types_with_custom_eq", sorted(stored))
    ck.floor("C01.4", len(stored), 1, "agent attribute type(s) with a custom __eq__")
    # find generic != guard in copy_attributes
    tests = [n for n in ast.walk(fn.node) if isinstance(n, ast.If)]
    generic = None
    for t in tests:
        for d in disjuncts(t.test):
            if isinstance(d, ast.Compare) and isinstance(d.ops[0], ast.NotEq):
                generic = t
    for k in sorted(stored):
        if generic is None:
            ck.ob("C01.4", fn, fn.node, True, f"{k}: no equality-guarded generic branch exists", construct=f"type {k}")
            continue
        forced = any(isinstance(d, ast.Call) and call_name(d) == "isinstance" and len(d.args) == 2 and
                     k in [dotted(x).split(".")[-1] for x in (d.args[1].elts if isinstance(d.args[1], ast.Tuple) else [d.args[1]])]
                     for d in disjuncts(generic.test))
        ck.ob("C01.4", fn, generic.test, forced,
              f"{k} (custom __eq__) is copied regardless of the equality test",
              detail=f"guard is `{short(generic.test, 100)}`; {k}.__eq__ compares only part of the state, so an "
                     "equal-looking registry/config of the parent would stay shared (hyper-parameter ranges)",
              construct=f"type {k} vs guard {short(generic.test, 100)}")


# --------------------------------------------------------------------------------------------- C01.5
def _effect_self_stores(repo: Repo, cls: Cls, name: str, depth: int = 2) -> List[str]:
    f = repo.find_method(cls, name)
    if f is None:
        return []
    out = [d for _, d in stores_to(f.node, "self")]
    if depth > 0:
        for c in calls_in(f.node):
            d = call_name(c)
            if d.startswith("self.") and d.count(".") == 1:
                out += _effect_self_stores(repo, cls, d.split(".")[1], depth - 1)
    return out


def r5_no_write_back(ck: Check, repo: Repo, clone: Fn, copy_attrs: Fn) -> None:
    ck.rule(
        "C01.5",
        "no write-back: clone(), copy_attributes(), AgentWrapper.clone, _elitism and select store nothing into the "
        "parent / the old population (frozen exception: self.unwrap_models() under an accelerator)",
    )
    alg = repo.cls(BASE, "EvolvableAlgorithm")
    tour = repo.cls("agilerl.hpo.tournament", "TournamentSelection")
    wrapper_clone = repo.fn("agilerl.wrappers.agent", "AgentWrapper.clone")
    n_sites = 0
    for fn, roots in ((clone, ["self"]), (copy_attrs, ["agent"]), (wrapper_clone, ["self"]),
                      (tour.methods["_elitism"], ["population", "self"]), (tour.methods["select"], ["population", "self"]),
                      (tour.methods["_tournament"], ["fitness_values", "self"])):
        for root in roots:
            st = stores_to(fn.node, root)
            n_sites += 1
            ck.ob("C01.5", fn, st[0][0] if st else fn.node, not st,
                  f"{fn.qualname} performs no store into `{root}`",
                  detail="; ".join(d for _, d in st), construct=f"stores into {root} in {fn.qualname}" if not st else None)
            # in-place container mutation through the root
            muts = [m for m in inplace_mutations(fn.node, root)]
            ck.ob("C01.5", fn, muts[0][0] if muts else fn.node, not muts,
                  f"{fn.qualname} mutates no container of `{root}` in place",
                  detail="; ".join(f"{a}{h}" for _, a, h in muts),
                  construct=f"in-place mutations of {root}.* in {fn.qualname}" if not muts else None)
    # calls on self inside clone(): callee effect summaries
    for c in calls_in(clone.node):
        d = call_name(c)
        if d.startswith("self.") and d.count(".") == 1:
            name = d.split(".")[1]
            eff = _effect_self_stores(repo, alg, name)
            if name == "unwrap_models":
                # frozen exception: only under `if self.accelerator is not None`
                cfg = CFG(clone.node)
                n = cfg.node_of(c)
                guarded = any("accelerator" in ast.unparse(g) and pol for g, pol, _ in cfg.guards_at(n))
                ck.ob("C01.5", clone, c, guarded, "self.unwrap_models() (stores into the parent) runs only under an accelerator")
            else:
                ck.ob("C01.5", clone, c, not eff, f"callee self.{name}() stores nothing into the parent",
                      detail="; ".join(eff[:4]))
    # population elements: only .clone()/.fitness/.index reads
    # (methods of the new list itself — the local returned as the new population — are not calls on members)
    newpop = _returned_name(tour.methods["select"], 1)
    def _member_roots(fn: Fn, seeds=("population",)) -> Set[str]:
        """names that may denote (a member of) the old population: the parameter, loop / comprehension variables over it, locals bound to population[...]"""
        roots = set(seeds)
        changed = True
        while changed:
            changed = False
            for x in ast.walk(fn.node):
                tgt, src = None, None
                if isinstance(x, ast.For):
                    tgt, src = x.target, x.iter
                elif isinstance(x, ast.comprehension):
                    tgt, src = x.target, x.iter
                elif isinstance(x, ast.Assign) and len(x.targets) == 1:
                    tgt, src = x.targets[0], x.value
                if tgt is None:
                    continue
                base = src
                while isinstance(base, (ast.Subscript, ast.Attribute)):
                    base = base.value
                if isinstance(base, ast.Call) and call_name(base) in ("enumerate", "zip", "reversed", "list", "sorted") and base.args:
                    base = base.args[0]
                    while isinstance(base, (ast.Subscript, ast.Attribute)):
                        base = base.value
                if isinstance(base, ast.Name) and base.id in roots and not isinstance(src, ast.Call):
                    for t in ast.walk(tgt):
                        if isinstance(t, ast.Name) and t.id not in roots:
                            roots.add(t.id)
                            changed = True
                elif isinstance(src, ast.Call) and call_name(src) in ("enumerate", "zip", "reversed", "list", "sorted") and isinstance(base, ast.Name) and base.id in roots:
                    for t in ast.walk(tgt):
                        if isinstance(t, ast.Name) and t.id not in roots:
                            roots.add(t.id)
                            changed = True
        return roots

    # a step of _elitism / select may live in a further method of the class (a per-child helper): it is held to the same conditions, for the
    # parameters through which (members of) the old population reach it
    work = [(tour.methods["_elitism"], ("population",)), (tour.methods["select"], ("population",))]
    done = {"_elitism", "select", "_tournament"}
    while work:
        fn, seeds = work.pop(0)
        own_list = (newpop + ".",) if (newpop is not None and fn.name == "select") else ()
        members = _member_roots(fn, seeds)
        for c in calls_in(fn.node):
            h = repo.find_method(tour, c.func.attr) if isinstance(c.func, ast.Attribute) and dotted(c.func.value) == "self" else None
            if h is None or h.name in done:
                continue
            done.add(h.name)
            def _base(a: ast.AST) -> Optional[str]:
                while isinstance(a, (ast.Subscript, ast.Attribute, ast.Starred)):
                    a = a.value
                return a.id if isinstance(a, ast.Name) else None
            pos = [p for p in h.params if p != "self"]
            passed = {pos[i] for i, a in enumerate(c.args) if i < len(pos) and _base(a) in members}
            passed |= {k.arg for k in c.keywords if k.arg is not None and _base(k.value) in members}
            for root in sorted(passed) + ["self"]:
                st = stores_to(h.node, root)
                ck.ob("C01.5", h, st[0][0] if st else h.node, not st, f"{h.qualname} performs no store into `{root}`",
                      detail="; ".join(d for _, d in st), construct=f"stores into {root} in {h.qualname}" if not st else None)
                muts = [m for m in inplace_mutations(h.node, root)]
                ck.ob("C01.5", h, muts[0][0] if muts else h.node, not muts, f"{h.qualname} mutates no container of `{root}` in place",
                      detail="; ".join(f"{a}{hw}" for _, a, hw in muts),
                      construct=f"in-place mutations of {root}.* in {h.qualname}" if not muts else None)
            work.append((h, tuple(sorted(passed))))
        for c in calls_in(fn.node):
            recv = c.func.value if isinstance(c.func, ast.Attribute) else None
            while isinstance(recv, (ast.Subscript, ast.Attribute)):
                recv = recv.value
            on_member = isinstance(recv, ast.Name) and recv.id in members
            if isinstance(c.func, ast.Attribute) and on_member and not call_name(c).startswith(("np.", "self.") + own_list):
                ok = c.func.attr in ("clone", "argsort")
                ck.ob("C01.5", fn, c, ok,
                      "the only method invoked on members of the old population is clone()",
                      detail=f"call {short(c, 80)} may change the member it is invoked on")


# --------------------------------------------------------------------------------------------- C01.6
def r6_shared_containers(ck: Check, repo: Repo, mclone: Fn) -> None:
    ck.rule(
        "C01.6",
        "a module clone shares no container with its parent that some method mutates in place (clone.X = self.X with X "
        "mutated by append/+=/[i]= elsewhere in the class hierarchy)",
    )
    em = repo.cls(MODBASE, "EvolvableModule")
    mnew = _new_object_name(mclone)  # the local holding the module copy
    shared = []
    for n in walk_no_nested(mclone.node):
        if isinstance(n, ast.Assign) and len(n.targets) == 1:
            t, v = dotted(n.targets[0]), dotted(n.value)
            if mnew is not None and t.startswith(mnew + ".") and v.startswith("self.") and t.split(".", 1)[1] == v.split(".", 1)[1]:
                shared.append((n, v.split(".", 1)[1]))
    ck.note("C01.6_shared_attrs", [a for _, a in shared])
    # in-place mutations over all EvolvableModule classes
    mut_sites = {}
    for c in [em] + repo.subclasses("EvolvableModule"):
        for m in c.methods.values():
            for node, attr, how in inplace_mutations(m.node, "self"):
                mut_sites.setdefault(attr, []).append((m, node, how))
    # frozen reasoned exception
    REASONED = {
        "_layer_mutation_methods": "in __setattr__ the `+=` is preceded by filter_mutation_methods (a rebinding) whenever "
                                   "the attribute name is already registered, the only case after construction",
        "_node_mutation_methods": "same as _layer_mutation_methods",
    }
    if not shared:
        ck.ob("C01.6", mclone, mclone.node, True, "no attribute is shared by reference between module and clone",
              construct="clone.X = self.X assignments: none")
    for node, attr in shared:
        sites = mut_sites.get(attr, [])
        if not sites:
            ck.ob("C01.6", mclone, node, True, f"shared attribute `{attr}` is never mutated in place")
            continue
        ok = attr in REASONED
        if ok:
            # re-validate the reason: every in-place site is in __setattr__ and dominated-by/preceded by a guarded filter call,
            # or in EvolvableWrapper._init_wrapped_methods (constructor time, before any clone exists)
            for m, n2, how in sites:
                if m.name == "__setattr__":
                    calls = [c for c in calls_in(m.node) if last_attr(c) == "filter_mutation_methods"]
                    if not calls or calls[0].lineno > n2.lineno:
                        ok = False
                elif m.name in ("_init_wrapped_methods", "__init__", "_init_surface_methods"):
                    continue
                else:
                    ok = False
        ck.ob("C01.6", mclone, node, ok,
              f"container `{attr}` shared between module and clone is not extended in place after construction",
              detail=(REASONED.get(attr, "") if ok else
                      "in-place mutation sites: " + "; ".join(f"{m.qualname}:{n2.lineno} {how}" for m, n2, how in sites)))


# --------------------------------------------------------------------------------------------- C01.7
def r7_overrides_complete(ck: Check, repo: Repo) -> None:
    ck.rule(
        "C01.7",
        "agent wrappers clone the wrapped agent, build the new wrapper around that clone and deep-copy their own "
        "attributes (module-level clone() overrides are checked under C04)",
    )
    # AgentWrapper.clone clones the wrapped agent
    wfn = repo.fn("agilerl.wrappers.agent", "AgentWrapper.clone")
    inner = [c for c in calls_in(wfn.node) if call_name(c) == "self.agent.clone"]
    ck.ob("C01.7", wfn, inner[0] if inner else wfn.node, bool(inner), "AgentWrapper.clone clones the wrapped agent")
    if inner:
        ctor = [c for c in calls_in(wfn.node) if dotted(c.func) in ("self.__class__",) or call_name(c) == "type(self)"]
        # the argument is the local bound to self.agent.clone(...) (or that call itself)
        wcfg = CFG(wfn.node)
        is_inner = lambda v: isinstance(v, ast.Call) and call_name(v) == "self.agent.clone"
        ok = bool(ctor) and any(is_inner(a) or (isinstance(a, ast.Name) and _defined_only_by(wcfg, wcfg.node_of(ctor[0]), a.id, is_inner))
                                for a in ctor[0].args)
        ck.ob("C01.7", wfn, ctor[0] if ctor else wfn.node, ok, "the new wrapper is built around the cloned agent, not the parent")
        ca = [c for c in calls_in(wfn.node) if last_attr(c) == "copy_attributes"]
        ck.ob("C01.7", wfn, ca[0] if ca else wfn.node, bool(ca), "wrapper attributes go through copy_attributes (deep copies)")


# --------------------------------------------------------------------------------------------- C01.8
@dataclass
class Member:
    """One way an element gets into a local list: an element of the list display that defines the list, or the argument of a call that adds to it."""
    elt: ast.AST  # the element expression
    node: Node  # the CFG node that evaluates it
    site: ast.AST  # the call / the defining assignment (what a report points at)
    how: str  # display | comp | append | insert | extend
    conds: List[Tuple[ast.AST, bool]] = field(default_factory=list)  # conditional expressions inside the defining value: (test, outcome under which the element is there)
    pos: int = 0  # position inside its display


@dataclass
class ListBuild:
    """How a local list is put together, whatever the spelling: `x = []` + `x.append(e)` in a branch, `x = [e] if c else []`, `x = [e]` / `x = []` on
    the two arms of an `if`, `[a] + [b]` ... all yield the same members (with the conditions under which they are added)."""
    name: Optional[str]
    defs: List[Node] = field(default_factory=list)  # the statements that bind the name to a (new) list
    members: List[Member] = field(default_factory=list)
    not_lists: List[ast.AST] = field(default_factory=list)  # values bound to the name that are not a new list object
    problems: List[str] = field(default_factory=list)  # constructs on the list that the model does not describe (the member sequence is then unknown)


def _strip_not(test: ast.AST, pol: bool = True) -> Tuple[ast.AST, bool]:
    while isinstance(test, ast.UnaryOp) and isinstance(test.op, ast.Not):
        test, pol = test.operand, not pol
    return test, pol


def _display_members(v: ast.AST, n: Node, lb: ListBuild, conds: List[Tuple[ast.AST, bool]], base: int = 0, cfg: Optional[CFG] = None,
                     seen: Optional[Set[str]] = None) -> Optional[int]:
    """Record the members of the list-valued expression v; the number of positions it fills when that is fixed (None otherwise).
    With `cfg`: an operand of a concatenation that is a local contributes the members of that local list (`a + b` copies the elements of both into a new list)."""
    if isinstance(v, ast.List):
        for i, x in enumerate(v.elts):
            if isinstance(x, ast.Starred):
                lb.problems.append(f"unpacking inside the list display: {short(v, 60)}")
                return None
            lb.members.append(Member(x, n, n.ast, "display", list(conds), base + i))
        return len(v.elts)
    if isinstance(v, ast.Call) and call_name(v) == "list" and not v.args and not v.keywords:
        return 0
    if isinstance(v, ast.IfExp):
        t, pol = _strip_not(v.test)
        a = _display_members(v.body, n, lb, conds + [(t, pol)], base, cfg, seen)
        b = _display_members(v.orelse, n, lb, conds + [(t, not pol)], base, cfg, seen)
        return a if a == b else None
    if isinstance(v, ast.BinOp) and isinstance(v.op, ast.Add):
        def operand(x: ast.AST, at: int) -> Optional[int]:
            if isinstance(x, ast.Name) and cfg is not None:
                _build_local(cfg, x.id, lb, seen if seen is not None else set())
                return None
            return _display_members(x, n, lb, conds, at, cfg, seen)
        a = operand(v.left, base)
        b = operand(v.right, base + (a or 0))
        return a + b if a is not None and b is not None else None
    if isinstance(v, ast.ListComp):
        lb.members.append(Member(v.elt, n, n.ast, "comp", list(conds), base))
        return None
    lb.not_lists.append(v)
    return None


def list_build(cfg: CFG, name: Optional[str]) -> ListBuild:
    """The construction of the local list `name` in the function of `cfg` (see ListBuild)."""
    lb = ListBuild(name)
    if name is None:
        lb.problems.append("no local list")
        return lb
    return _build_local(cfg, name, lb, set())


def returned_list_build(cfg: CFG, pos: Optional[int] = None) -> ListBuild:
    """The construction of the list the function of `cfg` returns (element `pos` of the returned tuple when given): the local list it returns, or the
    value of the returned expression — a display / comprehension / conditional expression / concatenation, whose operands may be local lists."""
    lb = ListBuild(None)
    rets = [n for n in cfg.live_nodes() if n.kind == "stmt" and isinstance(n.ast, ast.Return)]
    if not rets:
        lb.problems.append("no local list")
    seen: Set[str] = set()
    for n in rets:
        v = n.ast.value
        if pos is not None:
            v = v.elts[pos] if isinstance(v, ast.Tuple) and len(v.elts) > pos else None
        if v is None:
            lb.not_lists.append(n.ast)
            lb.problems.append(f"`{short(n.ast, 60)}` returns no list")
        elif isinstance(v, ast.Name):
            lb.name = lb.name or v.id
            _build_local(cfg, v.id, lb, seen)
        else:
            before = len(lb.not_lists)
            _display_members(v, n, lb, [], 0, cfg, seen)
            if len(lb.not_lists) == before:
                lb.defs.append(n)  # the returned expression makes the new list
    return lb


def _build_local(cfg: CFG, name: str, lb: ListBuild, seen: Set[str]) -> ListBuild:
    """Add the construction of the local list `name` to lb."""
    if name in seen:
        return lb
    seen.add(name)
    own_defs: List[Node] = []  # the bindings of this name
    added: List[Member] = []  # what is added to the list through this name
    for n in cfg.live_nodes():
        keys = [k for k, strong in cfg.defs_at(n) if k == name and strong]
        if not keys:
            continue
        v = cfg.value_of_def(n, name) if n.kind == "stmt" and isinstance(n.ast, (ast.Assign, ast.AnnAssign)) else None
        lb.defs.append(n)
        own_defs.append(n)
        if v is None:
            lb.not_lists.append(n.ast)
            lb.problems.append(f"`{name}` re-bound by {short(n.ast, 60)}")
        else:
            _display_members(v, n, lb, [], 0, cfg, seen)
    for c in calls_in(cfg.fn):
        f = c.func
        if not (isinstance(f, ast.Attribute) and isinstance(f.value, ast.Name) and f.value.id == name):
            continue
        n = cfg.node_of(c)
        if n is None:
            continue  # dead code
        if f.attr in ("append", "insert", "extend") and c.args:
            added.append(Member(c.args[-1], n, c, f.attr))
        elif f.attr in ("pop", "remove", "clear", "sort", "reverse", "__setitem__", "__delitem__", "__iadd__"):
            lb.problems.append(f"`{short(c, 60)}` changes the list in a way the model does not describe")
    for n in cfg.live_nodes():
        if n.kind == "stmt" and isinstance(n.ast, (ast.Assign, ast.AugAssign, ast.Delete)):
            tg = n.ast.targets if not isinstance(n.ast, ast.AugAssign) else [n.ast.target]
            if any(isinstance(t, ast.Subscript) and dotted(t.value) == name for t in tg):
                lb.problems.append(f"element store / deletion `{short(n.ast, 60)}`")
    # the list is bound before anything is added, and never re-bound afterwards
    lb.members += added
    for m in added:
        if not any(d in own_defs for d in cfg.defs_reaching(m.node, name)):
            lb.problems.append(f"`{short(m.site, 60)}` is not reached by a binding of `{name}`")
        if any(d.id in cfg.reachable_from(m.node) for d in own_defs):
            lb.problems.append(f"`{name}` can be re-bound after `{short(m.site, 60)}`")
    return lb


def r8_tournament(ck: Check, repo: Repo) -> None:
    ck.rule("C01.8", "every member of the new population and the returned elite is the result of a .clone( call")
    tour = repo.cls("agilerl.hpo.tournament", "TournamentSelection")
    sel = tour.methods["select"]
    eli = tour.methods["_elitism"]
    cfg = CFG(sel.node)
    ev = OwnEval(cfg, alias_roots={"population"})
    # the new population: what select returns second — a local list, or an expression that makes a list (display / comprehension / concatenation
    # of local lists); every way a member gets into it: append / insert / extend calls and the elements of the list display(s) / comprehension(s)
    lb = returned_list_build(cfg, 1)
    # a member may be made by a method of the class (the per-child step as a helper): what the helper returns is then the member
    def helper(c: ast.Call) -> Optional[ast.AST]:
        f = c.func
        m = repo.find_method(tour, f.attr) if isinstance(f, ast.Attribute) and dotted(f.value) == "self" else None
        return m.node if m is not None else None
    ck.floor("C01.8", len(lb.members), 2, "member sites building the new population (append calls / elements of its list display)", fn=sel)
    for m in lb.members:
        o = ev.own(m.elt, m.node)
        is_clone = _is_clone_expr(m.elt, cfg, m.node, helper)
        ck.ob("C01.8", sel, m.site if m.how not in ("display", "comp") else m.elt, o.level == FRESH and is_clone, "member appended to the new population is a clone",
              detail=f"{o.level}: {o.why}")
    # the population list itself is a new list: every binding of the name is a list display / list() / comprehension (also through a conditional expression or `+`)
    ok = bool(lb.defs) and not lb.not_lists
    ck.ob("C01.8", sel, lb.defs[0].ast if lb.defs else sel.node, ok, "the new population is a new list object, not the old one",
          detail="; ".join(short(x, 60) for x in lb.not_lists))
    ecfg = CFG(eli.node)
    eev = OwnEval(ecfg, alias_roots={"population"})
    for r in [n for n in walk_no_nested(eli.node) if isinstance(n, ast.Return)]:
        first = r.value.elts[0] if isinstance(r.value, ast.Tuple) else r.value
        n = ecfg.node_of(r)
        o = eev.own(first, n)
        ck.ob("C01.8", eli, r, o.level == FRESH and _is_clone_expr(first, ecfg, n), "the elite returned by _elitism is a clone of the best member",
              detail=f"{o.level}: {o.why}")


def _is_clone_expr(e: ast.AST, cfg: CFG, n, helper=None, depth: int = 2) -> bool:
    """e is the result of a .clone( call: directly, through locals, or (with `helper`: call -> function definition it denotes) as the value every
    `return` of a called helper hands back."""
    if isinstance(e, ast.Call) and isinstance(e.func, ast.Attribute) and e.func.attr == "clone":
        return True
    if isinstance(e, ast.Name):
        defs = cfg.defs_reaching(n, e.id)
        return bool(defs) and all(
            (v := cfg.value_of_def(d, e.id)) is not None and _is_clone_expr(v, cfg, d, helper, depth) for d in defs
        )
    if isinstance(e, ast.IfExp):
        return _is_clone_expr(e.body, cfg, n, helper, depth) and _is_clone_expr(e.orelse, cfg, n, helper, depth)
    if isinstance(e, ast.Call) and helper is not None and depth > 0:
        fd = helper(e)
        if fd is None:
            return False
        hcfg = CFG(fd)
        rets = [r for r in hcfg.live_nodes() if r.kind == "stmt" and isinstance(r.ast, ast.Return)]
        return bool(rets) and all(r.ast.value is not None and _is_clone_expr(r.ast.value, hcfg, r, helper, depth - 1) for r in rets)
    return False


# --------------------------------------------------------------------------------------------- C01.9
def r9_inspect_excludes(ck: Check, repo: Repo, inspect_attrs: Fn, clone: Fn) -> None:
    ck.rule(
        "C01.9",
        "networks and optimizers never travel through the attribute copier: inspect_attributes excludes every evolvable "
        "attribute, and clone() re-creates every registered optimizer from the clone's own networks",
    )
    src_nodes = list(walk_no_nested(inspect_attrs.node))
    # the exclusion list is the local seeded from <agent>.evolvable_attributes() (`agent` is the parameter)
    def seeded(v: ast.AST) -> bool:
        return any(isinstance(x, ast.Call) and call_name(x) == "agent.evolvable_attributes" for x in ast.walk(v))
    excl_names = {n.targets[0].id for n in src_nodes if isinstance(n, ast.Assign) and len(n.targets) == 1
                  and isinstance(n.targets[0], ast.Name) and seeded(n.value)}
    excl = [n for n in src_nodes if isinstance(n, ast.Assign) and dotted(n.targets[0]) in excl_names]
    ok = any(seeded(n.value) for n in excl)
    ck.ob("C01.9", inspect_attrs, excl[0] if excl else inspect_attrs.node, ok,
          "the exclusion list is seeded from agent.evolvable_attributes() (networks and optimizers)")
    # both dict comprehensions filter on `not in exclude`
    comps = [n for n in src_nodes if isinstance(n, ast.DictComp)]
    ck.floor("C01.9", len(comps), 2, "attribute dict comprehensions in inspect_attributes", fn=inspect_attrs)
    for dc in comps:
        conds = [c for g in dc.generators for c in g.ifs]
        ok = any(isinstance(a, ast.Compare) and isinstance(a.ops[0], ast.NotIn) and dotted(a.comparators[0]) in excl_names
                 for c in conds for a, _ in conjuncts(c))
        ck.ob("C01.9", inspect_attrs, dc, ok, "returned attributes are filtered by `k not in exclude`")
    # clone(): optimizer networks come from cloned_modules, lr from the original wrapper
    cfg = CFG(clone.node)
    new = _new_object_name(clone)  # the local holding the copy
    optcfg = _loop_var_over(clone, "self.registry.optimizers")  # the registry entry of the optimizer being re-created
    # the container(s) whose elements are installed on the copy as its networks: setattr(<copy>, _, <container>[_])
    # — the value written as that element, or a local that is also stored into the container under the same key (`v = ...; <container>[k] = v;
    # setattr(<copy>, k, v)`)
    inst = _installed_elements(cfg, clone, new)
    installed = [c for c, _ in inst]
    own_nets = {name for _, name in inst}
    ows = [c for c in calls_in(clone.node) if call_name(c) == "OptimizerWrapper"]
    ck.floor("C01.9", len(ows), 1, "OptimizerWrapper construction in clone()", fn=clone)
    for c in ows:
        nets = get_kw(c, "networks", 1)
        n = cfg.node_of(c)
        ok = False
        if nets is not None:
            roots = _roots(nets, cfg, n, optcfg)
            ok = bool(roots) and bool(own_nets) and roots <= own_nets
        ck.ob("C01.9", clone, c, ok, "the clone's optimizer is built over the clone's own (cloned) networks",
              detail=f"`networks` derives from {sorted(_roots(nets, cfg, n, optcfg)) if nets is not None else '?'}")
        lr = get_kw(c, "lr", 2)
        # the parent's optimizer: the local bound to getattr(self, <registry entry>.name)
        def parent_opt(v: ast.AST) -> bool:
            return (isinstance(v, ast.Call) and call_name(v) == "getattr" and len(v.args) >= 2 and dotted(v.args[0]) == "self"
                    and optcfg is not None and dotted(v.args[1]) == f"{optcfg}.name")
        ok = isinstance(lr, ast.Attribute) and isinstance(lr.value, ast.Name) and _defined_only_by(cfg, n, lr.value.id, parent_opt)
        ck.ob("C01.9", clone, c, ok, "the clone's optimizer uses the parent's optimizer learning rate",
              construct=f"lr={short(lr, 60)}")
        for kw, want in (("optimizer_kwargs", "optimizer_kwargs"), ("multiagent", "multiagent"), ("lr_name", "lr"), ("network_names", "networks")):
            v = get_kw(c, kw)
            ok = v is not None and optcfg is not None and dotted(v) == f"{optcfg}.{want}"
            ck.ob("C01.9", clone, c, ok, f"optimizer setting `{kw}` is taken from the registry entry of the same optimizer",
                  construct=f"{kw}={short(v, 60)}")
    # loop is over every registered optimizer
    fors = [n for n in walk_no_nested(clone.node) if isinstance(n, ast.For) and "registry.optimizers" in ast.unparse(n.iter)]
    ck.ob("C01.9", clone, fors[0] if fors else clone.node, bool(fors) and dotted(fors[0].iter) == "self.registry.optimizers",
          "clone() iterates over every optimizer of the parent's registry")
    # mutation hooks re-run on the clone after modules are set, before optimizers are created
    hooks = [c for c in calls_in(clone.node) if new is not None and call_name(c) == f"{new}.mutation_hook"]
    ok = False
    if hooks and ows:
        hn, on = cfg.node_of(hooks[0]), cfg.node_of(ows[0])
        sets = [cfg.node_of(c) for c in installed]
        ok = hn is not None and on is not None and cfg.dominates(hn, on) and all(s is not None and hn.id in cfg.reachable_from(s) for s in sets)
    ck.ob("C01.9", clone, hooks[0] if hooks else clone.node, ok,
          "clone.mutation_hook() runs after the cloned networks are installed and before optimizers are built over them")


def _same_value(cfg: CFG, a: ast.AST, na, b: ast.AST, nb) -> bool:
    """Expression a at node na and b at nb are the same term over the same definitions of their variables."""
    if ast.dump(a) != ast.dump(b):
        return False
    for x in ast.walk(a):
        if isinstance(x, ast.Name) and isinstance(x.ctx, ast.Load):
            da, db = {d.id for d in cfg.defs_reaching(na, x.id)}, {d.id for d in cfg.defs_reaching(nb, x.id)}
            if da != db:
                return False
    return True


def _installed_elements(cfg: CFG, fn: Fn, new: Optional[str]) -> List[Tuple[ast.Call, str]]:
    """(call, container) for every `setattr(<copy>, k, v)` whose value v is the element `<container>[k]` of a local container: written as that
    element, or the very object a store `<container>[k] = v` puts there (same key, same definitions of v, one statement always runs with the other)."""
    out: List[Tuple[ast.Call, str]] = []
    stores = [(n, t) for n in cfg.live_nodes() if n.kind == "stmt" and isinstance(n.ast, ast.Assign)
              for t in n.ast.targets if isinstance(t, ast.Subscript) and isinstance(t.value, ast.Name)]
    for c in calls_in(fn.node):
        if not _is_setattr_on(c, new):
            continue
        v, n = c.args[2], cfg.node_of(c)
        if isinstance(v, ast.Subscript) and isinstance(v.value, ast.Name):
            out.append((c, v.value.id))
        elif isinstance(v, ast.Name) and n is not None:
            for sn, t in stores:
                if isinstance(sn.ast.value, ast.Name) and _same_value(cfg, sn.ast.value, sn, v, n) and _same_value(cfg, t.slice, sn, c.args[1], n) \
                        and (cfg.dominates(sn, n) or cfg.dominates(n, sn)):
                    out.append((c, t.value.id))
                    break
    return out


def _roots(e: ast.AST, cfg: CFG, n, optcfg: Optional[str] = None, depth: int = 4) -> Set[str]:
    """Root local names an expression's value is built from (following local definitions).  Not roots: the registry
    entry being iterated (`optcfg`, it only supplies network *names*) and variables bound by a comprehension inside
    the expression (their values come from the comprehension's iterable, which is walked)."""
    out: Set[str] = set()
    bound = {t.id for x in ast.walk(e) if isinstance(x, ast.comprehension) for t in ast.walk(x.target) if isinstance(t, ast.Name)}
    for x in ast.walk(e):
        if isinstance(x, ast.Name) and isinstance(x.ctx, ast.Load):
            if x.id == optcfg or x.id in bound or x.id in ("isinstance", "list", "len", "range"):
                continue
            defs = cfg.defs_reaching(n, x.id)
            vals = [(cfg.value_of_def(d, x.id), d) for d in defs]
            if depth > 0 and vals and all(v is not None for v, _ in vals) and all(d.kind == "stmt" for _, d in vals) \
                    and not any(isinstance(d.ast, ast.Assign) and any(isinstance(t, ast.Subscript) for t in d.ast.targets) for _, d in vals):
                for v, d in vals:
                    out |= _roots(v, cfg, d, optcfg, depth - 1)
            else:
                out.add(x.id)
    return out


_B = "agilerl/algorithms/core/base.py"
_M = "agilerl/modules/base.py"
_T = "agilerl/hpo/tournament.py"
# select() as written today: the bookkeeping before the tournament loop
_T_HEAD = ("        new_population = []\n        if self.elitism:  # keep top agent in population\n            new_population.append(elite.clone(wrap=False))\n"
           "            selection_size = self.population_size - 1\n        else:\n            selection_size = self.population_size\n")
VARIANTS = [
    ("td3-private-learn-counter", "agilerl/algorithms/td3.py", "        self.learn_counter += 1", "        self._learn_counter += 1", "fire", "C01.10"),
    ("noisy-buffers-non-persistent", "agilerl/modules/custom_components.py", "        self.register_buffer(\"bias_epsilon\", torch.empty(out_features, device=device))", "        self.register_buffer(\"bias_epsilon\", torch.empty(out_features, device=device), persistent=False)", "fire", "C01.12"),
    ("running-mean-std-callable", "agilerl/wrappers/agent.py", "class RunningMeanStd:\n", "class RunningMeanStd:\n    def __call__(self, x):\n        return (x - self.mean) / (self.var + self.epsilon) ** 0.5\n\n", "fire", "C01.11"),
    ("opt-state-alias", _B, "opt.load_state_dict(copy.deepcopy(orig_optimizer.state_dict()))", "opt.load_state_dict(orig_optimizer.state_dict())", "fire", "C01.1"),
    ("opt-state-via-temp-ok", _B, "opt.load_state_dict(copy.deepcopy(orig_optimizer.state_dict()))",
     "opt_state = copy.deepcopy(orig_optimizer.state_dict())\n            opt.load_state_dict(opt_state)", "silent", None),
    ("list-shallow", _B, "setattr(clone, attribute, [copy.deepcopy(el) for el in attr])", "setattr(clone, attribute, list(attr))", "fire", "C01.3"),
    ("list-alias", _B, "setattr(clone, attribute, [copy.deepcopy(el) for el in attr])", "setattr(clone, attribute, attr)", "fire", "C01.3"),
    ("ndarray-no-copy", _B, "                        setattr(\n                            clone, attribute, copy.deepcopy(getattr(agent, attribute))\n                        )\n                elif isinstance(attr, list)",
     "                        setattr(\n                            clone, attribute, getattr(agent, attribute)\n                        )\n                elif isinstance(attr, list)", "fire", "C01.3"),
    ("registry-not-forced", _B, "elif attr != clone_attr or isinstance(attr, MutationRegistry):", "elif attr != clone_attr:", "fire", "C01.4"),
    ("skip-dicts", _B, "if callable(attr) or isinstance(attr, EvolvableAlgorithm):", "if callable(attr) or isinstance(attr, (EvolvableAlgorithm, dict)):", "fire", "C01.3"),
    ("skip-lists-early", _B, "                elif isinstance(attr, list) or isinstance(clone_attr, list):\n",
     "                elif isinstance(attr, list) and len(attr) == 0:\n                    pass\n                elif isinstance(attr, list) or isinstance(clone_attr, list):\n", "fire", "C01.3"),
    ("module-not-cloned", _B, "                cloned_modules[attr] = obj.clone()\n", "                cloned_modules[attr] = obj\n", "fire", "C01.2"),
    ("module-list-not-cloned", _B, "cloned_modules[attr] = [m.clone() for m in obj]", "cloned_modules[attr] = [m for m in obj]", "fire", "C01.2"),
    ("init-dict-not-copied", _M, "clone = self.__class__(**copy.deepcopy(self.get_init_dict()))", "clone = self.__class__(**self.get_init_dict())", "fire", "C01.2"),
    ("write-back-index", _B, "        if index is not None:\n            clone.index = index\n", "        if index is not None:\n            clone.index = index\n            self.index = index\n", "fire", "C01.5"),
    ("elite-not-cloned", _T, "new_population.append(elite.clone(wrap=False))", "new_population.append(elite)", "fire", "C01.8"),
    ("member-not-cloned", _T, "new_individual = actor_parent.clone(max_id, wrap=False)", "new_individual = actor_parent", "fire", "C01.8"),
    ("elite-model-returned", _T, "        elite = model.clone()\n", "        elite = model\n", "fire", "C01.8"),
    ("optimizer-over-parent-nets", _B, "else [cloned_modules[net] for net in opt_config.networks]", "else [getattr(self, net) for net in opt_config.networks]", "fire", "C01.9"),
    ("exclude-dropped", _B, "attributes = {k: v for k, v in attributes if k not in exclude}", "attributes = {k: v for k, v in attributes}", "fire", "C01.9"),
    ("rename-local-ok", _B, "        clone = type(self)(**input_args)\n", "        clone = type(self)(**input_args)\n        _unused = None\n", "silent", None),
    ("elite-in-conditional-display-ok", _T, _T_HEAD, "        new_population = [elite.clone(wrap=False)] if self.elitism else []\n        selection_size = self.population_size - len(new_population)\n", "silent", None),
    ("elite-display-per-branch-ok", _T, _T_HEAD, "        if self.elitism:\n            new_population = [elite.clone(wrap=False)]\n        else:\n            new_population = list()\n"
     "        selection_size = self.population_size - len(new_population)\n", "silent", None),
    ("elite-in-display-not-cloned", _T, _T_HEAD, "        new_population = [elite] if self.elitism else []\n        selection_size = self.population_size - len(new_population)\n", "fire", "C01.8"),
    ("old-list-on-one-arm", _T, _T_HEAD, "        new_population = [elite.clone(wrap=False)] if self.elitism else population\n        selection_size = self.population_size - 1 if self.elitism else 0\n", "fire", "C01.8"),
    ("old-list-copied-shallow", _T, "        new_population = []\n", "        new_population = list(population[:0])\n", "fire", "C01.8"),
    ("fitness-mutated-in-select", _T, "            actor_parent = population[self._tournament(rank)]\n", "            actor_parent = population[self._tournament(rank)]\n            actor_parent.fitness.append(0)\n", "fire", "C01.5"),
]

# select() as written today: everything after the call of _elitism
_T_BODY = (_T_HEAD + "\n        # select parents of next gen using tournament selection\n        for idx in range(selection_size):\n            max_id += 1\n"
           "            actor_parent = population[self._tournament(rank)]\n            new_individual = actor_parent.clone(max_id, wrap=False)\n"
           "            new_population.append(new_individual)\n\n        return elite, new_population")
# the same function with the per-child step in a method of its own, the children made by a comprehension and the new population by a concatenation
VARIANTS += (lambda form: [
    ("select-helper-comprehension-concat-ok", _T, _T_BODY, form, "silent", None),
    ("select-concat-through-local-ok", _T, _T_BODY, form.replace("return elite, survivors + offspring", "next_gen = survivors + offspring\n        return elite, next_gen"), "silent", None),
    ("select-helper-returns-parent", _T, _T_BODY, form.replace("return parent.clone(index=index, wrap=False)", "parent.index = index\n        return parent"), "fire", "C01.8"),
    ("select-helper-clones-on-one-path", _T, _T_BODY, form.replace("return parent.clone(index=index, wrap=False)", "return parent.clone(index=index, wrap=False) if self.elitism else parent"), "fire", "C01.8"),
    ("select-concat-old-population", _T, _T_BODY, form.replace("return elite, survivors + offspring", "return elite, survivors + offspring + population[:0]"), "fire", "C01.8"),
    ("select-concat-old-list-local", _T, _T_BODY, form.replace("survivors = [elite.clone(wrap=False)] if self.elitism else []", "survivors = [elite.clone(wrap=False)] if self.elitism else population"), "fire", "C01.8"),
    ("select-helper-mutates-parent", _T, _T_BODY, form.replace("        return parent.clone(index=index, wrap=False)", "        parent.fitness.append(0)\n        return parent.clone(index=index, wrap=False)"), "fire", "C01.5"),
])(
    "        survivors = [elite.clone(wrap=False)] if self.elitism else []\n        selection_size = self.population_size - len(survivors)\n"
    "        offspring = [\n            self._child(population, rank, index=max_id + offset)\n            for offset in range(1, selection_size + 1)\n        ]\n"
    "        return elite, survivors + offspring\n\n    def _child(self, population, rank, index):\n        parent = population[self._tournament(rank)]\n"
    "        return parent.clone(index=index, wrap=False)")
# clone(): the cloned network held in a local that is stored into the container and on the copy
_B_MODS = ("            if isinstance(obj, list):\n                cloned_modules[attr] = [m.clone() for m in obj]\n            else:\n"
           "                cloned_modules[attr] = obj.clone()\n\n            setattr(clone, attr, cloned_modules[attr])\n")
VARIANTS += [
    ("cloned-module-through-local-ok", _B, _B_MODS, "            module_copy = [m.clone() for m in obj] if isinstance(obj, list) else obj.clone()\n"
     "            cloned_modules[attr] = module_copy\n            setattr(clone, attr, module_copy)\n", "silent", None),
    ("optimizer-over-other-copies", _B, _B_MODS, "            module_copy = [m.clone() for m in obj] if isinstance(obj, list) else obj.clone()\n"
     "            cloned_modules[attr] = module_copy\n            module_copy = copy.deepcopy(module_copy)\n            setattr(clone, attr, module_copy)\n", "fire", "C01.9"),
    ("optimizer-over-other-key", _B, _B_MODS, "            module_copy = [m.clone() for m in obj] if isinstance(obj, list) else obj.clone()\n"
     "            cloned_modules[attr] = module_copy\n            attr = attr.lower()\n            setattr(clone, attr, module_copy)\n", "fire", "C01.9"),
]
