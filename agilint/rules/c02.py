"""C02 — after any mutation an agent is coherent: optimizers, targets and critics follow."""
from __future__ import annotations

import ast
from typing import Dict, List, Optional, Set, Tuple

from ..cfg import CFG, Node
from ..core import AnalysisError, Cls, Fn, Repo, call_name, calls_in, const_value, dotted, get_kw, last_attr, short, walk_no_nested
from ..registry import ALGOS, AlgoRegistry, extract, extract_all
from ..pat import has
from ..report import Check
from ..util import self_attr_stores

MUT = "agilerl.hpo.mutation"


def run(ck: Check, repo: Repo) -> None:
    # the "uses the agent's current learning rate" clause after an RL-hyper-parameter mutation is decided by the C06 rules on the same code;
    # their obligations are taken over here (run first: a nested Check resets the per-run pattern environments)
    from dataclasses import replace
    from . import c06
    sub = Check("C06", ck.tier, ck.repo_root)
    sub.known = []
    c06.run(sub, repo)
    ck.rule("C02.7", "after an RL-hyper-parameter mutation every optimizer registered for the mutated learning rate uses the new value "
                     "(obligations of C06.4 and C06.6, shared with the C06 check)")
    taken = [replace(o, rule="C02.7") for o in sub.obs if o.rule in ("C06.4", "C06.6")]
    if len(taken) < 8:
        raise AnalysisError(f"C02.7: only {len(taken)} obligations taken over from C06.4 / C06.6")
    for o in taken:
        if o.status == "violated" and ck._known_entry(o) is not None:
            o.status = "known"
    ck.obs.extend(taken)
    # the policy's mutation is replayed on the critics with the arguments it RETURNED: a bound-stopped method that falls back to another one must
    # return that call's result, otherwise the critics draw their own arguments (C03.2 obligations on the same methods)
    from . import c03
    sub3 = Check("C03", ck.tier, ck.repo_root)
    sub3.known = []
    c03.run(sub3, repo)
    ck.rule("C02.8", "the arguments of the mutation applied to the policy reach the critics: a mutation method stopped by its bound leaves the architecture untouched or "
                     "RETURNS the result of the method it falls back to (obligations of C03.2, shared with the C03 check)")
    taken3 = [replace(o, rule="C02.8") for o in sub3.obs if o.rule == "C03.2"]
    if len(taken3) < 20:
        raise AnalysisError(f"C02.8: only {len(taken3)} obligations taken over from C03.2")
    ck.obs.extend(taken3)
    ck.rule("C02.10", "a replayed mutation lands where the policy's did: optional numeric arguments of the mutation methods (layer index 0 included) are "
                      "recognised as absent by `is None` only (obligations of C03.14, shared with the C03 check)")
    taken14 = [replace(o, rule="C02.10") for o in sub3.obs if o.rule == "C03.14"]
    if len(taken14) < 20:
        raise AnalysisError(f"C02.10: only {len(taken14)} obligations taken over from C03.14")
    ck.obs.extend(taken14)
    ck.rule("C02.9", "the reported mutation matches what was done: activation_mutation changes a network (in place) only on paths on which it reports 'act'")
    _report_matches_effect(ck, repo)
    ck.not_decided += ["identity of the optimizer's parameters with the live tensors at run time",
                       "that a learn step really moves the parameters (numeric)"]
    ck.rule("C02.1", "optimizer re-creation (reinit_opt over all optimizers) post-dominates every store of a network into the individual "
                     "in architecture_mutate, parameter_mutation and activation_mutation")
    ck.rule("C02.2", "reinit_opt builds the new wrapper from the individual's current networks and learning rate, never from the old wrapper's objects")
    ck.rule("C02.3", "Mutations.mutation re-creates every shared network from the mutated eval network of the same group (init_dict and "
                     "state_dict of the same offspring), runs the mutation hooks on every iteration, and appends exactly one individual "
                     "per input individual, in order")
    ck.rule("C02.4", "architecture_mutate applies the mutation actually applied to the policy (name and arguments) to every other eval "
                     "network, stores each back, and reports the applied name")
    ck.rule("C02.5", "registry completeness: every network built in an algorithm's __init__ is in exactly one group, every eval network "
                     "is covered by a registered optimizer, every registered optimizer is stepped by learn with zero_grad before backward before step")
    ck.rule("C02.6", "the encoder-sharing hook is registered exactly when sharing was applied and re-ties every network the constructor tied")
    _reinit_after_store(ck, repo)
    _reinit_opt_provenance(ck, repo)
    _shared_rebuilt(ck, repo)
    _critics_follow(ck, repo)
    _registry_complete(ck, repo)
    _encoder_hook(ck, repo)


# ---------------------------------------------------------------- roles of locals, derived by def-use (never by spelling)
def _alts(v: Optional[ast.AST]) -> List[Optional[ast.AST]]:
    """The values an expression may stand for: `a if c else b` stands for a and for b (whether the choice is spelled as a conditional
    expression or as an if / else statement with one assignment per branch must not matter: the latter gives two definitions)."""
    if isinstance(v, ast.IfExp):
        return _alts(v.body) + _alts(v.orelse)
    return [v]


def _def_values(cfg: CFG, n: Optional[Node], name: str) -> List[Tuple[Optional[ast.AST], Node]]:
    """(value, definition node) for every definition of local `name` reaching n (one entry per alternative of a conditional expression);
    value None = not a plain binding."""
    if n is None:
        return []
    return [(v, d) for d in cfg.defs_reaching(n, name) for v in _alts(cfg.value_of_def(d, name))]


def _one_choice(cfg: CFG, nodes: List[Node]) -> bool:
    """The statements are the alternatives of ONE choice: there is at least one, and none of them can run after another one (the single
    `x = a if c else b`, or the branches of `if c: x = a` / `else: x = b`)."""
    return bool(nodes) and not any(m is not n and m.id in cfg.reachable_from(n) for n in nodes for m in nodes)


def _has_choice(target, test: str, a: str, b: str, var: str) -> bool:
    """Some local (`var`, a metavariable) is bound to `a` when `test` holds and to `b` otherwise, in either spelling."""
    return has(target, f'{a} if {test} else {b}') or has(target, f'if {test}:\n    {var} = {a}\nelse:\n    {var} = {b}')


def _sources(cfg: CFG, n: Optional[Node], e: ast.AST) -> List[Optional[ast.AST]]:
    """What expression `e` stands for at n: a local name stands for the values bound by its reaching definitions."""
    if isinstance(e, ast.Name) and n is not None:
        dv = [(v, d) for v, d in _def_values(cfg, n, e.id) if d.kind != "entry"]
        if dv:
            return [v for v, _ in dv]
    return [e]


def _unpacked(v: Optional[ast.AST], idx: int) -> Optional[ast.AST]:
    """The unpacked expression if v is 'element idx of a tuple-unpacking assignment' (see CFG.value_of_def)."""
    if isinstance(v, ast.Subscript) and hasattr(v, "_unpack_len") and const_value(v.slice) == idx:
        return v.value
    return None


def _name_in(e: Optional[ast.AST], names) -> bool:
    return isinstance(e, ast.Name) and e.id in names


def _store_nodes(cfg: CFG, fn: Fn) -> List[Node]:
    out = []
    for c in calls_in(fn.node):
        cn = call_name(c)
        if (cn == "setattr" and c.args and dotted(c.args[0]) == "individual") or cn == "self.to_device_and_set_individual":
            n = cfg.node_of(c)
            if n is not None:
                out.append(n)
    return out


def _reinit_after_store(ck: Check, repo: Repo) -> None:
    for name in ("architecture_mutate", "parameter_mutation", "activation_mutation"):
        fn = repo.fn(MUT, f"Mutations.{name}")
        cfg = CFG(fn.node)
        stores = _store_nodes(cfg, fn)
        ck.ob("C02.1", fn, fn.node, bool(stores), f"{name}: mutated networks are stored back on the individual", construct=f"{name}: network stores")
        reinits = [(c, cfg.node_of(c)) for c in calls_in(fn.node) if call_name(c) == "self.reinit_opt"]
        full = [(c, n) for c, n in reinits if n is not None and len(c.args) == 1 and not c.keywords and dotted(c.args[0]) == "individual"]
        ck.ob("C02.1", fn, full[0][0] if full else fn.node, len(full) >= 1, f"{name}: all optimizers are re-created (reinit_opt(individual))",
              construct=f"{name}: reinit_opt(individual)")
        if not full:
            continue
        rn = {n.id for _, n in full}
        for s in stores:
            p = cfg.path_avoiding(s, {cfg.exit.id}, rn)
            ck.ob("C02.1", fn, s.ast, p is None,
                  f"{name}: after this store every path to a return re-creates the optimizers",
                  detail=("path to a return that bypasses reinit_opt: lines " + ",".join(str(x.lineno) for x in p if x.lineno)) if p else "",
                  construct=f"{name}: {short(s.ast, 100)}")
            ck.ob("C02.1", fn, s.ast, all(s.id not in cfg.reachable_from(n) for _, n in full) or any(isinstance(x, (ast.For, ast.While)) and any(y is s.stmt for y in ast.walk(x)) for x in ast.walk(fn.node)) and all(n.id in cfg.reachable_from(s) for _, n in full),
                  f"{name}: the optimizers are re-created after (not before) the network is replaced")
        # the label is set after the optimizer was rebuilt; returns give back the individual
        labels = [n for n in cfg.live_nodes() if n.kind == "stmt" and isinstance(n.ast, ast.Assign) and dotted(n.ast.targets[0]) == "individual.mut"]
        late = [n for n in labels if any(cfg.dominates(r, n) for _, r in full)]
        ck.ob("C02.1", fn, late[0].ast if late else fn.node, _one_choice(cfg, late), f"{name}: the individual reports its mutation after it has been made coherent",
              construct=f"{name}: individual.mut assignment")
        for n in labels:
            if n not in late:
                ck.ob("C02.1", fn, n.ast, const_value(n.ast.value) == "None" and not any(s.id in cfg.reachable_from(n) or n.id in cfg.reachable_from(s) for s in stores),
                      f"{name}: an early exit reports 'None' and happens before anything was stored")
    # parameter_mutation mutates the policy only and stores it under the policy's name
    fn = repo.fn(MUT, "Mutations.parameter_mutation")
    src = ast.unparse(fn.node)
    ck.ob("C02.1", fn, fn.node, has(src, 'getattr($individual, $registry.policy)') and has(src, 'setattr($individual, $registry.policy, $offspring_policy)'),
          "parameter_mutation reads and writes the policy network of the registry", construct="parameter_mutation policy read/write")
    ck.ob("C02.1", fn, fn.node, has(src, "$individual.mut = 'param'"), "parameter_mutation reports 'param'", construct="parameter_mutation label")


def _owner(root: ast.AST, target: ast.AST) -> ast.AST:
    """The innermost function (root itself or a closure nested in it) whose body holds `target`."""
    best = root
    for f in ast.walk(root):
        if isinstance(f, (ast.FunctionDef, ast.AsyncFunctionDef)) and f is not root and any(x is target for x in ast.walk(f)) and any(x is f for x in ast.walk(best)):
            best = f
    return best


def _weak_def(d: Node, name: str) -> bool:
    """d updates the object bound to local `name` (element store, append ...) without rebinding the name."""
    s = d.ast
    if d.kind != "stmt":
        return False
    if isinstance(s, ast.Assign):
        return all(isinstance(t, ast.Subscript) and dotted(t.value) == name for t in s.targets)
    return isinstance(s, ast.Expr) and isinstance(s.value, ast.Call) and isinstance(s.value.func, ast.Attribute) and dotted(s.value.func.value) == name


def _bindings(cfg: CFG, n: Optional[Node], name: str) -> List[Tuple[Optional[ast.AST], Node]]:
    """(value, definition node) of every binding of local `name` reaching n (element updates of the bound object left out)."""
    return [(v, d) for v, d in _def_values(cfg, n, name) if not _weak_def(d, name)]


class _ReinitScope:
    """reinit_opt and the closures nested in it: which expressions denote the individual's live networks / a registered optimizer entry."""

    def __init__(self, root: ast.AST):
        self.root = root
        a = root.args.args
        self.ind = a[1].arg if len(a) > 1 else "?individual"          # role: the agent whose optimizers are rebuilt
        self.sel = {x.arg for x in a[2:]} | {x.arg for x in root.args.kwonlyargs}  # role: the optional registry entry selecting one optimizer
        self._cfgs: Dict[int, CFG] = {}

    def cfg(self, f: ast.AST) -> CFG:
        if id(f) not in self._cfgs:
            self._cfgs[id(f)] = CFG(f)
        return self._cfgs[id(f)]

    def at(self, target: ast.AST) -> Tuple[ast.AST, CFG, Optional[Node]]:
        f = _owner(self.root, target)
        cfg = self.cfg(f)
        return f, cfg, cfg.node_of(target)

    # ---- live networks
    def _is_ind(self, f: ast.AST, cfg: CFG, n: Optional[Node], e: ast.AST) -> bool:
        """e is the individual (the method's parameter, seen from the method or, unrebound, from a closure)."""
        if not _name_in(e, {self.ind}):
            return False
        defs = cfg.defs_reaching(n, e.id) if n is not None else []
        return all(d.kind == "entry" for d in defs) and (f is self.root or not defs)

    def live(self, f: ast.AST, cfg: CFG, n: Optional[Node], e: Optional[ast.AST], depth: int = 0) -> bool:
        """e is read from the individual now: getattr(individual, <name>), a list / comprehension of those, a choice between such values,
        or a local every binding of which is one (a list filled by appends counts through the appended values)."""
        if e is None or depth > 6:
            return False
        if isinstance(e, ast.IfExp):
            return self.live(f, cfg, n, e.body, depth + 1) and self.live(f, cfg, n, e.orelse, depth + 1)
        if isinstance(e, ast.Call) and call_name(e) == "getattr" and len(e.args) == 2 and not e.keywords:
            return self._is_ind(f, cfg, n, e.args[0])
        if isinstance(e, (ast.List, ast.Tuple)) and e.elts:
            return all(self.live(f, cfg, n, x, depth + 1) for x in e.elts)
        if isinstance(e, ast.ListComp):
            return self.live(f, cfg, n, e.elt, depth + 1)
        if isinstance(e, ast.Name):
            bs = _bindings(cfg, n, e.id)
            if not bs or any(d.kind == "entry" for _, d in bs):
                return False
            for v, d in bs:
                if isinstance(v, ast.List) and not v.elts:
                    added = [c for c in calls_in(f) if isinstance(c.func, ast.Attribute) and c.func.attr == "append" and _name_in(c.func.value, {e.id})]
                    if not added or not all(len(c.args) == 1 and self.live(f, cfg, cfg.node_of(c), c.args[0], depth + 1) for c in added):
                        return False
                elif not self.live(f, cfg, d, v, depth + 1):
                    return False
            return True
        return False

    def mentions(self, f: ast.AST, cfg: CFG, n: Optional[Node], e: Optional[ast.AST], attr: str, depth: int = 0) -> bool:
        """Attribute `.attr` occurs in e or in a value a local used by e is bound to."""
        if e is None or depth > 6:
            return False
        bound = {x.id for c in ast.walk(e) if isinstance(c, ast.comprehension) for x in ast.walk(c.target) if isinstance(x, ast.Name)}
        for x in ast.walk(e):
            if isinstance(x, ast.Attribute) and x.attr == attr:
                return True
            if isinstance(x, ast.Name) and x.id not in bound and n is not None:
                for v, d in _bindings(cfg, n, x.id):
                    if d.kind != "entry" and d is not n and self.mentions(f, cfg, d, v, attr, depth + 1):
                        return True
        return False

    # ---- registry entries
    def entries(self, f: ast.AST, cfg: CFG, n: Optional[Node], e: Optional[ast.AST], depth: int = 0) -> bool:
        """e is a collection of registered optimizer entries: <individual>.registry.optimizers, or a literal / choice / copy of entries."""
        if e is None or depth > 8:
            return False
        if isinstance(e, ast.IfExp):
            return self.entries(f, cfg, n, e.body, depth + 1) and self.entries(f, cfg, n, e.orelse, depth + 1)
        if isinstance(e, ast.Attribute) and e.attr == "optimizers":
            regs = _sources(cfg, n, e.value)
            return all(isinstance(r, ast.Attribute) and r.attr == "registry" and self._is_ind(f, cfg, n, r.value) for r in regs)
        if isinstance(e, (ast.List, ast.Tuple)) and e.elts:
            return all(self.entry(f, cfg, n, x, depth + 1) for x in e.elts)
        if isinstance(e, ast.Call) and call_name(e) in ("list", "tuple") and len(e.args) == 1 and not e.keywords:
            return self.entries(f, cfg, n, e.args[0], depth + 1)
        if isinstance(e, ast.Name):
            bs = _bindings(cfg, n, e.id)
            return bool(bs) and all(d.kind == "stmt" and self.entries(f, cfg, d, v, depth + 1) for v, d in bs)
        return False

    def entry(self, f: ast.AST, cfg: CFG, n: Optional[Node], e: Optional[ast.AST], depth: int = 0) -> bool:
        """e is a registered optimizer entry: the method's selecting parameter, an element of a collection of entries (loop variable or subscript),
        or the parameter of a closure every call of which passes an entry."""
        if e is None or depth > 8 or n is None:
            return False
        if isinstance(e, ast.IfExp):
            return self.entry(f, cfg, n, e.body, depth + 1) and self.entry(f, cfg, n, e.orelse, depth + 1)
        if isinstance(e, ast.Subscript):
            return self.entries(f, cfg, n, e.value, depth + 1)
        if not isinstance(e, ast.Name):
            return False
        defs = cfg.defs_reaching(n, e.id)
        if not defs:
            return False
        for d in defs:
            if d.kind == "entry":
                if f is self.root:
                    if e.id not in self.sel:
                        return False
                    continue
                params = [x.arg for x in f.args.args]
                if e.id not in params:
                    return False
                k = params.index(e.id)
                sites = [c for c in ast.walk(self.root) if isinstance(c, ast.Call) and _name_in(c.func, {f.name})]
                if not sites:
                    return False
                for c in sites:
                    arg = c.args[k] if k < len(c.args) and not any(isinstance(x, ast.Starred) for x in c.args) else get_kw(c, e.id)
                    cf, ccfg, cn = self.at(c)
                    if arg is None or not self.entry(cf, ccfg, cn, arg, depth + 1):
                        return False
            elif d.kind == "for":
                if not (_name_in(d.ast.target, {e.id}) and self.entries(f, cfg, d, d.ast.iter, depth + 1)):
                    return False
            elif d.kind == "stmt":
                v = cfg.value_of_def(d, e.id)
                if v is None or not self.entry(f, cfg, d, v, depth + 1):
                    return False
            else:
                return False
        return True


def _reinit_opt_provenance(ck: Check, repo: Repo) -> None:
    fn = repo.fn(MUT, "Mutations.reinit_opt")
    ows = [c for c in calls_in(fn.node, nested=True) if call_name(c) == "OptimizerWrapper"]
    ck.floor("C02.2", len(ows), 1, "OptimizerWrapper construction in reinit_opt", fn=fn)
    sc = _ReinitScope(fn.node)
    for c in ows:
        lr = get_kw(c, "lr", 2)
        ok = isinstance(lr, ast.Call) and call_name(lr) == "getattr" and dotted(lr.args[0]) == "individual"
        ck.ob("C02.2", fn, c, ok, "lr of the new optimizer = getattr(individual, <lr name>)", detail=f"lr={short(lr, 60)}")
        nets = get_kw(c, "networks", 1)
        f, cfg, n = sc.at(c)
        vals = _sources(cfg, n, nets) if nets is not None else []
        # built from getattr(individual, ...) (directly, through temporaries, as a choice or as a list) and never from the `.networks` the old wrapper holds
        ok = nets is not None and sc.live(f, cfg, n, nets) and not sc.mentions(f, cfg, n, nets, "networks")
        ck.ob("C02.2", fn, c, ok, "networks of the new optimizer = getattr(individual, <network name>) (the live, possibly just replaced, modules)",
              detail=f"networks built from {[short(v, 70) for v in vals if v is not None]}")
        cls_ = get_kw(c, "optimizer_cls", 0)
        ck.ob("C02.2", fn, c, cls_ is not None and "get_optimizer_cls" in ast.unparse(cls_), "the optimizer class comes from the registry entry")
    sets = [c for c in calls_in(fn.node, nested=True) if call_name(c) == "setattr" and dotted(c.args[0]) == "individual"]
    # the key is `<entry>.name`, <entry> being the registry entry this pass works on: the selecting parameter or an element of the individual's registered
    # optimizers, whether it arrives as the parameter of a helper called once per entry or as the variable of a loop over the entries
    ok = len(sets) == 1 and len(sets[0].args) == 3
    if ok:
        f, cfg, n = sc.at(sets[0])
        keys = _sources(cfg, n, sets[0].args[1])
        ok = bool(keys) and all(isinstance(k, ast.Attribute) and k.attr == "name" and sc.entry(f, cfg, n, k.value) for k in keys)
    ck.ob("C02.2", fn, sets[0] if sets else fn.node, ok, "the new wrapper is stored under the optimizer's registered attribute name")


def _shared_rebuilt(ck: Check, repo: Repo) -> None:
    fn = repo.fn(MUT, "Mutations.mutation")
    cfg = CFG(fn.node)
    loops = [n for n in cfg.live_nodes() if n.kind == "for" and any(isinstance(x, ast.Name) and x.id == "population" for x in ast.walk(n.ast.iter))]
    ck.ob("C02.3", fn, fn.node, len(loops) == 1, "one pass over the population", construct="population loop in mutation()")
    if len(loops) != 1:
        return
    L = loops[0]
    it = L.ast.iter
    # roles: the loop variable paired with parameter `population` is the individual, the other one the sampled mutation;
    # the list zipped with the population is the one drawn by <rng>.choice(...) (element updates allowed)
    tv = [e.id for e in L.ast.target.elts] if isinstance(L.ast.target, ast.Tuple) and all(isinstance(e, ast.Name) for e in L.ast.target.elts) else []
    zargs = list(it.args) if isinstance(it, ast.Call) and call_name(it) == "zip" and not it.keywords else []
    ok = len(zargs) == 2 and len(tv) == 2 and sorted(dotted(a) == "population" for a in zargs) == [False, True]
    mut_v, ind_v = "?mutation", "?individual"
    if ok:
        pi = [dotted(a) for a in zargs].index("population")
        ind_v, mut_v = tv[pi], tv[1 - pi]
        ch = zargs[1 - pi]
        dv = _def_values(cfg, L, ch.id) if isinstance(ch, ast.Name) else []
        drawn = [v for v, _ in dv if isinstance(v, ast.Call) and last_attr(v) == "choice"]
        rest = [(v, d) for v, d in dv if not (isinstance(v, ast.Call) and last_attr(v) == "choice")]
        ok = bool(drawn) and all(v is None and isinstance(d.ast, ast.Assign) and all(isinstance(t, ast.Subscript) and dotted(t.value) == ch.id for t in d.ast.targets)
                                 for v, d in rest)
    ck.ob("C02.3", fn, it, ok, "mutation k is applied to individual k (zip(mutation_choice, population))")
    # every name the individual goes by inside the loop: the loop variable, its aliases and what the mutation function returned for it
    IND: Set[str] = {ind_v}
    grew = True
    while grew:
        grew = False
        for a in ast.walk(L.ast):
            if not (isinstance(a, (ast.Assign, ast.AnnAssign)) and a.value is not None):
                continue
            v = a.value
            if _name_in(v, IND) or (isinstance(v, ast.Call) and _name_in(v.func, {mut_v}) and len(v.args) == 1 and _name_in(v.args[0], IND)):
                for t in (a.targets if isinstance(a, ast.Assign) else [a.target]):
                    if isinstance(t, ast.Name) and t.id not in IND:
                        IND.add(t.id)
                        grew = True
    body_nodes = {n.id for n in cfg.live_nodes() if n.stmt is not None and any(x is n.stmt for b in L.ast.body for x in ast.walk(b))}
    # the accumulator is the list the individual is appended to
    appends = [c for c in calls_in(L.ast) if isinstance(c.func, ast.Attribute) and c.func.attr == "append" and isinstance(c.func.value, ast.Name)]
    acc = {c.func.value.id for c in appends if len(c.args) == 1 and _name_in(c.args[0], IND)}
    app_calls = [c for c in appends if c.func.value.id in acc]
    apps = [cfg.node_of(c) for c in app_calls]
    ok = len(apps) == 1 and len(acc) == 1 and apps[0] is not None and _name_in(app_calls[0].args[0] if len(app_calls[0].args) == 1 else None, IND) \
        and cfg.postdominates(apps[0], cfg.node_of(L.ast.body[0]) or L) and not cfg.guards_at(apps[0])
    ck.ob("C02.3", fn, apps[0].ast if apps and apps[0] else L.ast, ok, "exactly one individual is appended per iteration, unconditionally (size and order kept)")
    rets = [n for n in cfg.live_nodes() if n.kind == "stmt" and isinstance(n.ast, ast.Return)]
    ck.ob("C02.3", fn, rets[0].ast if rets else fn.node, bool(rets) and len(acc) == 1 and all(_name_in(r.ast.value, acc) for r in rets), "the mutated population is what is returned")
    # the mutation call
    mc = [c for c in calls_in(L.ast) if isinstance(c.func, ast.Name) and c.func.id == mut_v and len(c.args) == 1]
    ck.ob("C02.3", fn, mc[0] if mc else L.ast, len(mc) == 1 and _name_in(mc[0].args[0], IND), "the sampled mutation function is applied to the individual")
    # shared networks
    sets = [c for c in calls_in(L.ast) if call_name(c) == "setattr" and c.args and _name_in(c.args[0], IND)]

    def group_loops(c: ast.Call):
        """(group variable, shared-name variable, groups loop) of the loops `for g in <..>.groups: ... for s in g.shared:` around c."""
        encl = [l for l in ast.walk(L.ast) if isinstance(l, ast.For) and l is not L.ast and any(x is c for x in ast.walk(l))]
        for gl in encl:
            if isinstance(gl.iter, ast.Attribute) and gl.iter.attr == "groups" and isinstance(gl.target, ast.Name):
                for sl in encl:
                    if sl is not gl and any(x is sl for x in ast.walk(gl)) and isinstance(sl.target, ast.Name) and dotted(sl.iter) == f"{gl.target.id}.shared":
                        return gl.target.id, sl.target.id, gl
                return gl.target.id, None, gl
        return None, None, None

    ck.ob("C02.3", fn, sets[0] if sets else L.ast, len(sets) == 1 and len(sets[0].args) == 3 and group_loops(sets[0])[1] is not None
          and _name_in(sets[0].args[1], {group_loops(sets[0])[1]}), "each shared network attribute is replaced")
    for c in sets:
        grp_v, shared_v, _gl = group_loops(c)
        n = cfg.node_of(c)
        v = c.args[2]
        defs = cfg.defs_reaching(n, dotted(v)) if isinstance(v, ast.Name) else []
        roots = []
        for d in defs:
            roots += _alts(cfg.value_of_def(d, v.id))
        from_reinit = [x for x in roots if isinstance(x, ast.Call) and call_name(x) == "self.reinit_from_mutated"]
        through = [x for x in roots if isinstance(x, ast.Call) and call_name(x) in ("self.to_device", "self.compile_modules") and x.args and dotted(x.args[0]) == v.id]
        ck.ob("C02.3", fn, c, len(from_reinit) == 1 and len(from_reinit) + len(through) == len(roots),
              "the replacement is the result of reinit_from_mutated (possibly moved to the device / compiled)",
              detail=f"definitions: {[short(x, 60) for x in roots]}")
        if from_reinit:
            a0 = from_reinit[0].args[0]
            rn = cfg.node_of(from_reinit[0])
            edefs = cfg.defs_reaching(rn, dotted(a0)) if isinstance(a0, ast.Name) else []
            vals = [x for d in edefs for x in _alts(cfg.value_of_def(d, a0.id))]
            ok = bool(vals) and grp_v is not None and all(isinstance(x, ast.Call) and call_name(x) == "getattr" and len(x.args) == 2 and _name_in(x.args[0], IND)
                                                        and dotted(x.args[1]) == f"{grp_v}.eval" for x in vals)
            ck.ob("C02.3", fn, from_reinit[0], ok, "the shared network is rebuilt from the (mutated) eval network of the same group of the same individual",
                  detail=f"source: {[short(x, 70) for x in vals]}")
        # loops: for net_group in registry.groups / for shared_name in net_group.shared, guarded by shared is not None only
        encl = [l for l in ast.walk(L.ast) if isinstance(l, ast.For) and any(x is c for x in ast.walk(l))]
        its = [ast.unparse(l.iter) for l in encl if l is not L.ast]
        ck.ob("C02.3", fn, c, grp_v is not None and shared_v is not None and (isinstance(_gl.iter.value, ast.Name) or (isinstance(_gl.iter.value, ast.Attribute) and _gl.iter.value.attr == "registry")),
              "every shared network of every registered group is visited", detail=f"enclosing loops: {its}")
        from ..domains import conjuncts
        atoms = [(ast.unparse(a), apol) for g, pol, _ in cfg.guards_at(n) for a, apol in conjuncts(g, pol)]
        ck.ob("C02.3", fn, c, all((a == f"{grp_v}.shared is not None" and apol) or "accelerator" in a or "torch_compiler" in a for a, apol in atoms),
              "no condition other than `shared is not None` can skip the rebuild", detail=f"guards: {atoms}")
    # the registry whose groups are walked: what `<x>.groups` of the group loops stands for
    gloops = [l for l in ast.walk(L.ast) if isinstance(l, ast.For) and l is not L.ast and isinstance(l.iter, ast.Attribute) and l.iter.attr == "groups"]
    regnames = {l.iter.value.id for l in gloops if isinstance(l.iter.value, ast.Name)}
    regsrc = [n for n in cfg.live_nodes() if n.kind == "stmt" and isinstance(n.ast, ast.Assign) and dotted(n.ast.targets[0]) in regnames]
    own = {f"{i}.registry" for i in IND}
    ck.ob("C02.3", fn, regsrc[0].ast if regsrc else L.ast, bool(gloops) and all(dotted(r.ast.value) in own for r in regsrc)
          and all(v is not None and dotted(v) in own for l in gloops for v in _sources(cfg, cfg.node_of(l.iter), l.iter.value)), "groups are read from the individual's own registry")
    hooks = [cfg.node_of(c) for c in calls_in(L.ast) if isinstance(c.func, ast.Attribute) and c.func.attr == "mutation_hook" and _name_in(c.func.value, IND)]
    ok = len(hooks) == 1 and hooks[0] is not None and not cfg.guards_at(hooks[0]) and all(cfg.dominates(hooks[0], a) for a in apps if a) \
        and all(hooks[0].id in cfg.reachable_from(cfg.node_of(c)) for c in sets)
    ck.ob("C02.3", fn, hooks[0].ast if hooks and hooks[0] else L.ast, ok, "the individual's mutation hooks run on every iteration, after shared networks were rebuilt")
    # reinit_from_mutated
    rf = repo.fn(MUT, "Mutations.reinit_from_mutated")
    rcfg = CFG(rf.node)
    rm = [c for c in calls_in(rf.node, nested=True) if call_name(c) == "self.reinit_module"]
    ck.floor("C02.3", len(rm), 2, "reinit_module calls in reinit_from_mutated (list and single branch)", fn=rf)
    for c in rm:
        ok = len(c.args) == 2 and isinstance(c.args[1], ast.Attribute) and c.args[1].attr == "init_dict" and dotted(c.args[1].value) == dotted(c.args[0])
        ck.ob("C02.3", rf, c, ok, "a shared network is re-created from the init_dict of the very offspring it will shadow")
    loads = [c for c in calls_in(rf.node, nested=True) if last_attr(c) in ("load_state_dict", "load_state_dicts")]
    ck.floor("C02.3", len(loads), 2, "state loading in reinit_from_mutated", fn=rf)
    src = ast.unparse(rf.node)
    rets = [n for n in rcfg.live_nodes() if n.kind == "stmt" and isinstance(n.ast, ast.Return)]

    def recreated(v: Optional[ast.AST]) -> bool:
        return (isinstance(v, ast.Call) and any(v is c for c in rm)) or (isinstance(v, ast.ListComp) and any(v.elt is c for c in rm))

    # role: the new network is the local every reaching definition of which is self.reinit_module(...) (or a list of those)
    new_net = {r.ast.value.id for r in rets if isinstance(r.ast.value, ast.Name) and _def_values(rcfg, r, r.ast.value.id)
               and all(recreated(v) for v, _ in _def_values(rcfg, r, r.ast.value.id))}
    single = [c for c in loads if c.func.attr == "load_state_dict" and _name_in(c.func.value, new_net) and c.args and isinstance(c.args[0], ast.Call)
              and dotted(c.args[0].func) == "offspring.state_dict" and not c.args[0].args]
    ck.ob("C02.3", rf, rf.node, bool(single) and has(src, '$state_dicts = [$o.state_dict() for $o in offspring]'),
          "the re-created network receives the state dict of the same offspring", construct="reinit_from_mutated: state transfer")
    ck.ob("C02.3", rf, rets[0].ast if rets else rf.node, bool(rets) and all(_name_in(r.ast.value, new_net) for r in rets), "the new network (not the offspring) is returned")
    rmod = repo.fn(MUT, "Mutations.reinit_module")
    ck.ob("C02.3", rmod, rmod.node, has(rmod.node, 'return $module_cls(**$init_dict)'), "reinit_module instantiates the offspring's class with the given init_dict",
          construct="reinit_module")
    ls = repo.fn(MUT, "Mutations.load_state_dicts")
    ck.ob("C02.3", ls, ls.node, has(ls.node, 'for $module, $state_dict in zip($modules, $state_dicts):\n    ...'), "module k receives state dict k", construct="load_state_dicts zip")


def _critics_follow(ck: Check, repo: Repo) -> None:
    fn = repo.fn(MUT, "Mutations.architecture_mutate")
    cfg = CFG(fn.node)
    calls = [c for c in calls_in(fn.node) if call_name(c) == "self._apply_arch_mutation"]
    ck.floor("C02.4", len(calls), 2, "_apply_arch_mutation calls (policy and other eval networks)", fn=fn)
    pol = [c for c in calls if not any(isinstance(l, (ast.For, ast.While)) and any(x is c for x in ast.walk(l)) for l in ast.walk(fn.node))]
    oth = [c for c in calls if c not in pol]
    ck.ob("C02.4", fn, fn.node, len(pol) == 1 and len(oth) == 1, "one mutation of the policy, one application per other eval network", construct="apply sites")
    if len(pol) != 1 or len(oth) != 1:
        return
    pn = cfg.node_of(pol[0])
    res = [k for k, _ in cfg.defs_at(pn)]
    ck.ob("C02.4", fn, pol[0], len(res) == 2, "the policy call yields (applied name, applied arguments)")

    def from_offspring_call(e: Optional[ast.AST], n: Node, idx: int) -> bool:
        """e is a local bound (on every path) to result idx of get_offspring_eval_modules(individual)."""
        if not isinstance(e, ast.Name):
            return False
        dv = _def_values(cfg, n, e.id)
        return bool(dv) and all(isinstance(_unpacked(v, idx), ast.Call) and call_name(_unpacked(v, idx)) == "get_offspring_eval_modules"
                                and _unpacked(v, idx).args and dotted(_unpacked(v, idx).args[0]) == "individual" for v, _ in dv)

    def policy_item(e: Optional[ast.AST], n: Optional[Node], idx: int) -> bool:
        """e is a local bound to element idx (0 attribute name, 1 network) of the first item of the policy dictionary:
        `<name>, <net> = list(<policy dict>.items())[0]`."""
        if not isinstance(e, ast.Name) or n is None:
            return False
        dv = _def_values(cfg, n, e.id)
        if not dv:
            return False
        for v, d in dv:
            b = _unpacked(v, idx)
            if not (isinstance(b, ast.Subscript) and const_value(b.slice) == 0 and isinstance(b.value, ast.Call) and call_name(b.value) == "list" and len(b.value.args) == 1):
                return False
            items = b.value.args[0]
            if not (isinstance(items, ast.Call) and isinstance(items.func, ast.Attribute) and items.func.attr == "items" and not items.args
                    and from_offspring_call(items.func.value, d, 0)):
                return False
        return True

    pa = pol[0].args
    sampled = len(pa) == 2 and isinstance(pa[1], ast.Name) and bool(_def_values(cfg, pn, pa[1].id)) and all(
        isinstance(v, ast.Call) and last_attr(v) == "get_architecture_mut_method" and v.args and isinstance(pa[0], ast.Name) and _name_in(v.args[0], {pa[0].id})
        for v, _ in _def_values(cfg, pn, pa[1].id))
    ck.ob("C02.4", fn, pol[0], len(pa) == 2 and policy_item(pa[0], pn, 1) and sampled, "the sampled method is applied to the policy offspring")
    if len(res) == 2:
        o = oth[0]
        on = cfg.node_of(o)
        ok = len(o.args) == 3 and dotted(o.args[1]) == res[0] and dotted(o.args[2]) == res[1] and pn in cfg.defs_reaching(on, res[0]) and pn in cfg.defs_reaching(on, res[1])
        ck.ob("C02.4", fn, o, ok, "every other eval network receives the name and the arguments of the mutation actually applied to the policy",
              detail=f"passes ({', '.join(short(a, 30) for a in o.args[1:])}); policy call defines {res}")
        loop = [l for l in ast.walk(fn.node) if isinstance(l, ast.For) and any(x is o for x in ast.walk(l))][0]
        ck.ob("C02.4", fn, loop.iter, isinstance(loop.iter, ast.Call) and isinstance(loop.iter.func, ast.Attribute) and loop.iter.func.attr == "items" and not loop.iter.args
              and from_offspring_call(loop.iter.func.value, cfg.node_of(loop.iter), 1), "the loop covers every non-policy eval group")
        tvars = [t.id for t in loop.target.elts] if isinstance(loop.target, ast.Tuple) else []
        ck.ob("C02.4", fn, o, len(tvars) == 2 and dotted(o.args[0]) == tvars[1], "the mutation is applied to the network of that group")
        stores = [c for c in calls_in(loop) if call_name(c) == "self.to_device_and_set_individual"]
        ok = len(stores) == 1 and [dotted(a) for a in stores[0].args] == ["individual", tvars[0] if tvars else "?", tvars[1] if len(tvars) > 1 else "?"] \
            and cfg.dominates(on, cfg.node_of(stores[0]))
        ck.ob("C02.4", fn, stores[0] if stores else loop, ok, "the mutated network is stored back under its own attribute name")
        lab = [n for n in cfg.live_nodes() if n.kind == "stmt" and isinstance(n.ast, ast.Assign) and dotted(n.ast.targets[0]) == "individual.mut" and res[0] in ast.unparse(n.ast.value)]
        ck.ob("C02.4", fn, lab[0].ast if lab else fn.node, _one_choice(cfg, lab), "the individual reports the applied mutation name", construct="architecture_mutate label")
    pstore = [c for c in calls_in(fn.node) if call_name(c) == "self.to_device_and_set_individual" and c not in [x for l in ast.walk(fn.node) if isinstance(l, ast.For) for x in calls_in(l)]]
    ck.ob("C02.4", fn, pstore[0] if pstore else fn.node, len(pstore) == 1 and len(pstore[0].args) == 3 and dotted(pstore[0].args[0]) == "individual"
          and policy_item(pstore[0].args[1], cfg.node_of(pstore[0]), 0) and policy_item(pstore[0].args[2], cfg.node_of(pstore[0]), 1) and _name_in(pstore[0].args[2], {dotted(pa[0])}),
          "the mutated policy is stored back under the policy's attribute name")
    hook = [cfg.node_of(c) for c in calls_in(fn.node) if call_name(c) == "individual.mutation_hook"]
    ck.ob("C02.4", fn, hook[0].ast if hook and hook[0] else fn.node, len(hook) == 1 and all(cfg.dominates(cfg.node_of(pstore[0]), hook[0]) for _ in [0]) if pstore else False,
          "mutation hooks run after the mutated networks were stored")
    # get_offspring_eval_modules: clones, split by policy flag, keyed by eval name
    g = repo.fn(MUT, "get_offspring_eval_modules")
    src = ast.unparse(g.node)
    ck.ob("C02.4", g, g.node, has(src, 'for $group in $registry.groups:\n    ...') and has(src, 'getattr($individual, $group.eval)'), "offspring are taken from every registered group", construct="offspring source")
    ck.ob("C02.4", g, g.node, _has_choice(src, 'isinstance($eval_module, list)', '[$mod.clone() for $mod in $eval_module]', '$eval_module.clone()', '$offspring'), "mutations act on clones of the eval networks", construct="offspring cloned")
    split_ok, split_why = _policy_split(g)
    ck.ob("C02.4", g, g.node, split_ok, "the policy group is separated from the other eval groups, each keyed by its attribute name", detail=split_why, construct="policy split")
    # _apply_arch_mutation: calls getattr(net, method)(**args) and returns the name really applied
    ap = repo.fn(MUT, "Mutations._apply_arch_mutation")
    src = ast.unparse(ap.node)
    ck.ob("C02.4", ap, ap.node, has(src, 'getattr($networks, $mut_method)(**$applied_mut_dict)') and has(src, 'getattr($net, $mut_method[$i])(**$applied_mut_dict[$i])'),
          "the named method is invoked on the network with the recorded arguments", construct="_apply_arch_mutation invocation")
    ck.ob("C02.4", ap, ap.node, has(src, '$applied_muts = $networks.last_mutation_attr') and has(src, '$applied_muts.append($net.last_mutation_attr)'),
          "the name reported is the one the network says was really applied (fallbacks resolved)", construct="_apply_arch_mutation applied name")


def _policy_split(g: Fn) -> Tuple[bool, str]:
    """get_offspring_eval_modules returns (P, O), two distinct dictionaries created empty, and every store into either of them puts the clone of a
    registered group under `<group>.eval`, into P exactly when `<group>.policy` holds and into O exactly when it does not. How the dictionary is
    chosen (the branch the store stands in, a conditionally bound temporary, a conditional expression) does not matter."""
    from ..domains import conjuncts
    cfg = CFG(g.node)
    rets = [n for n in cfg.live_nodes() if n.kind == "stmt" and isinstance(n.ast, ast.Return)]
    pairs = {tuple(dotted(x) for x in v.elts) if isinstance(v, ast.Tuple) and len(v.elts) == 2 and all(isinstance(x, ast.Name) for x in v.elts) else None
             for r in rets for v in _sources(cfg, r, r.ast.value)}
    if len(pairs) != 1 or None in pairs:
        return False, "the function does not return one pair of local dictionaries"
    P, O = next(iter(pairs))
    if P == O:
        return False, "the same dictionary is returned twice"

    def flag(test: ast.AST, pol: bool, grp: str) -> Optional[Set[bool]]:
        """Outcomes of `<grp>.policy` implied by `test` evaluating to pol; None when the test depends on anything else."""
        out: Set[bool] = set()
        for a, p in conjuncts(test, pol):
            if not (isinstance(a, ast.Attribute) and a.attr == "policy" and _name_in(a.value, {grp})):
                return None
            out.add(p)
        return out

    def ctx(n: Node, grp: str) -> Optional[Set[bool]]:
        out: Set[bool] = set()
        for t, pol, _ in cfg.guards_at(n):
            fl = flag(t, pol, grp)
            if fl is None:
                return None
            out |= fl
        return out

    def dests(n: Node, e: ast.AST, pols: frozenset, grp: str, depth: int = 0) -> Optional[List[Tuple[str, Node, frozenset]]]:
        """(dictionary, its creation, outcomes of the policy flag under which it is the one e denotes at n); None = not resolvable."""
        if depth > 6:
            return None
        if isinstance(e, ast.IfExp):
            out = []
            for arm, armpol in ((e.body, True), (e.orelse, False)):
                fl = flag(e.test, armpol, grp)
                r = dests(n, arm, pols | fl, grp, depth + 1) if fl is not None else None
                if r is None:
                    return None
                out += r
            return out
        if not isinstance(e, ast.Name):
            return None
        out = []
        bs = [d for d in cfg.defs_reaching(n, e.id) if not _weak_def(d, e.id)]
        if not bs:
            return None
        for d in bs:
            v = cfg.value_of_def(d, e.id)
            if d.kind != "stmt" or v is None:
                return None
            if (isinstance(v, ast.Dict) and not v.keys) or (isinstance(v, ast.Call) and call_name(v) == "dict" and not v.args and not v.keywords):
                out.append((e.id, d, pols))
                continue
            c = ctx(d, grp)
            r = dests(d, v, pols | c, grp, depth + 1) if c is not None else None
            if r is None:
                return None
            out += r
        return out

    def cloned(n: Node, e: Optional[ast.AST], depth: int = 0) -> bool:
        if e is None or depth > 6:
            return False
        if isinstance(e, ast.IfExp):
            return cloned(n, e.body, depth + 1) and cloned(n, e.orelse, depth + 1)
        if isinstance(e, ast.ListComp):
            return cloned(n, e.elt, depth + 1)
        if isinstance(e, ast.Call):
            return isinstance(e.func, ast.Attribute) and e.func.attr == "clone" and not e.args and not e.keywords
        if isinstance(e, ast.Name):
            bs = _bindings(cfg, n, e.id)
            return bool(bs) and all(d.kind == "stmt" and cloned(d, v, depth + 1) for v, d in bs)
        return False

    got: Set[Tuple[str, bool]] = set()
    made: Dict[str, Set[int]] = {}
    stores = [n for n in cfg.live_nodes() if n.kind == "stmt" and isinstance(n.ast, ast.Assign) and any(isinstance(t, ast.Subscript) for t in n.ast.targets)]
    for s in stores:
        if len(s.ast.targets) != 1:
            return False, f"line {s.lineno}: chained store"
        t = s.ast.targets[0]
        free = dests(s, t.value, frozenset(), "?")
        if free is not None and not any(nm in (P, O) for nm, _, _ in free):
            continue  # some other container
        keys = _sources(cfg, s, t.slice)
        grps = {k.value.id if isinstance(k, ast.Attribute) and k.attr == "eval" and isinstance(k.value, ast.Name) else None for k in keys}
        if len(grps) != 1 or None in grps:
            return False, f"line {s.lineno}: the key is not `<group>.eval`"
        grp = next(iter(grps))
        gdefs = cfg.defs_reaching(s, grp)
        if not gdefs or not all(d.kind == "for" and _name_in(d.ast.target, {grp}) and isinstance(d.ast.iter, ast.Attribute) and d.ast.iter.attr == "groups" for d in gdefs):
            return False, f"line {s.lineno}: `{grp}` is not the variable of a loop over the registered groups"
        if not cloned(s, s.ast.value):
            return False, f"line {s.lineno}: the stored value is not the clone"
        here = ctx(s, grp)
        ds = dests(s, t.value, frozenset(here), grp) if here is not None else None
        if ds is None:
            return False, f"line {s.lineno}: the destination is not decided by `{grp}.policy` alone"
        for nm, d, pols in ds:
            if len(pols) == 2:
                continue  # contradictory: not a feasible path
            if len(pols) != 1:
                return False, f"line {s.lineno}: `{nm}` receives the clone whatever `{grp}.policy` says"
            got.add((nm, next(iter(pols))))
            made.setdefault(nm, set()).add(d.id)
    if got != {(P, True), (O, False)}:
        return False, f"(dictionary, policy flag) pairs stored: {sorted(got)}; returned: ({P}, {O})"
    if any(len(v) != 1 for v in made.values()):
        return False, "a returned dictionary has more than one creation"
    return True, ""


def _registry_complete(ck: Check, repo: Repo) -> None:
    regs = extract_all(repo)
    n_groups = sum(len(r.groups) for r in regs.values())
    n_opts = sum(len(r.opts) for r in regs.values())
    n_hooks = sum(len(r.hooks) for r in regs.values())
    ck.floor("C02.5", len(regs), 11, "algorithm classes with a registry")
    ck.floor("C02.5", n_groups, 19, "network groups")
    ck.floor("C02.5", n_opts, 18, "optimizers")
    ck.floor("C02.5", n_hooks, 6, "hook registrations")
    ck.note("registry", {c: {"groups": [(g.eval, g.shared, g.policy) for g in r.groups], "optimizers": [(o.name, o.networks, o.lr) for o in r.opts],
                             "hooks": [h.name for h in r.hooks]} for c, r in regs.items()})
    for cname, reg in regs.items():
        init = reg.init
        # network attributes built in __init__: self.X = <network ctor or factory> (uppercase callee / create_* / make_safe_deepcopies / list of those)
        nets: Set[str] = set()
        for attr, vals in self_attr_stores(init).items():
            for v in vals:
                s = ast.unparse(v)
                if any(k in s for k in ("create_actor", "create_critic", "make_safe_deepcopies", "Network(", "Actor(", "QNetwork(", "ValueNetwork(")) \
                        and not attr.endswith(("_optimizer", "_optimizers", "optimizer")):
                    nets.add(attr)
        grouped = [g.eval for g in reg.groups] + [s for g in reg.groups for s in g.shared]
        missing = sorted(nets - set(grouped))
        dup = sorted({a for a in grouped if grouped.count(a) > 1})
        ck.ob("C02.5", init, init.node, not missing and not dup, f"{cname}: every network attribute is in exactly one group",
              detail=f"not registered: {missing}; registered twice: {dup}", construct=f"{cname}: networks {sorted(nets)} vs groups")
        ck.ob("C02.5", init, init.node, sum(1 for g in reg.groups if g.policy) == 1, f"{cname}: exactly one group is the policy", construct=f"{cname}: policy group")
        covered = {n for o in reg.opts for n in o.networks}
        evals = {g.eval for g in reg.groups}
        ck.ob("C02.5", init, init.node, evals <= covered and covered <= evals, f"{cname}: every eval network (and only eval networks) is covered by a registered optimizer",
              detail=f"eval {sorted(evals)} vs optimized {sorted(covered)}", construct=f"{cname}: optimizer coverage")
        for o in reg.opts:
            ck.ob("C02.5", init, o.node, bool(o.lr), f"{cname}.{o.name}: the learning rate is an attribute of the agent (so that mutating it can take effect)",
                  construct=f"{cname}.{o.name} lr")
            g = [gg for gg in reg.groups if gg.eval in o.networks]
            ck.ob("C02.5", init, o.node, all(gg.multiagent == o.multiagent for gg in g), f"{cname}.{o.name}: multi-agent flag agrees with its network group",
                  construct=f"{cname}.{o.name} multiagent")
        _stepped(ck, repo, reg)


def _stepped(ck: Check, repo: Repo, reg: AlgoRegistry) -> None:
    cname = reg.cls.name
    methods = [m for m in reg.cls.methods.values() if m.name in ("learn", "update", "_learn_individual", "learn_individual", "_dqn_loss") or m.name.startswith("_learn")]
    for o in reg.opts:
        found = False
        for m in methods:
            cfg = CFG(m.node)
            steps, zeros, backs = [], [], []
            stem = o.name[:-1] if o.name.endswith("s") else o.name
            for c in calls_in(m.node):
                if not isinstance(c.func, ast.Attribute):
                    continue
                recv = ast.unparse(c.func.value)
                is_opt = recv == f"self.{o.name}" or recv == stem or recv == o.name or recv.startswith(f"self.{o.name}[")
                if c.func.attr == "step" and is_opt:
                    steps.append(c)
                elif c.func.attr == "zero_grad" and is_opt:
                    zeros.append(c)
                elif c.func.attr == "backward":
                    backs.append(c)
            if not steps:
                continue
            found = True
            for s in steps:
                sn = cfg.node_of(s)
                zs = [cfg.node_of(z) for z in zeros]
                bs = [cfg.node_of(b) for b in backs]
                okz = any(z is not None and cfg.dominates(z, sn) for z in zs)
                # a backward between the zero_grad and the step on every path
                okb = False
                for z in zs:
                    if z is None or not cfg.dominates(z, sn):
                        continue
                    p = cfg.path_avoiding(z, {sn.id}, {b.id for b in bs if b is not None})
                    if p is None:
                        okb = True
                ck.ob("C02.5", m, s, okz and okb, f"{cname}.{o.name}: zero_grad precedes backward precedes step on every path",
                      detail=f"zero_grad dominates step: {okz}; backward on every path between them: {okb}")
        ck.ob("C02.5", reg.cls.methods.get("learn") or reg.init, (reg.cls.methods.get("learn") or reg.init).node, found,
              f"{cname}.{o.name}: the registered optimizer is stepped by the learner", construct=f"{cname}.{o.name}.step()")


def _encoder_hook(ck: Check, repo: Repo) -> None:
    n = 0
    for modname, cname in ALGOS:
        reg = extract(repo, modname, cname)
        hooks = [h for h in reg.hooks if h.name == "share_encoder_parameters"]
        if not hooks:
            continue
        n += 1
        init = reg.init
        cfg = CFG(init.node)
        hn = cfg.node_of(hooks[0].node)
        applied = [cfg.node_of(c) for c in calls_in(init.node) if call_name(c) == "self.share_encoder_parameters"]
        ok = len(applied) == 1 and applied[0] is not None and hn is not None
        if ok:
            ga = {(ast.unparse(g), pol) for g, pol, _ in cfg.guards_at(applied[0])}
            gh = {(ast.unparse(g), pol) for g, pol, _ in cfg.guards_at(hn)}
            ok = ga == gh and any("share_encoders" in g for g, _ in ga)
        ck.ob("C02.6", init, hooks[0].node, ok, f"{cname}: the sharing hook is registered under exactly the condition under which sharing was applied")
        m = reg.cls.methods.get("share_encoder_parameters")
        if m is None:
            ck.ob("C02.6", init, init.node, False, f"{cname}: share_encoder_parameters exists")
            continue
        calls = [c for c in calls_in(m.node) if call_name(c) == "share_encoder_parameters"]
        others = [g for g in reg.groups if not g.policy]
        want = {g.eval for g in others} | {s for g in others for s in g.shared}
        pol = [g.eval for g in reg.groups if g.policy][0]
        ok = len(calls) == 1 and dotted(calls[0].args[0]) == f"self.{pol}" and {dotted(a)[5:] for a in calls[0].args[1:]} == want
        ck.ob("C02.6", m, calls[0] if calls else m.node, ok, f"{cname}: the hook ties the encoder of every non-policy network (and its target) to the policy's",
              detail=f"ties {[dotted(a) for a in calls[0].args[1:]] if calls else []}; expected {sorted(want)}")
    ck.floor("C02.6", n, 3, "algorithms with an encoder-sharing hook (DDPG, TD3, PPO)")
    sf = repo.fn("agilerl.utils.algo_utils", "share_encoder_parameters")
    src = ast.unparse(sf.node)
    ck.ob("C02.6", sf, sf.node, has(src, 'from_module($policy.encoder)') and has(src, '$_.to_module($other.encoder)') and has(src, 'for $other in $others:\n    ...'),
          "share_encoder_parameters installs the policy encoder's parameters into every other network's encoder", construct="share_encoder_parameters body")
    ck.ob("C02.6", sf, sf.node, has(src, '$other.encoder.disable_mutations()'), "tied encoders no longer advertise their own architecture mutations (they follow the policy through the hook)",
          construct="tied encoders disable mutations")


_MF = "agilerl/hpo/mutation.py"
def _report_matches_effect(ck: Check, repo: Repo) -> None:
    from ..domains import conjuncts
    fn = repo.fn("agilerl.hpo.mutation", "Mutations.activation_mutation")
    cfg = CFG(fn.node)
    perms = [c for c in calls_in(fn.node, nested=True) if call_name(c) == "self._permutate_activation"]
    ck.floor("C02.9", len(perms), 2, "in-place permutation calls (single network and list form)", fn=fn)
    for c in perms:
        n = cfg.node_of(c)
        atoms = [(ast.unparse(a).replace(" ", ""), p) for g, pol, _ in (cfg.guards_at(n) if n is not None else []) for a, p in conjuncts(g, pol)]
        # guarded by `<module>.activation is None` being False (or `is not None` being True)
        ok = any((t.endswith(".activationisNone") and not p) or (t.endswith(".activationisnotNone") and p) for t, p in atoms)
        ck.ob("C02.9", fn, c, ok, "activation_mutation permutates a network only when it has an activation to mutate (the path that reports 'act')",
              detail=f"guards: {atoms}; _permutate_activation changes the individual's network in place, so on the path that then reports 'None' (no activation found) "
                     "the agent has received a mutation it does not report (recurrent DQN: head ReLU -> GELU, encoder output None -> GELU, mut == 'None')",
              construct=f"activation_mutation: {short(c, 60)} guarded")


VARIANTS = [
    ("activation-permutated-before-no-activation-check", "agilerl/hpo/mutation.py", "                if eval_module.activation is None:\n                    no_activation = True\n                else:\n                    eval_module = self._permutate_activation(eval_module)\n", "                if eval_module.activation is None:\n                    no_activation = True\n\n                eval_module = self._permutate_activation(eval_module)\n", "fire", "C02.9"),
    ("mlp-fallback-result-dropped", "agilerl/modules/mlp.py", "            self.hidden_size = self.hidden_size[:-1]\n        else:\n            return self.add_node()", "            self.hidden_size = self.hidden_size[:-1]\n        else:\n            self.add_node()", "fire", "C02.8"),
    ("arch-no-reinit", _MF, "        individual.mutation_hook()  # Apply mutation hook\n\n        self.reinit_opt(individual)  # Reinitialise optimizer\n", "        individual.mutation_hook()  # Apply mutation hook\n\n", "fire", "C02.1"),
    ("param-reinit-before-store", _MF, "        setattr(individual, registry.policy, offspring_policy)\n\n        self.reinit_opt(individual)  # Reinitialise optimizer\n",
     "        self.reinit_opt(individual)  # Reinitialise optimizer\n        setattr(individual, registry.policy, offspring_policy)\n\n", "fire", "C02.1"),
    ("act-reinit-first-only", _MF, "        self.reinit_opt(individual)  # Reinitialise optimizer\n        individual.mut = \"act\" if not no_activation else \"None\"",
     "        self.reinit_opt(individual, individual.registry.optimizers[0])  # Reinitialise optimizer\n        individual.mut = \"act\" if not no_activation else \"None\"", "fire", "C02.1"),
    ("opt-nets-from-old-wrapper", _MF, "                    opt_nets = getattr(individual, opt.network_names[0])\n", "                    opt_nets = opt.networks[0]\n", "fire", "C02.2"),
    ("shared-from-policy", _MF, "                        eval_offspring: OffspringType = getattr(\n                            individual, net_group.eval\n                        )",
     "                        eval_offspring: OffspringType = getattr(\n                            individual, registry.policy\n                        )", "fire", "C02.3"),
    ("shared-skip-nonpolicy", _MF, "                if net_group.shared is not None:\n", "                if net_group.shared is not None and net_group.policy:\n", "fire", "C02.3"),
    ("hook-skipped", _MF, "            # Call hooks specified by user\n            individual.mutation_hook()\n\n            mutated_population.append(individual)",
     "            mutated_population.append(individual)", "fire", "C02.3"),
    ("append-conditional", _MF, "            mutated_population.append(individual)\n", "            if individual.mut != \"None\":\n                mutated_population.append(individual)\n", "fire", "C02.3"),
    ("reinit-wrong-init-dict", _MF, "            ind_shared = self.reinit_module(offspring, offspring.init_dict)\n            ind_shared.load_state_dict", "            ind_shared = self.reinit_module(offspring, offspring.net_config)\n            ind_shared.load_state_dict", "fire", "C02.3"),
    ("critics-get-sampled-method", _MF, "            self._apply_arch_mutation(offsprings, applied_mutations, mut_dict)", "            self._apply_arch_mutation(offsprings, mut_method, mut_dict)", "fire", "C02.4"),
    ("critics-without-args", _MF, "            self._apply_arch_mutation(offsprings, applied_mutations, mut_dict)", "            self._apply_arch_mutation(offsprings, applied_mutations)", "fire", "C02.4"),
    ("critic-not-stored", _MF, "            self._apply_arch_mutation(offsprings, applied_mutations, mut_dict)\n            self.to_device_and_set_individual(individual, name, offsprings)\n",
     "            self._apply_arch_mutation(offsprings, applied_mutations, mut_dict)\n", "fire", "C02.4"),
    ("offspring-not-cloned", _MF, "            else eval_module.clone()\n", "            else eval_module\n", "fire", "C02.4"),
    ("td3-critic2-not-registered", "agilerl/algorithms/td3.py", "        self.register_network_group(\n            NetworkGroup(eval=self.critic_2, shared=self.critic_target_2, policy=False)\n        )\n", "", "fire", "C02.5"),
    ("ddpg-hook-unconditional", "agilerl/algorithms/ddpg.py", "            self.share_encoder_parameters()\n\n            # Need to register a mutation hook that does this after every mutation\n            self.register_mutation_hook(self.share_encoder_parameters)\n",
     "            self.share_encoder_parameters()\n\n        self.register_mutation_hook(self.share_encoder_parameters)\n", "fire", "C02.6"),
    ("td3-hook-misses-target", "agilerl/algorithms/td3.py", "                self.critic_target_2,\n            )", "            )", "fire", "C02.6"),
    # roles derived by def-use instead of by the spelling of locals: each role still has to be played by the right value
    ("zip-wrong-list", _MF, "zip(mutation_choice, population)", "zip(mutation_options, population)", "fire", "C02.3"),
    ("zip-order-swapped-ok", _MF, "for mutation, individual in zip(mutation_choice, population):", "for individual, mutation in zip(population, mutation_choice):", "silent", None),
    ("return-input-population", _MF, "        return mutated_population", "        return population", "fire", "C02.3"),
    ("registry-of-first", _MF, "            registry = individual.registry\n", "            registry = population[0].registry\n", "fire", "C02.3"),
    ("hook-of-first", _MF, "            individual.mutation_hook()\n", "            population[0].mutation_hook()\n", "fire", "C02.3"),
    ("shared-stored-under-eval", _MF, "setattr(individual, shared_name, ind_shared)", "setattr(individual, net_group.eval, ind_shared)", "fire", "C02.3"),
    ("reinit-returns-offspring", _MF, "        return ind_shared", "        return offspring", "fire", "C02.3"),
    ("state-from-itself", _MF, "ind_shared.load_state_dict(offspring.state_dict(), strict=False)", "ind_shared.load_state_dict(ind_shared.state_dict(), strict=False)", "fire", "C02.3"),
    ("loop-over-policy-dict", _MF, "for name, offsprings in offspring_evals.items():", "for name, offsprings in policy.items():", "fire", "C02.4"),
    ("policy-store-sample", _MF, "self.to_device_and_set_individual(individual, policy_name, policy_offspring)", "self.to_device_and_set_individual(individual, policy_name, sample_policy)", "fire", "C02.4"),
    ("policy-call-sample-net", _MF, "            policy_offspring, mut_method\n", "            sample_policy, mut_method\n", "fire", "C02.4"),
    ("store-old-wrapper-name", _MF, "setattr(individual, config.name, offspring_opt)", "setattr(individual, opt.lr_name, offspring_opt)", "fire", "C02.2"),
    # a choice between two values spelled as an if / else statement instead of a conditional expression is the same program
    ("act-label-if-statement-ok", _MF, "        individual.mut = \"act\" if not no_activation else \"None\"\n",
     "        if no_activation:\n            individual.mut = \"None\"\n        else:\n            individual.mut = \"act\"\n", "silent", None),
    ("act-label-set-before-reinit", _MF, "        self.reinit_opt(individual)  # Reinitialise optimizer\n        individual.mut = \"act\" if not no_activation else \"None\"\n",
     "        individual.mut = \"act\"\n        self.reinit_opt(individual)  # Reinitialise optimizer\n        if no_activation:\n            individual.mut = \"None\"\n", "fire", "C02.1"),
    ("arch-label-if-statement-ok", _MF, "        individual.mut = (\n            applied_mutations[0]\n            if isinstance(applied_mutations, list)\n            else applied_mutations\n        )\n",
     "        if isinstance(applied_mutations, list):\n            individual.mut = applied_mutations[0]\n        else:\n            individual.mut = applied_mutations\n", "silent", None),
    ("arch-label-if-statement-sampled-name", _MF, "        individual.mut = (\n            applied_mutations[0]\n            if isinstance(applied_mutations, list)\n            else applied_mutations\n        )\n",
     "        if isinstance(mut_method, list):\n            individual.mut = mut_method[0]\n        else:\n            individual.mut = mut_method\n", "fire", "C02.4"),
    ("arch-label-twice", _MF, "        individual.mut = (\n            applied_mutations[0]\n            if isinstance(applied_mutations, list)\n            else applied_mutations\n        )\n",
     "        individual.mut = applied_mutations\n        individual.mut = str(applied_mutations)\n", "fire", "C02"),
    ("offspring-clone-if-statement-ok", _MF, "        offspring = (\n            [mod.clone() for mod in eval_module]\n            if isinstance(eval_module, list)\n            else eval_module.clone()\n        )\n",
     "        if isinstance(eval_module, list):\n            offspring = [mod.clone() for mod in eval_module]\n        else:\n            offspring = eval_module.clone()\n", "silent", None),
    ("offspring-if-statement-single-not-cloned", _MF, "        offspring = (\n            [mod.clone() for mod in eval_module]\n            if isinstance(eval_module, list)\n            else eval_module.clone()\n        )\n",
     "        if isinstance(eval_module, list):\n            offspring = [mod.clone() for mod in eval_module]\n        else:\n            offspring = eval_module\n", "fire", "C02.4"),
    ("sampled-method-if-statement-ok", _MF, "        mut_method = get_architecture_mut_method(\n            policy_offspring, self.new_layer_prob, self.rng\n        )\n",
     "        if self.new_layer_prob < 1:\n            mut_method = get_architecture_mut_method(policy_offspring, self.new_layer_prob, self.rng)\n        else:\n            mut_method = get_architecture_mut_method(policy_offspring, 1.0, self.rng)\n", "silent", None),
    ("sampled-method-conditional-expression-ok", _MF, "        mut_method = get_architecture_mut_method(\n            policy_offspring, self.new_layer_prob, self.rng\n        )\n",
     "        mut_method = get_architecture_mut_method(policy_offspring, self.new_layer_prob, self.rng) if self.new_layer_prob < 1 else get_architecture_mut_method(policy_offspring, 1.0, self.rng)\n", "silent", None),
    # round 4: the closure of reinit_opt inlined into one loop over the entries, choices as conditional expressions over temporaries; the destination
    # dictionary of get_offspring_eval_modules chosen by a conditional expression (same programs), and the corresponding broken forms
    ('reinit-closure-inlined-into-loop-ok', _MF, '        def _reinit_individual(config: OptimizerConfig) -> None:\n            opt: Union[OptimizerWrapper, DeepSpeedOptimizerWrapper] = getattr(\n                individual, config.name\n            )\n            optimizer = opt.optimizer\n\n            # Multiple optimizers in a single attribute (i.e. multi-agent)\n            # or one module optimized by a single optimizer\n            if isinstance(opt, DeepSpeedOptimizerWrapper):\n                for param_group in opt.param_groups:\n                    param_group["lr"] = individual.lr\n            else:\n                if isinstance(optimizer, list) or len(opt.network_names) == 1:\n                    opt_nets = getattr(individual, opt.network_names[0])\n\n                # Multiple modules optimized by a single optimizer (e.g. PPO)\n                else:\n                    opt_nets = [getattr(individual, net) for net in opt.network_names]\n\n                # Reinitialize optimizer with mutated nets\n                offspring_opt = OptimizerWrapper(\n                    optimizer_cls=config.get_optimizer_cls(),\n                    networks=opt_nets,\n                    lr=getattr(individual, opt.lr_name),\n                    optimizer_kwargs=opt.optimizer_kwargs,\n                    network_names=opt.network_names,\n                    lr_name=opt.lr_name,\n                    multiagent=opt.multiagent,\n                )\n\n                setattr(individual, config.name, offspring_opt)\n\n        if optimizer is not None:\n            _reinit_individual(optimizer)\n        else:\n            optimizer_configs = individual.registry.optimizers\n            for opt_config in optimizer_configs:\n                _reinit_individual(opt_config)\n\n',
     '        # Either the one optimizer that was asked for or every registered optimizer\n        configs = (\n            [optimizer] if optimizer is not None else individual.registry.optimizers\n        )\n        for config in configs:\n            opt: Union[OptimizerWrapper, DeepSpeedOptimizerWrapper] = getattr(\n                individual, config.name\n            )\n            inner_opt = opt.optimizer\n\n            if isinstance(opt, DeepSpeedOptimizerWrapper):\n                for param_group in opt.param_groups:\n                    param_group["lr"] = individual.lr\n            else:\n                # Multiple optimizers in a single attribute (i.e. multi-agent) or one\n                # module optimized by a single optimizer: the attribute itself. Multiple\n                # modules optimized by a single optimizer (e.g. PPO): the list of modules\n                names = opt.network_names\n                single_attr = isinstance(inner_opt, list) or len(names) == 1\n                opt_nets = (\n                    getattr(individual, names[0])\n                    if single_attr\n                    else [getattr(individual, net) for net in names]\n                )\n\n                # Reinitialize optimizer with mutated nets\n                offspring_opt = OptimizerWrapper(\n                    optimizer_cls=config.get_optimizer_cls(),\n                    networks=opt_nets,\n                    lr=getattr(individual, opt.lr_name),\n                    optimizer_kwargs=opt.optimizer_kwargs,\n                    network_names=opt.network_names,\n                    lr_name=opt.lr_name,\n                    multiagent=opt.multiagent,\n                )\n\n                setattr(individual, config.name, offspring_opt)\n\n', 'silent', None),
    ('reinit-closure-inlined-store-under-lr-name', _MF, '        def _reinit_individual(config: OptimizerConfig) -> None:\n            opt: Union[OptimizerWrapper, DeepSpeedOptimizerWrapper] = getattr(\n                individual, config.name\n            )\n            optimizer = opt.optimizer\n\n            # Multiple optimizers in a single attribute (i.e. multi-agent)\n            # or one module optimized by a single optimizer\n            if isinstance(opt, DeepSpeedOptimizerWrapper):\n                for param_group in opt.param_groups:\n                    param_group["lr"] = individual.lr\n            else:\n                if isinstance(optimizer, list) or len(opt.network_names) == 1:\n                    opt_nets = getattr(individual, opt.network_names[0])\n\n                # Multiple modules optimized by a single optimizer (e.g. PPO)\n                else:\n                    opt_nets = [getattr(individual, net) for net in opt.network_names]\n\n                # Reinitialize optimizer with mutated nets\n                offspring_opt = OptimizerWrapper(\n                    optimizer_cls=config.get_optimizer_cls(),\n                    networks=opt_nets,\n                    lr=getattr(individual, opt.lr_name),\n                    optimizer_kwargs=opt.optimizer_kwargs,\n                    network_names=opt.network_names,\n                    lr_name=opt.lr_name,\n                    multiagent=opt.multiagent,\n                )\n\n                setattr(individual, config.name, offspring_opt)\n\n        if optimizer is not None:\n            _reinit_individual(optimizer)\n        else:\n            optimizer_configs = individual.registry.optimizers\n            for opt_config in optimizer_configs:\n                _reinit_individual(opt_config)\n\n',
     '        # Either the one optimizer that was asked for or every registered optimizer\n        configs = (\n            [optimizer] if optimizer is not None else individual.registry.optimizers\n        )\n        for config in configs:\n            opt: Union[OptimizerWrapper, DeepSpeedOptimizerWrapper] = getattr(\n                individual, config.name\n            )\n            inner_opt = opt.optimizer\n\n            if isinstance(opt, DeepSpeedOptimizerWrapper):\n                for param_group in opt.param_groups:\n                    param_group["lr"] = individual.lr\n            else:\n                # Multiple optimizers in a single attribute (i.e. multi-agent) or one\n                # module optimized by a single optimizer: the attribute itself. Multiple\n                # modules optimized by a single optimizer (e.g. PPO): the list of modules\n                names = opt.network_names\n                single_attr = isinstance(inner_opt, list) or len(names) == 1\n                opt_nets = (\n                    getattr(individual, names[0])\n                    if single_attr\n                    else [getattr(individual, net) for net in names]\n                )\n\n                # Reinitialize optimizer with mutated nets\n                offspring_opt = OptimizerWrapper(\n                    optimizer_cls=config.get_optimizer_cls(),\n                    networks=opt_nets,\n                    lr=getattr(individual, opt.lr_name),\n                    optimizer_kwargs=opt.optimizer_kwargs,\n                    network_names=opt.network_names,\n                    lr_name=opt.lr_name,\n                    multiagent=opt.multiagent,\n                )\n\n                setattr(individual, opt.lr_name, offspring_opt)\n\n', 'fire', 'C02.2'),
    ('reinit-closure-inlined-nets-from-old-wrapper', _MF, '        def _reinit_individual(config: OptimizerConfig) -> None:\n            opt: Union[OptimizerWrapper, DeepSpeedOptimizerWrapper] = getattr(\n                individual, config.name\n            )\n            optimizer = opt.optimizer\n\n            # Multiple optimizers in a single attribute (i.e. multi-agent)\n            # or one module optimized by a single optimizer\n            if isinstance(opt, DeepSpeedOptimizerWrapper):\n                for param_group in opt.param_groups:\n                    param_group["lr"] = individual.lr\n            else:\n                if isinstance(optimizer, list) or len(opt.network_names) == 1:\n                    opt_nets = getattr(individual, opt.network_names[0])\n\n                # Multiple modules optimized by a single optimizer (e.g. PPO)\n                else:\n                    opt_nets = [getattr(individual, net) for net in opt.network_names]\n\n                # Reinitialize optimizer with mutated nets\n                offspring_opt = OptimizerWrapper(\n                    optimizer_cls=config.get_optimizer_cls(),\n                    networks=opt_nets,\n                    lr=getattr(individual, opt.lr_name),\n                    optimizer_kwargs=opt.optimizer_kwargs,\n                    network_names=opt.network_names,\n                    lr_name=opt.lr_name,\n                    multiagent=opt.multiagent,\n                )\n\n                setattr(individual, config.name, offspring_opt)\n\n        if optimizer is not None:\n            _reinit_individual(optimizer)\n        else:\n            optimizer_configs = individual.registry.optimizers\n            for opt_config in optimizer_configs:\n                _reinit_individual(opt_config)\n\n',
     '        # Either the one optimizer that was asked for or every registered optimizer\n        configs = (\n            [optimizer] if optimizer is not None else individual.registry.optimizers\n        )\n        for config in configs:\n            opt: Union[OptimizerWrapper, DeepSpeedOptimizerWrapper] = getattr(\n                individual, config.name\n            )\n            inner_opt = opt.optimizer\n\n            if isinstance(opt, DeepSpeedOptimizerWrapper):\n                for param_group in opt.param_groups:\n                    param_group["lr"] = individual.lr\n            else:\n                # Multiple optimizers in a single attribute (i.e. multi-agent) or one\n                # module optimized by a single optimizer: the attribute itself. Multiple\n                # modules optimized by a single optimizer (e.g. PPO): the list of modules\n                names = opt.network_names\n                single_attr = isinstance(inner_opt, list) or len(names) == 1\n                opt_nets = (\n                    getattr(individual, names[0])\n                    if single_attr\n                    else opt.networks\n                )\n\n                # Reinitialize optimizer with mutated nets\n                offspring_opt = OptimizerWrapper(\n                    optimizer_cls=config.get_optimizer_cls(),\n                    networks=opt_nets,\n                    lr=getattr(individual, opt.lr_name),\n                    optimizer_kwargs=opt.optimizer_kwargs,\n                    network_names=opt.network_names,\n                    lr_name=opt.lr_name,\n                    multiagent=opt.multiagent,\n                )\n\n                setattr(individual, config.name, offspring_opt)\n\n', 'fire', 'C02.2'),
    ('reinit-dispatch-one-loop-ok', _MF, '        if optimizer is not None:\n            _reinit_individual(optimizer)\n        else:\n            optimizer_configs = individual.registry.optimizers\n            for opt_config in optimizer_configs:\n                _reinit_individual(opt_config)\n',
     '        for opt_config in ([optimizer] if optimizer is not None else individual.registry.optimizers):\n            _reinit_individual(opt_config)\n', 'silent', None),
    ('reinit-dispatch-loop-over-groups', _MF, '        if optimizer is not None:\n            _reinit_individual(optimizer)\n        else:\n            optimizer_configs = individual.registry.optimizers\n            for opt_config in optimizer_configs:\n                _reinit_individual(opt_config)\n',
     '        for opt_config in ([optimizer] if optimizer is not None else individual.registry.groups):\n            _reinit_individual(opt_config)\n', 'fire', 'C02.2'),
    ('opt-nets-conditional-expression-ok', _MF, '                if isinstance(optimizer, list) or len(opt.network_names) == 1:\n                    opt_nets = getattr(individual, opt.network_names[0])\n\n                # Multiple modules optimized by a single optimizer (e.g. PPO)\n                else:\n                    opt_nets = [getattr(individual, net) for net in opt.network_names]\n',
     '                names = opt.network_names\n                single_attr = isinstance(optimizer, list) or len(names) == 1\n                opt_nets = getattr(individual, names[0]) if single_attr else [getattr(individual, net) for net in names]\n', 'silent', None),
    ('opt-nets-appended-in-loop-ok', _MF, '                if isinstance(optimizer, list) or len(opt.network_names) == 1:\n                    opt_nets = getattr(individual, opt.network_names[0])\n\n                # Multiple modules optimized by a single optimizer (e.g. PPO)\n                else:\n                    opt_nets = [getattr(individual, net) for net in opt.network_names]\n',
     '                if isinstance(optimizer, list) or len(opt.network_names) == 1:\n                    opt_nets = getattr(individual, opt.network_names[0])\n                else:\n                    opt_nets = []\n                    for net in opt.network_names:\n                        opt_nets.append(getattr(individual, net))\n', 'silent', None),
    ('opt-nets-temporary-from-old-wrapper', _MF, '                if isinstance(optimizer, list) or len(opt.network_names) == 1:\n                    opt_nets = getattr(individual, opt.network_names[0])\n\n                # Multiple modules optimized by a single optimizer (e.g. PPO)\n                else:\n                    opt_nets = [getattr(individual, net) for net in opt.network_names]\n',
     '                names = opt.network_names\n                old_nets = opt.networks\n                opt_nets = getattr(individual, names[0]) if len(names) == 1 else old_nets\n', 'fire', 'C02.2'),
    ('policy-split-destination-temporary-ok', _MF, '        if group.policy:\n            offspring_policy[group.eval] = offspring\n        else:\n            offspring_modules[group.eval] = offspring\n',
     '        destination = offspring_policy if group.policy else offspring_modules\n        destination[group.eval] = offspring\n', 'silent', None),
    ('policy-split-negated-test-ok', _MF, '        if group.policy:\n            offspring_policy[group.eval] = offspring\n        else:\n            offspring_modules[group.eval] = offspring\n',
     '        if not group.policy:\n            destination = offspring_modules\n        else:\n            destination = offspring_policy\n        destination[group.eval] = offspring\n', 'silent', None),
    ('policy-split-destination-swapped', _MF, '        if group.policy:\n            offspring_policy[group.eval] = offspring\n        else:\n            offspring_modules[group.eval] = offspring\n',
     '        destination = offspring_modules if group.policy else offspring_policy\n        destination[group.eval] = offspring\n', 'fire', 'C02.4'),
    ('policy-split-destination-unconditional', _MF, '        if group.policy:\n            offspring_policy[group.eval] = offspring\n        else:\n            offspring_modules[group.eval] = offspring\n',
     '        destination = offspring_modules\n        destination[group.eval] = offspring\n', 'fire', 'C02.4'),
    ('policy-split-keyed-by-policy-name', _MF, '        if group.policy:\n            offspring_policy[group.eval] = offspring\n        else:\n            offspring_modules[group.eval] = offspring\n',
     '        destination = offspring_policy if group.policy else offspring_modules\n        destination[registry.policy] = offspring\n', 'fire', 'C02.4'),
    ('policy-split-stores-original', _MF, '        if group.policy:\n            offspring_policy[group.eval] = offspring\n        else:\n            offspring_modules[group.eval] = offspring\n',
     '        destination = offspring_policy if group.policy else offspring_modules\n        destination[group.eval] = eval_module\n', 'fire', 'C02.4'),
    ('policy-split-return-swapped', _MF, '    return offspring_policy, offspring_modules\n',
     '    return offspring_modules, offspring_policy\n', 'fire', 'C02.4'),
]
